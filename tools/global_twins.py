#!/usr/bin/env python3
"""Run checks on a whole-package behaviour-preserving rewrite (see dosa/selftest/gtwins.py).
usage: global_twins.py [unparse|rename] [Cnn ...] [--keep]"""
import os, shutil, sys
V = os.path.dirname(os.path.dirname(os.path.abspath(__file__)))
sys.path.insert(0, os.path.join(V, 'tools'))
sys.path.insert(0, V)
import try_patch as tp
from dosa.selftest.gtwins import rewrite


def main():
    a = sys.argv[1:]
    mode = a[0] if a and a[0] in ('unparse', 'rename', 'flip', 'hoist', 'cmpswap', 'elsify', 'opaque', 'swapadj', 'withmerge', 'loopify', 'walrus', 'logging') else 'unparse'
    props = [x for x in a if x.startswith('C')] or [f'C{i:02d}' for i in range(1, 19)]
    d = tp.scratch_copy()
    try:
        rewrite(d, mode)
        if '--keep' in a:
            print('scratch copy kept at', d)
        res = tp.run_checks(d, props)
        bad = 0
        for p, (rc, out) in res.items():
            lines = [l[:220] for l in out.splitlines() if l.startswith(('VIOLATION', 'ANALYSIS-ERROR', '---'))]
            if rc != 0:
                bad += 1
            print(p, 'exit', rc, lines[:4])
        return 1 if bad else 0
    finally:
        if '--keep' not in a:
            shutil.rmtree(d, ignore_errors=True)


if __name__ == '__main__':
    sys.exit(main())
