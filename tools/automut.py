#!/usr/bin/env python3
"""Systematic gap finder (self-test of the checks, not a check): generate first-order mutants of the package from its AST (statement deletion,
negated conditions, comparison boundaries, flipped boolean keyword arguments, dropped jumps/raises), run the checks on a scratch copy of each,
and for the mutants no check reports run the repository's own test suite (stop at first failure).  What survives both is listed for manual
triage: either an equivalent / property-irrelevant change, or a gap in the rules.

usage: automut.py gen                      -> writes /tmp/automut/mutants.json
       automut.py checks [-j N] [--ops a,b] [--files c,u,...] [--limit K]
       automut.py suite  [-j N]            (only for mutants that no check reported)
       automut.py report
State lives under /tmp/automut (scratch, outside /repo and /verif); nothing registered in MANIFEST depends on it."""
import ast, concurrent.futures as cf, json, os, shutil, subprocess, sys, tempfile, time
V = os.path.dirname(os.path.dirname(os.path.abspath(__file__)))
sys.path.insert(0, os.path.join(V, 'tools'))
import try_patch as tp
OUT = '/tmp/automut'
FILES = {'c': 'disk_objectstore/container.py', 'u': 'disk_objectstore/utils.py', 'd': 'disk_objectstore/database.py', 'b': 'disk_objectstore/backup_utils.py'}
# checks that between them evaluate every rule module (hosting): C02 hosts C01,C03,C07,C09,C10,C11,C14,C16; C04 hosts C08; C05 hosts C13
COVER = ['C02', 'C04', 'C05', 'C06', 'C12', 'C15', 'C17', 'C18']
SKIP_CALL_PREFIX = ('callback', 'LOGGER', 'logger', 'warnings', 'click.', 'print', 'self._callback', 'pbar', 'progress')
CMP = {ast.Lt: '<=', ast.LtE: '<', ast.Gt: '>=', ast.GtE: '>', ast.Eq: '!=', ast.NotEq: '==', ast.In: 'not in', ast.NotIn: 'in', ast.Is: 'is not', ast.IsNot: 'is'}
CMP_TXT = {ast.Lt: '<', ast.LtE: '<=', ast.Gt: '>', ast.GtE: '>=', ast.Eq: '==', ast.NotEq: '!=', ast.In: 'in', ast.NotIn: 'not in', ast.Is: 'is', ast.IsNot: 'is not'}


def offsets(src):
    lines = src.split('\n')
    starts, pos = [], 0
    for l in lines:
        starts.append(pos)
        pos += len(l) + 1
    def at(lineno, col):
        # col is a utf8 byte offset
        line = lines[lineno - 1]
        return starts[lineno - 1] + len(line.encode('utf8')[:col].decode('utf8'))
    return at


def gen():
    muts = []
    for fk, rel in FILES.items():
        src = open(os.path.join('/repo', rel), encoding='utf8').read()
        tree = ast.parse(src)
        at = offsets(src)
        for n in ast.walk(tree):
            for ch in ast.iter_child_nodes(n):
                ch._parent = n

        def fn_of(node):
            names = []
            p = node
            while p is not None:
                if isinstance(p, (ast.FunctionDef, ast.AsyncFunctionDef, ast.ClassDef)):
                    names.append(p.name)
                p = getattr(p, '_parent', None)
            return '.'.join(reversed(names))

        def span(node):
            return at(node.lineno, node.col_offset), at(node.end_lineno, node.end_col_offset)

        def add(op, node, s, e, repl):
            f = fn_of(node)
            if not f or f.split('.')[-1] in ('__repr__', '__str__'):
                return
            muts.append({'file': fk, 'op': op, 'fn': f, 'line': node.lineno, 'start': s, 'end': e, 'repl': repl, 'orig': src[s:e][:120]})

        for node in ast.walk(tree):
            if isinstance(node, ast.Expr) and isinstance(node.value, ast.Call):
                txt = ast.unparse(node.value.func)
                if txt.startswith(SKIP_CALL_PREFIX):
                    continue
                s, e = span(node)
                add('del-call', node, s, e, 'pass')
            elif isinstance(node, ast.AugAssign) or (isinstance(node, ast.Assign) and len(node.targets) == 1 and isinstance(node.targets[0], (ast.Attribute, ast.Subscript))):
                s, e = span(node)
                add('del-assign', node, s, e, 'pass')
            elif isinstance(node, ast.Raise) and not isinstance(getattr(node, '_parent', None), ast.ExceptHandler):
                s, e = span(node)
                add('del-raise', node, s, e, 'pass')
            elif isinstance(node, (ast.Continue, ast.Break)):
                s, e = span(node)
                add('del-jump', node, s, e, 'pass')
            if isinstance(node, (ast.If, ast.While)) and not (isinstance(node.test, ast.Constant)):
                s, e = span(node.test)
                add('neg-cond', node, s, e, 'not (' + src[s:e] + ')')
            if isinstance(node, ast.Compare) and len(node.ops) == 1 and type(node.ops[0]) in CMP:
                ls, le = span(node.left)
                rs, re_ = span(node.comparators[0])
                mid = src[le:rs]
                optxt = CMP_TXT[type(node.ops[0])]
                if mid.count(optxt) >= 1 and '#' not in mid:
                    i = mid.find(optxt)
                    # make sure we match the whole operator token (e.g. '<' inside '<=')
                    new_mid = mid[:i] + CMP[type(node.ops[0])] + mid[i + len(optxt):]
                    add('cmp', node, le, rs, new_mid)
            if isinstance(node, ast.keyword) and isinstance(node.value, ast.Constant) and isinstance(node.value.value, bool) and node.arg:
                s, e = span(node.value)
                add('kwflip', node.value, s, e, str(not node.value.value))
            if isinstance(node, ast.BoolOp) and len(node.values) == 2:
                # drop one conjunct / disjunct
                for keep in (0, 1):
                    s, e = span(node)
                    ks, ke = span(node.values[keep])
                    add('drop-operand', node, s, e, src[ks:ke])
    # validate: each must compile
    ok = []
    srcs = {fk: open(os.path.join('/repo', rel), encoding='utf8').read() for fk, rel in FILES.items()}
    for i, m in enumerate(muts):
        s = srcs[m['file']]
        new = s[:m['start']] + m['repl'] + s[m['end']:]
        try:
            compile(new, FILES[m['file']], 'exec')
        except SyntaxError:
            continue
        m['id'] = f"{m['file']}{m['line']}-{m['op']}-{len(ok)}"
        ok.append(m)
    os.makedirs(OUT, exist_ok=True)
    json.dump(ok, open(os.path.join(OUT, 'mutants.json'), 'w'), indent=0)
    from collections import Counter
    print(len(ok), 'mutants', Counter(m['op'] for m in ok), Counter(m['file'] for m in ok))


def apply(m, d):
    p = os.path.join(d, FILES[m['file']])
    s = open(p, encoding='utf8').read()
    open(p, 'w', encoding='utf8').write(s[:m['start']] + m['repl'] + s[m['end']:])


def check_one(m):
    d = tp.scratch_copy()
    try:
        apply(m, d)
        env = dict(os.environ, DOSA_REPO=d, PYTHONDONTWRITEBYTECODE='1', DOSA_NO_EVIDENCE='1')
        r = subprocess.run([os.path.join(V, 'check'), 'multi'], capture_output=True, text=True, env=env)
        hits = {}
        out = r.stdout + r.stderr
        rcs = {l.split()[1]: int(l.split('rc=')[1]) for l in out.splitlines() if l.startswith('[multi] ')}
        for pp, rc in rcs.items():
            if rc != 0:
                rules = sorted({l.split(' rule ')[1].split(' ')[0] for l in out.splitlines() if l.startswith(f'--- {pp} rule ')})
                hits[pp] = [rc, rules[:6] or [l[:160] for l in out.splitlines() if l.startswith(f'ANALYSIS-ERROR: {pp}')][:1]]
        if not rcs:
            hits['?'] = [2, [out[-300:]]]
        return m['id'], hits
    finally:
        shutil.rmtree(d, ignore_errors=True)


_DESELECT = None


def deselect_args():
    """node ids of the tests that fail on the unchanged tree in this sandbox (collected - baseline stable_pass): with -x they would stop every run"""
    global _DESELECT
    if _DESELECT is None:
        base = json.load(open('/root/.vp/BASELINE.json'))
        stable = set(base['stable_pass'])
        r = subprocess.run(['/venv/bin/python', '-m', 'pytest', '--collect-only', '-q', '-p', 'no:cacheprovider'], cwd='/repo', capture_output=True, text=True,
                           env=dict(os.environ, PYTHONDONTWRITEBYTECODE='1'))
        ids = [l.strip() for l in r.stdout.splitlines() if '::' in l]
        out = []
        for i in ids:
            path, _, name = i.partition('::')
            key = path[:-3].replace('/', '.') + '::' + name
            if key not in stable:
                out += ['--deselect', i]
        _DESELECT = out
    return _DESELECT


def suite_one(m):
    d = tempfile.mkdtemp(prefix='automut_suite_')
    try:
        for sub in ('disk_objectstore', 'tests'):
            shutil.copytree(os.path.join('/repo', sub), os.path.join(d, sub), ignore=shutil.ignore_patterns('__pycache__'))
        for f in ('pyproject.toml', 'README.md'):
            if os.path.exists(os.path.join('/repo', f)):
                shutil.copy(os.path.join('/repo', f), d)
        apply(m, d)
        env = dict(os.environ, PYTHONPATH=d, PYTHONDONTWRITEBYTECODE='1')
        t = time.time()
        try:
            r = subprocess.run(['/venv/bin/python', '-m', 'pytest', '-q', '-x', '-p', 'no:cacheprovider', '--timeout=600', '-n', '3', '--no-header', '-q'] + deselect_args(),
                               cwd=d, env=env, capture_output=True, text=True, timeout=2400)
            tail = (r.stdout or '').strip().splitlines()[-3:]
            rc = r.returncode
        except subprocess.TimeoutExpired:
            rc, tail = 124, ['timeout']
        return m['id'], {'rc': rc, 'tail': tail, 'wall': round(time.time() - t)}
    finally:
        shutil.rmtree(d, ignore_errors=True)


def load(name, default):
    p = os.path.join(OUT, name)
    return json.load(open(p)) if os.path.exists(p) else default


def main():
    a = sys.argv[1:]
    j = int(a[a.index('-j') + 1]) if '-j' in a else 6
    if a[0] == 'gen':
        return gen()
    muts = load('mutants.json', [])
    if a[0] == 'checks':
        res = load('checks.json', {})
        ops = set(a[a.index('--ops') + 1].split(',')) if '--ops' in a else None
        files = set(a[a.index('--files') + 1].split(',')) if '--files' in a else None
        todo = [m for m in muts if m['id'] not in res and (ops is None or m['op'] in ops) and (files is None or m['file'] in files)]
        if '--limit' in a:
            todo = todo[:int(a[a.index('--limit') + 1])]
        print(len(todo), 'to check', flush=True)
        n = 0
        with cf.ThreadPoolExecutor(j) as ex:
            for mid, hits in ex.map(check_one, todo):
                res[mid] = hits
                n += 1
                if n % 10 == 0:
                    json.dump(res, open(os.path.join(OUT, 'checks.json'), 'w'))
                    print(n, 'done; undetected so far', sum(1 for v in res.values() if not v), flush=True)
        json.dump(res, open(os.path.join(OUT, 'checks.json'), 'w'))
    elif a[0] == 'suite':
        res = load('checks.json', {})
        sres = load('suite.json', {})
        skipw = ('callback', 'since_last_update', 'update_every', 'LOGGER', 'total', 'description', 'progress')   # progress reporting: not in any property
        todo = [m for m in muts if m['id'] in res and not res[m['id']] and m['id'] not in sres and not any(w in m['orig'] or w in m['repl'] for w in skipw)]
        # cheapest first: statement-level deletions and flag flips are the ones tests most often miss
        order = {'del-call': 0, 'del-assign': 1, 'kwflip': 2, 'del-jump': 3, 'del-raise': 4, 'drop-operand': 5, 'cmp': 6, 'neg-cond': 7}
        todo.sort(key=lambda m: order.get(m['op'], 9))
        print(len(todo), 'to run through the suite', flush=True)
        n = 0
        with cf.ThreadPoolExecutor(j) as ex:
            for mid, r in ex.map(suite_one, todo):
                sres[mid] = r
                n += 1
                json.dump(sres, open(os.path.join(OUT, 'suite.json'), 'w'))
                print(n, mid, r['rc'], r['wall'], flush=True)
    elif a[0] == 'report':
        res = load('checks.json', {})
        sres = load('suite.json', {})
        byid = {m['id']: m for m in muts}
        und = [i for i, v in res.items() if not v]
        print('checked', len(res), 'detected', len(res) - len(und), 'undetected', len(und), 'of which suite-run', sum(1 for i in und if i in sres),
              'suite-survivors', sum(1 for i in und if i in sres and sres[i]['rc'] == 0))
        for i in und:
            if i in sres and sres[i]['rc'] == 0 or '--all' in a:
                m = byid[i]
                print(f"{i:28s} {m['fn']:55s} {m['orig']!r} -> {m['repl'][:60]!r}")


if __name__ == '__main__':
    main()
