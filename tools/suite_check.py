#!/usr/bin/env python3
"""Run the repository's pinned test suite inside a worktree and compare with the 358 stable baseline tests.

usage: suite_check.py <worktree> [-n <workers>]
exit 0 iff every test listed in /root/.vp/BASELINE.json stable_pass passed in that worktree.
(Tool for confirming seeded changes -- never part of a registered check.)
"""
import json, os, subprocess, sys, tempfile
import xml.etree.ElementTree as ET


def main():
    wt = os.path.abspath(sys.argv[1])
    n = sys.argv[sys.argv.index('-n') + 1] if '-n' in sys.argv else '6'
    base = json.load(open('/root/.vp/BASELINE.json'))
    stable = set(base['stable_pass'])
    fd, xml = tempfile.mkstemp(suffix='.junit.xml')
    os.close(fd)
    try:
        env = dict(os.environ, PYTHONPATH=wt, PYTHONDONTWRITEBYTECODE='1')
        r = subprocess.run(['/venv/bin/python', '-m', 'pytest', '-q', '-p', 'no:cacheprovider', '--timeout=900', '--continue-on-collection-errors',
                            '-n', n, f'--junitxml={xml}'], cwd=wt, env=env, capture_output=True, text=True)
        passed = set()
        for tc in ET.parse(xml).getroot().iter('testcase'):
            if not any(ch.tag in ('failure', 'error', 'skipped') for ch in tc):
                passed.add(f"{tc.get('classname')}::{tc.get('name')}")
        missing = sorted(stable - passed)
        print(f'stable={len(stable)} passed_of_stable={len(stable & passed)} missing={len(missing)}')
        for m in missing[:20]:
            print('  NOT PASSED:', m)
        return 0 if not missing else 1
    finally:
        os.unlink(xml)


if __name__ == '__main__':
    sys.exit(main())
