#!/usr/bin/env python3
"""Ad-hoc mutant: apply one text replacement to a scratch copy and run checks.  usage: try_edit.py <c|u|b|d> '<old>' '<new>' [Cnn ...]"""
import os, shutil, sys
V = os.path.dirname(os.path.dirname(os.path.abspath(__file__)))
sys.path.insert(0, os.path.join(V, 'tools'))
import try_patch as tp
F = {'c': 'disk_objectstore/container.py', 'u': 'disk_objectstore/utils.py', 'b': 'disk_objectstore/backup_utils.py', 'd': 'disk_objectstore/database.py', 'l': 'disk_objectstore/cli.py'}
f, old, new = F[sys.argv[1]], sys.argv[2].encode().decode('unicode_escape'), sys.argv[3].encode().decode('unicode_escape')
props = sys.argv[4:] or [f'C{i:02d}' for i in range(1, 19)]
d = tp.scratch_copy()
try:
    p = os.path.join(d, f)
    s = open(p).read()
    if s.count(old) != 1:
        print('anchor occurs', s.count(old), 'times'); sys.exit(3)
    s2 = s.replace(old, new)
    compile(s2, f, 'exec')
    open(p, 'w').write(s2)
    res = tp.run_checks(d, props)
    hit = False
    for pp, (rc, out) in res.items():
        if rc != 0:
            hit = True
            print(pp, 'exit', rc, [l[:230] for l in out.splitlines() if l.startswith(('---', 'ANALYSIS-ERROR'))][:3])
    if not hit:
        print('NOT DETECTED by', ' '.join(props))
finally:
    shutil.rmtree(d, ignore_errors=True)
