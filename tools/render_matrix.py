#!/usr/bin/env python3
"""Render seeded/MATRIX.json as a markdown table into DESIGN.md between the MATRIX markers."""
import json, os
V = os.path.dirname(os.path.dirname(os.path.abspath(__file__)))
M = json.load(open(os.path.join(V, 'seeded', 'MATRIX.json')))
rows = ['| Seed | needs to manifest | caught by its own property\'s check (rules) | also reported by |', '|---|---|---|---|']
ncaught = 0
for sid in sorted(M):
    r = M[sid]
    mp = os.path.join(V, 'seeded', sid, 'meta.json')
    if not os.path.exists(mp) or 'error' in r:
        continue
    meta = json.load(open(mp))
    own = sid.split('-')[0]
    o = r.get(own, {})
    owntxt = ', '.join(o.get('rules', [])) if o.get('exit') == 1 else ('**no** (exit %s)' % o.get('exit'))
    ncaught += o.get('exit') == 1
    others = '; '.join(f"{p}: {', '.join(v['rules'])}" for p, v in sorted(r.items()) if p != own and v.get('exit') == 1)
    need = ' '.join((meta.get('needs_to_manifest') or '').split())
    need = need[:150] + ('…' if len(need) > 150 else '')
    rows.append(f'| {sid} | {need} | {owntxt} | {others or "—"} |')
n = len(rows) - 2
txt = f'{n} stored seeds, {ncaught} caught by the check of the property they were written against (quick tier, on a scratch copy with the patch applied).\n\n' + '\n'.join(rows)
p = os.path.join(V, 'DESIGN.md')
s = open(p).read()
a, b = s.index('<!-- MATRIX:BEGIN -->') + len('<!-- MATRIX:BEGIN -->'), s.index('<!-- MATRIX:END -->')
open(p, 'w').write(s[:a] + '\n' + txt + '\n' + s[b:])
print(n, 'seeds', ncaught, 'caught by own check')
