#!/usr/bin/env python3
"""Apply a behaviour-preserving patch to a scratch copy and run all rule modules (`./check multi`); print every module that is not silent. usage: benign_multi.py patch.diff"""
import os, shutil, subprocess, sys
V = os.path.dirname(os.path.dirname(os.path.abspath(__file__)))
sys.path.insert(0, os.path.join(V, 'tools'))
import try_patch as tp
d = tp.scratch_copy()
try:
    r = subprocess.run(['patch', '-p1', '-s', '-d', d, '-i', os.path.abspath(sys.argv[1])], capture_output=True, text=True)
    if r.returncode:
        print('patch failed', r.stdout[-300:], r.stderr[-300:]); sys.exit(3)
    env = dict(os.environ, DOSA_REPO=d, PYTHONDONTWRITEBYTECODE='1', DOSA_NO_EVIDENCE='1')
    out = subprocess.run([os.path.join(V, 'check'), 'multi'], capture_output=True, text=True, env=env).stdout
    bad = [l for l in out.splitlines() if l.startswith('[multi] ') and not l.endswith('rc=0')]
    if not bad:
        print('SILENT')
    for l in bad:
        p = l.split()[1]
        rules = sorted({x.split(' rule ')[1].split(' ')[0] for x in out.splitlines() if x.startswith(f'--- {p} rule ')})
        errs = [x[:260] for x in out.splitlines() if x.startswith(f'ANALYSIS-ERROR: {p}')]
        print(f'  {p} {l.split("rc=")[1]} {",".join(rules)} {" ".join(errs)}')
        if '-v' in sys.argv:
            on = False
            for x in out.splitlines():
                if x.startswith(f'--- {p} rule '):
                    on = True
                elif x.startswith('VIOLATION'):
                    on = False
                if on:
                    print('      ', x[:300])
finally:
    shutil.rmtree(d, ignore_errors=True)
