#!/usr/bin/env python3
"""Regenerate /verif/MANIFEST.json from the table below (one entry per property whose rule module exists)."""
import json, os
V = os.path.dirname(os.path.dirname(os.path.abspath(__file__)))
BASE = "cd /repo && /venv/bin/python -m pytest -ra -q -p no:cacheprovider --timeout=900 --continue-on-collection-errors"

CLAIMS = {
 'C02': dict(
    text=("Decides structural necessary conditions of 'every view equals a key->bytes map' on all paths: (R1) call graph: every public key view of Container reaches object files and the index only through the single read funnel, and its negative answers (NotExistent, False, None) are derived from the funnel's MISSING outcome (skip_if_missing constants, guards, forwarding); "
          "(R2) the funnel partitions the request by set provenance: found in index -> loose probe of (request - found) -> FileNotFoundError only routes a key to the retry set -> refreshed index query keyed by the retry set -> MISSING = retry set minus the rows yielded, plus the order typestate; "
          "(R3) list_all_objects yields the key column of every index row and every loose file not listed from the index, count_objects = COUNT(*) / number of listed loose files / packs, _list_loose filters only by the name-validity predicates; "
          "(R4) closed-world destruction table: every unlink/rename/replace/link/rmtree/DELETE/UPDATE/truncate site of the package has a tabled owner function and area (private helpers are attributed to their callers), with key provenance for delete_objects, _clean_loose_objects' callers and clean_storage, a typestate on clean_storage's duplicate handling (a duplicate is removed only next to a verified primary copy or after a verified duplicate replaced it), and loose files unlinked by pack_all_loose only for keys staged by that call; "
          "(R5) init_container writes the configuration/folders only after both refusal tests on every path (typestate over clear=True/False), rmtree only under clear, every cache attribute of __init__ reset and sessions closed; "
          "(R6) repack stages every row of the pack with id/hashkey/size taken from the columns of the same row, removes a pack file only after an existence query over its rows said none or after the re-pointing commit (also when entered after an interrupted repack); loosen_object goes through the public reader and the loose writer with a key comparison. "
          "Does NOT decide equality of the views with the model after every history (values, histories): necessary conditions only."),
    note="Closed-world tables: a new destructive site or a new public view fails the check until it is reviewed and tabled. Trusted: SQLite/POSIX semantics. Also evaluates, as hosted rule modules reported under C02+..., the checks of C01, C03, C07, C09, C10, C11, C14 and C16: every one of them is a necessary condition of the views equalling the model.",
    technique="call-graph reachability + set-provenance/def-use checks on the read funnel + kind-resolved closed-world effect table + typestate on init_container", ref="5/C02"),
 'C03': dict(
    text=("Decides the structural clauses of index/pack agreement on every path, iteration and flag specialisation of the three pack writers (pack_all_loose, direct-to-pack, repack): "
          "(R1) the offset stored for an object is the append handle's tell() taken before the object's first write with no write/seek in between, the length is tell() - that offset taken after the last write (compressor flush included), the row is staged with both, the key comes from the writer that hashed the bytes, and pack_id is the id the handle was locked for; "
          "(R2) tell() of the append handle is the true end of file (no tell/write between a seek and its truncate); (R3) uniqueness: hashkey column unique, every INSERT is OR IGNORE or dominated by the already-indexed filter, repack updates by primary key; "
          "(R4) the manual-recovery script in docs/pages/design.md agrees with the code (table/column names, index file name, pack folder, boolean encoding, raw zlib streams); (R5) repack: committed rows always designate an existing, flushed pack file (or the temporary pack). "
          "Does NOT decide range arithmetic as values (non-overlap, within-file for all histories); recoverability only as schema/script agreement."),
    note="Trusted: O_APPEND writes at end of file; SQLite unique index; the documented script is parsed as text blocks of the design page. Also hosts the rule modules of C09 (no key indexed twice), C13 (ranges never move or shrink) and C10 (the compressed flag of a row is the form of the bytes it designates).",
    technique="per-iteration typestate on inlined CFGs (offset/length pairing, append-handle) + schema/SQL/doc term agreement", ref="5/C03"),
 'C05': dict(
    text=("Decides, from the source, the ordering clauses of crash safety on every path, loop iteration and flag specialisation: "
          "(R1) a loose object is written in the sandbox, flushed and closed, then published by one atomic rename/replace, and nothing opens a file under loose/ for writing; "
          "(R2) in every pack-writing entry point an index row is committed only after its pack bytes were flushed/closed, a loose file is unlinked only after its row is committed and only for keys staged by this call (a collection feeding unlinks may only be filled next to a staging site), every staged row is inserted and committed; "
          "(R3) clean_storage decides unlinks on a query run after a session refresh; (R4) repack state machine: the file the committed index designates is always present and flushed (or the index points to the temporary pack); "
          "(R5) delete: files first, then rows, one commit after the loop; (R6) transaction premises in database.get_session: explicit BEGIN with pysqlite's implicit transactions off, no autocommit/autoflush, no PRAGMA other than journal_mode=wal; (R7) do_commit forwarded unchanged by every wrapper. Does NOT decide what the real kernel/SQLite leave on disk after a kill, nor byte-level completeness: only the order of effects (a necessary condition)."),
    note="Trusted: POSIX rename/replace/link atomicity, SQLite atomic commit, O_APPEND; single packer; generators treated as eagerly consumed; Python dynamism not modelled. Also hosts the rule module of C13 (a pack selector that appends after a torn tail or past a stale cached size breaks crash safety).",
    technique="static typestate analysis on inlined CFGs (generic-object construction, flag specialisation)", ref="5/C05"),
 'C06': dict(
    text=("Decides the durability-ordering clauses for do_fsync=True on every path: (R0) safe_flush_to_disk flushes then fsyncs the handle's own descriptor for every binding of use_fullsync and the platform constants; "
          "(R1) every do_fsync parameter defaults to True and is forwarded unchanged; (R2) the sandbox file is flushed+fsynced+closed before the rename/replace; (R3) an index row is committed only after flush+fsync of the pack file, loose files unlinked only after that commit; "
          "(R4) repack: temporary pack fsynced before the first commit, old pack removed only after it; (R5) transaction premises (commits explicit, atomic and durable: explicit BEGIN, no autocommit, only PRAGMA journal_mode=wal). Does NOT decide what storage really persists (fault model as stated by the property; no directory-fsync obligation)."),
    note="Platform constants folded for the platform running the check (Linux); SQLite commit durability trusted. Also hosts the rule module of C13 (what is durable must stay where it is: append-only, in-order packs).",
    technique="static typestate analysis with durability facts + must-pass-through on the callee (alias-resolved fsync lambda)", ref="5/C06"),
 'C04': dict(
    text=("Decides the code-side premises of the reader/writer/packer protocol (the short safety argument from the premises is in DESIGN.md 5/C04): "
          "writer publishes only complete, closed sandbox files by one atomic rename/replace, tolerates a vanishing destination, and nobody removes directories below loose/; "
          "packer makes pack bytes visible (flush/close) before committing the row and unlinks a loose file only after the commit; clean_storage decides on a snapshot begun after a session refresh; "
          "reader catches FileNotFoundError of the loose probe, routes the key to the retry set, refreshes its session and re-queries (IN and sorted-scan strategies) before answering MISSING, in both stream modes, and takes the loose size from the open descriptor; "
          "LazyLooseStream retries through loosen_object; transaction premises (rows become visible to other connections only at COMMIT, WAL snapshots). Each premise is a necessary condition; the interleaving semantics themselves are NOT decided."),
    note="Trusted: POSIX unlink-while-open, rename atomicity, SQLite WAL snapshot isolation (a new session sees all earlier commits); one packer. Also hosts the rule modules of C08 (freshness for long-open reader handles, which are in C04's quantifier) and C07 (the stream a reader gets through the fallback pass behaves like the one of the first pass).",
    technique="static typestate analysis on ICFGs with exception edges + handler-routing/provenance checks on the read funnel", ref="5/C04"),
 'C17': dict(
    text=("Decides, on control-flow graphs with exception edges (any call may raise): (R2) no except clause of the package that catches a generic I/O or database error around a mutating effect continues normally (table of allowed narrow idioms); (R2p) closed table of the sites that swallow PermissionError or a whole OSError; "
          "(R3) the C05 commit/unlink/publish/repack guards also hold along handler, finally and with-exit paths, no index row is staged or tracked for an object whose processing was interrupted by a swallowed exception, and offset/length of every staged row are taken from the handle after any interrupted write (range machine on the exception graph); "
          "(R4) HashWriterWrapper.write checks the stream position before writing and updates hash/position only after it. Does NOT decide the behaviour of real calls under injected faults nor that a rerun succeeds."),
    note="Fault model: one call raises OSError/OperationalError; PermissionError (Windows locking) handlers only checked by R3; stale lock files / sandbox litter tolerated by the property. Also hosts the rule modules of C13 (after a failed append the next append must start at the real end of the pack) and C05 (what a failed operation left pending must never be taken for committed by the next one).",
    technique="static typestate analysis on exception-edge CFGs + error-discipline table over all except clauses", ref="5/C17"),
 'C09': dict(
    text=("Decides the structural clauses of deduplication: (R1) ObjectWriter: the loose destination is a function of the key only; on every return path an existing copy was verified (checksum equal / vanished) or replaced, an absent destination was published; "
          "(R2) pack_all_loose removes already-indexed keys (both lookup strategies) before any pack write; (R3) append-handle typestate for every flag combination: after seek() on an 'ab' pack handle no tell()/write() before truncate(); "
          "(R4) direct-to-pack loop: exactly one returned key per stream, known content never staged, new keys staged and remembered, and the known-keys set is accumulated over all index pages; (R5) unique hashkey column, INSERT OR IGNORE, final truncate inside the lock; "
          "(R6) import with different hash algorithms runs every add call with no_holes and read-twice; (R7) no_holes / no_holes_read_twice forwarded unchanged by every wrapper; (R1b) the checksum that decides whether an existing loose copy is intact is recomputed from the file on every call (verifier found by def-use; no caching decorator on its call chain). Does NOT decide object counts as values over histories."),
    note="Trusted: O_APPEND semantics, SQLite unique index. Also hosts the rule module of C16 (whether content is already indexed is decided by the bulk lookup strategies).",
    technique="static typestate (append handle, decision tree, per-iteration bookkeeping) + dominance + constant propagation", ref="5/C09"),
 'C13': dict(
    text=("Decides: (R1) closed-world ownership: pack files are opened for writing only by lock_pack in mode 'ab' and written only through that handle; (R4) only repack_pack unlinks/links pack files; "
          "(R2) in both write loops the target pack is re-selected before every object, with a known size that is a tell() not invalidated by a later write/seek/truncate, compared with the locked id (different => re-lock), and the locked id comes from the selector; "
          "(R2s) the selector starts at the cached id or 0, advances by exactly 1, stops at the first missing or strictly-below-target pack, compares the caller's known size when given (else stat) and caches exactly the returned id; (R1x) the lock file is created exclusively (mode 'x') around the append handle; (R3) seek only to a tell() of the same iteration, truncate() without size. "
          "Does NOT decide byte-for-byte immutability over histories as values."),
    note="Trusted: O_APPEND never overwrites; exclusive lock file = one packer. Also hosts the rule module of C03 (rows must never designate bytes beyond the end of a pack).",
    technique="kind-resolved ownership scan + per-iteration typestate on ICFGs + structural checks of the selector", ref="5/C13"),
 'C07': dict(
    text=("Decides API-contract shape clauses of the stream classes: (R1) in PackedObjectReader.seek, for each whence value, lower and upper bounds are checked on the variable that determines the new handle position after its last assignment and before the handle moves; "
          "(R2) the value returned is that normalised absolute target (whence=1 via tell(), whence=2 via the length) / the decompresser returns its position; (R3) every read of the pack handle is bounded by length-position and the position is refreshed after every move; "
          "(R4) invalid whence rejected first; (R5) decompresser: negative target rejected before any state change, forward loop stops on empty read, proxy switch one-way, after open_stream()+seek(pos), tested first by read/tell/seek; (R6) rewind resets every state attribute __init__ initialises; (R7) PackedObjectReader converts between object and pack-file coordinates only as handle.tell() - offset and offset + target, read-all branch selected exactly by size None/negative; (R8) decompresser: position advanced by exactly the returned head of the buffer (buffer cut at one index), every inflated byte goes through the buffer, forward seek reads at most up to the target, a backward target rewinds first; (R9) every decompresser the read funnel constructs is given the lazy loose stream (sibling passes agree). "
          "Does NOT decide equality with io.BytesIO for all programs/contents (values)."),
    note="The loose stream is a regular Python file object (trusted).",
    technique="per-whence typestate on the method CFG + def-use / sibling-agreement checks over the stream classes", ref="5/C07"),
 'C08': dict(
    text=("Decides freshness clauses with a typestate on the cached operation session (possibly pinned at entry / none / fresh): (R1) the read funnel answers MISSING only after loose probe -> session refresh -> query on the new session, both stream modes; "
          "(R2) list_all_objects scans the index on a session created since entry whose first statement follows the loose listing; (R3) every public pure view of Container with its own index query is either analysed the same way or is a tabled statistic (count_objects, get_total_size, validate); "
          "(R4) clean_storage decides on a reloaded session and pack_all_loose unlinks loose files only for keys it staged and committed itself; no memoised reader of files/index behind the public API; every public key view answers through the funnel. Does NOT decide histories as such."),
    note="Trusted: SQLite WAL snapshot starts at the session's first statement; a new session sees all earlier commits; sequential histories.",
    technique="session-freshness typestate on ICFGs (with emptiness facts for the retry set)", ref="5/C08"),
 'C14': dict(
    text=("Decides structural clauses of import_objects: (R1) every Iterable-annotated parameter of the package is consumed at most once per path before being materialised (linear typestate; covers one-shot generators); "
          "(R2) compress/do_fsync forwarded unchanged and do_commit=False at the three add call sites, exactly one commit that every normal path passes, after the last add; "
          "(R3) same hash algorithm: only Location.LEFTONLY keys of the sorted merge are transferred; different algorithms: constant propagation shows no_holes=True and no_holes_read_twice=True at every add call; "
          "(R4) the old/new key lists of the returned mapping grow in lockstep (paired append / extension from one zip(*cache.items()) whose contents are what is added), the cache is reset with every in-loop flush and flushed after the loop; (R5) direction: objects are read from the source container parameter, existence listing / writes / commit happen on self, and the fast path is chosen by comparing the two containers' hash types. "
          "Does NOT decide byte identity of transferred objects."),
    note="Assumes add_objects_to_pack returns keys in input order (C01/C09 rules) and dict insertion order. Also hosts the rule module of C01 (the direct-to-pack write path must round-trip). Also hosts the rule module of C17 (an I/O error swallowed while reading a source object silently drops it from the import). Also hosts the rule module of C09 (the no_holes de-duplication import relies on).",
    technique="linear typestate + constant propagation on ICFGs + def-use matching", ref="5/C14"),
 'C15': dict(
    text=("Decides structural clauses of backup_container: (R1) copy steps classified by the kind of their source path run in the order loose -> index dump -> copy of the dump -> packs -> rest on every path; "
          "(R2) the copied index is the temporary dump written by sqlite3.Connection.backup, never the live file; (R3) the constant exclude patterns of the final copy, evaluated with rsync name matching, cover loose/, packs/, the index and the -wal/-shm side files implied by journal_mode=wal; "
          "(R4) rsync exit status raises, no handler in the backup path swallows errors, the live-backup folder is renamed only after the backup function returned; (R2b) the dump is transferred under the index' own file name and no live-index metadata is copied onto it; (R5) closed table of rsync options: every constant option of call_rsync and every per-call extra argument is reviewed (only --exclude per call). Does NOT decide the schedules (placements of concurrent steps)."),
    note="Relies on C13/C05 (append-only packs, commit after write) as the property's own anchor says; only simple exclude patterns are evaluated. Also hosts the rule module of C13 (append-only, in-order packs: the property's own stated premise).",
    technique="ordering typestate over kind-classified copy steps + constant pattern evaluation + error-propagation checks", ref="5/C15"),
 'C18': dict(
    text=("Decides resource-shape clauses: (R1) every descriptor-producing call of the package (open, os.open, sqlite3.connect, tempfile) is with-managed, closed on all normal paths of its function, handed over, or stored in an attribute whose owner class closes it; Container.close closes and disposes both sessions, which are plain per-handle attributes (no property / thread-local indirection), and __exit__/__del__ call it; "
          "(R2) the bulk-read generator never has two files open and closes on every exit incl. exceptions; the lazy loose stream is closed after each yield; (R3) no descriptor-returning call is discarded, incl. fcntl commands folding to F_DUPFD under Linux and macOS platform models; "
          "(R4) lazily opened streams are used only inside their with block; (R5) every read in a streaming loop has a constant bound, whole-object reads in import are guarded by the memory budget; (R6) open_streams forwarded unchanged by every wrapper. Does NOT decide measured memory or the run-time descriptor census."),
    note="Garbage collection is not relied upon; platform models Linux + macOS. Also hosts the rule module of C07 (bounded memory while reading compressed objects rests on the decompresser's buffer discipline and bounded seek reads).",
    technique="leak / one-open-file typestate on CFGs with exception edges + platform-aware constant folding + bounded-read table", ref="5/C18"),
 'C01': dict(
    text=("Decides structural clauses of the round trip on every write/read path: (R1) every chunked copy/hash loop ends only on the empty chunk, each chunk reaches the sink exactly once and the hasher exactly once on every path through the body (uncompressed bytes hashed), the compressor is flushed after the loop; "
          "(R2) returned key = hexdigest of the hasher that saw the written bytes, returned size = accumulated chunk lengths, the loose key is the writing wrapper's digest, one returned key per stream in the direct path, and the key staged for a packed object is the digest returned by the call that appended its bytes with the configured hash type (not a separate pre-pass); "
          "(R3) configuration parametricity: every hash/compression argument is traced through parameters and constructor bindings at all call sites to the container configuration, literals are flagged (tabled exemptions: init defaults, AUTO sampling compressor); "
          "(R4) writer/reader agreement: loose path terms of writer, reader and listing; decompresser wraps the packed reader iff the row's compressed flag at every construction site; staged row keys = table columns; positional column order of every namedtuple construction and left_key; metadata field mapping; (R5) decompresser rewind resets all state. "
          "Does NOT decide value-level hashing/zlib/slicing arithmetic."),
    note="hashlib/zlib/slicing trusted value-correct; read(n) returns b'' only at EOF. Also evaluates, as hosted rule modules reported under C01+..., the checks of C03 (index/pack agreement), C07 (stream classes) and C10 (compression), which are necessary conditions of the round trip.",
    technique="path enumeration over loop bodies + interprocedural provenance + sibling term comparison (AST/def-use)", ref="5/C01"),
 'C10': dict(
    text=("Decides: (R1) should_compress has a branch for every CompressMode member with the constant answer the mode demands (NO->False, YES->True, KEEP->source flag), raises otherwise, and bool maps to YES/NO; "
          "(R2) the compressed flag stored in the index row is the very value that selects the writer's compressing branch (pack_all_loose, direct path, _write_data_to_packfile guards), and in repack it is decided for every object from that object's own stored form on every path, with a complete transfer branch table, and every path that stages a row ran exactly one transfer loop in the form its tests select (raw copy iff flags equal / destination uncompressed; deflate + flush iff destination compressed); "
          "(R3) estimate_compression restores the stream position on every path (typestate) and should_compress touches the stream nowhere else; (R4) size = bytes read by the writer / copied from the row, length = tell() difference around exactly this object's writes on every path incl. exception paths (range machine shared with C03.R1), totals map SUM(size)/SUM(length) to the right labels; (R5) decompresser rewind resets all state; (R6) compress forwarded unchanged by every wrapper; the read side: the decompresser wraps the reader iff the truthiness of the row's flag (never an identity test). "
          "Does NOT decide that inflate(deflate(x)) == x nor the AUTO heuristic's numeric choice."),
    note="zlib trusted. Also hosts the rule modules of C03 (index/pack agreement at every step of the writers and of the repack hand-over) and C07 (transparency includes the stream over a compressed object: the decompresser's seek/read rules).",
    technique="enum/branch table check + def-use agreement + position-restore typestate", ref="5/C10"),
 'C11': dict(
    text=("Decides: (R1) every unlink and the DELETE of delete_objects are keyed by elements of the request parameter (duplicates by the exact prefix '<key>.'), the chunk loop feeds every chunk (<= 999) to both SELECT and DELETE and has no early exit; "
          "(R2) a cursor typestate shows the selected rows are consumed before a modifying statement runs on the same connection, and the returned keys are exactly (loose files actually removed) U (rows selected); "
          "(R3) repack iterates exactly the rows of the pack in offset order, reads each object through a reader bounded by its own row, into a temporary pack whose absence is asserted before it is opened for appending; (R4) packs without rows are unlinked -- and only those: the pack's own file is removed only after an existence query over its rows said none, or after the commit that re-pointed them -- and repack() visits every pack. "
          "Does NOT decide byte equality of the rewritten packs."),
    note="sqlite3 cursors are lazy against later modifications on the same connection. Also hosts the rule module of C03 (a repack that records wrong ranges makes the other objects unreadable).",
    technique="interprocedural provenance + cursor / freshness typestate + SQL statement terms", ref="5/C11"),
 'C12': dict(
    text=("Decides completeness of the validator (necessary for 'never clean on a damaged one') and the pack set it opens (necessary for 'clean on reachable states'): (R1) the loop visits the whole loose listing (no removal, filter or skip), every loose key is opened, rehashed with the configured type, a mismatch unconditionally recorded; "
          "(R2) the packs visited are exactly SELECT DISTINCT pack_id of the index; per row (all rows of the pack: WHERE exactly the pack id, ORDER BY offset, no LIMIT/paging, also through local generator helpers; variables identified by column position) digest, size and strict overlap comparisons each record the key on the failing branch; "
          "(R4) the pack writers insert the staged rows in writing order (no sort/reverse), which the ORDER BY offset tie-break of the overlap test relies on; (R3) result keys = ValidationIssues fields, per-pack results accumulated with += for every pack, is_valid and the CLI exit status reflect every field. Does NOT decide absence of false positives on all reachable states nor detection of every bit flip (value-level)."),
    note="Hash collisions excluded; reader classes covered by C07.",
    technique="def-use / statement-shape checks + SQL statement terms", ref="5/C12"),
 'C16': dict(
    text=("Decides: (R1) sibling agreement of the four two-strategy lookups: each is normalised to a term (set, threshold, chunk source/size <= 999, IN column, ORDER BY hashkey scan, sorted right side, left_key column = hashkey, keep BOTH only, same selected columns, same accumulator/item) and all fields must agree; "
          "(R2) the funnel de-duplicates the request once, probes loose only for keys not found in the index, skip_if_missing guards only MISSING yields, has_objects answers element-wise over the original list; "
          "(R3) every paging loop (discovered by def-use: a SELECT whose WHERE mentions a local the loop updates): id > last (strict) as the only filter, ORDER BY id, LIMIT, last = id of the last row, start -1, stop on empty page, all rows consumed; (R4) detect_where_sorted guards (new <= last -> ValueError on both sides, left_key applied), chunk_iterator / merge_sorted shapes, IN batch <= 999; (R5) the merge control logic of detect_where_sorted by abstract interpretation of its source over a finite domain (boolean locals; order of the two current elements <,=,>; next() = element | StopIteration), to a fixed point from the function entry: in every reachable abstract state one iteration yields exactly one element with the Location the order demands (never a stale element of an exhausted side), advances exactly the yielded side(s), and the loop ends only with both sides exhausted and nothing pending -- the inductive step of a min-first merge. "
          "Does NOT decide SQLite's ORDER BY collation agreeing with Python's string order, nor the behaviour on unsorted input beyond the guards."),
    note="SQLITE_MAX_VARIABLE_NUMBER >= 999; SQLite and Python order hex keys identically. Also hosts the rule module of C14 (importing is one of the bulk operations of the property).",
    technique="sibling-term extraction and comparison over AST/SQL terms + finite-domain abstract interpretation of the merge helper", ref="5/C16"),
}

PENDING_REASON = "check not built yet in this session (work in progress; DESIGN.md section 5 describes the planned static rules)"


def main():
    props = [json.loads(l)['id'] for l in open(os.path.join(V, 'properties.jsonl'))]
    checks, na = [], []
    for p in props:
        have = os.path.exists(os.path.join(V, 'dosa', 'rules', p.lower() + '.py')) and p in CLAIMS
        if not have:
            na.append({'property_id': p, 'reason': NA.get(p, PENDING_REASON)})
            continue
        c = CLAIMS[p]
        checks.append({
            'property_id': p,
            'quick_cmd': f'./check {p} --tier quick',
            'thorough_cmd': f'./check {p} --tier thorough',
            'evidence_file': f'/verif/evidence/{p}.json',
            'replay_cmd_template': './check explain {path}',
            'engine': 'dosa',
            'level_claimed': {'category': 'other', 'text': c['text'] + ' Rules added after the later seeding rounds (the complete, generated inventory with one line per rule is in DESIGN.md 9.4; what each was added for is in 9.3) are necessary conditions of the same kind: each decides a structural clause, none the behaviour.', 'design_ref': 'DESIGN.md section ' + c['ref']},
            'level_note': c['note'],
            'technique': c['technique'],
        })
    m = {
        'version': 1,
        'setup_cmd': './check --selfcheck',
        'hooks': {'guard': 'DISK_OBJECTSTORE_VERIF', 'enable': 'none: static analysis parses /repo, no instrumentation and no hook commits',
                  'baseline_off_cmd': BASE, 'source_commits': [], 'add_only': True},
        'engines': [{'name': 'dosa', 'path': '/verif/dosa', 'serves_properties': [c['property_id'] for c in checks],
                     'kind_free_text': 'pure-stdlib Python static analyser over ast: name/call resolution, kind inference, inlined CFGs with exception edges, typestate solver with witness paths, provenance, platform-aware constant folding'}],
        'checks': checks,
        'notes': 'Static analysis only: no check imports or executes disk_objectstore. Exit 2 + "ANALYSIS-ERROR" = cannot decide (never a VIOLATION). Genuine defects found and repaired are recorded in known_findings.json.',
        'not_applicable': na,
    }
    json.dump(m, open(os.path.join(V, 'MANIFEST.json'), 'w'), indent=1)
    print('claimed', [c['property_id'] for c in checks], 'not_applicable', [n['property_id'] for n in na])

NA = {}

if __name__ == '__main__':
    main()
