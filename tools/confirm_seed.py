#!/usr/bin/env python3
"""Confirm a seeded change produced by a sub-agent and, if confirmed, store it under /verif/seeded/<id>/.

usage: confirm_seed.py <property> <variant dir, e.g. /tmp/seedout/C05/A> [--name C05-A]
Steps (in a fresh scratch git worktree of /repo HEAD under /tmp, removed afterwards):
  1. patch applies;  2. package imports;  3. demo exits != 0 with the patch;  4. the 358 stable baseline tests still pass;
  5. demo exits 0 without the patch.
"""
import json, os, shutil, subprocess, sys, tempfile, time

VERIF = os.path.dirname(os.path.dirname(os.path.abspath(__file__)))
PY = '/venv/bin/python'


def sh(cmd, **kw):
    return subprocess.run(cmd, capture_output=True, text=True, **kw)


def main():
    prop, vdir = sys.argv[1], sys.argv[2].rstrip('/')
    name = sys.argv[sys.argv.index('--name') + 1] if '--name' in sys.argv else f'{prop}-{os.path.basename(vdir)}'
    patch = os.path.join(vdir, 'patch.diff')
    demo = os.path.join(vdir, 'demo.py')
    meta = json.load(open(os.path.join(vdir, 'meta.json')))
    wt = tempfile.mkdtemp(prefix='confirm_')
    os.rmdir(wt)
    log = {'name': name}
    try:
        r = sh(['git', '-C', '/repo', 'worktree', 'add', '--detach', wt, 'HEAD'])
        assert r.returncode == 0, r.stderr
        env = dict(os.environ, PYTHONPATH=wt)
        r = sh(['git', '-C', wt, 'apply', '--check', patch])
        log['applies'] = r.returncode == 0
        if not log['applies']:
            print(json.dumps(log), r.stderr); return 1
        # demo on clean tree
        t = time.time(); r0 = sh([PY, demo], cwd=wt, env=env, timeout=600)
        log['demo_clean_exit'] = r0.returncode; log['demo_clean_s'] = round(time.time() - t, 1)
        sh(['git', '-C', wt, 'apply', patch])
        touched = sh(['git', '-C', wt, 'diff', '--name-only']).stdout.split()
        log['files_touched'] = touched
        r = sh([PY, '-c', 'import disk_objectstore, disk_objectstore.container, disk_objectstore.utils, disk_objectstore.backup_utils, disk_objectstore.cli; print(disk_objectstore.__file__)'], cwd=wt, env=env)
        log['imports'] = r.returncode == 0 and wt in r.stdout
        t = time.time(); r1 = sh([PY, demo], cwd=wt, env=env, timeout=600)
        log['demo_patched_exit'] = r1.returncode; log['demo_patched_s'] = round(time.time() - t, 1)
        log['demo_patched_tail'] = (r1.stdout + r1.stderr)[-600:]
        r = sh([PY, os.path.join(VERIF, 'tools', 'suite_check.py'), wt, '-n', '6'])
        log['suite_ok'] = r.returncode == 0
        log['suite_tail'] = r.stdout[-300:]
        ok = (log['applies'] and log['imports'] and log['demo_clean_exit'] == 0 and log['demo_patched_exit'] != 0
              and log['suite_ok'] and all(f.startswith('disk_objectstore/') for f in touched))
        log['confirmed'] = ok
        if ok:
            dst = os.path.join(VERIF, 'seeded', name)
            os.makedirs(dst, exist_ok=True)
            shutil.copy(patch, os.path.join(dst, 'patch.diff'))
            shutil.copy(demo, os.path.join(dst, 'demo.py'))
            meta_out = {
                'id': name, 'property': prop, 'summary': meta.get('summary'), 'what_it_breaks': meta.get('what_it_breaks'),
                'needs_to_manifest': meta.get('needs_to_manifest'), 'files_touched': touched,
                'source': 'independent sub-agent given only the property text and a scratch worktree',
                'confirmed_by': 'tools/confirm_seed.py in a fresh scratch worktree of /repo HEAD',
                'what_was_run': {
                    'demo_on_unchanged_tree': f'exit {log["demo_clean_exit"]} ({log["demo_clean_s"]}s)',
                    'demo_with_patch': f'exit {log["demo_patched_exit"]} ({log["demo_patched_s"]}s)',
                    'existing_suite_with_patch': 'all 358 stable baseline tests pass (pytest -n 6, compared with BASELINE stable_pass)',
                    'imports_with_patch': True,
                },
                'repo_head': sh(['git', '-C', '/repo', 'rev-parse', 'HEAD']).stdout.strip(),
            }
            json.dump(meta_out, open(os.path.join(dst, 'meta.json'), 'w'), indent=1)
        print(json.dumps({k: v for k, v in log.items() if k not in ('suite_tail',)}, indent=1))
        return 0 if ok else 1
    finally:
        sh(['git', '-C', '/repo', 'worktree', 'remove', '--force', wt])
        shutil.rmtree(wt, ignore_errors=True)


if __name__ == '__main__':
    sys.exit(main())
