#!/usr/bin/env python3
"""Apply a patch to a scratch copy and run `./check multi` (all rule modules once, no hosting) + the own check with hosting. usage: try_multi.py Cnn patch.diff"""
import os, shutil, subprocess, sys
V = os.path.dirname(os.path.dirname(os.path.abspath(__file__)))
sys.path.insert(0, os.path.join(V, 'tools'))
import try_patch as tp
pid, patch = sys.argv[1], sys.argv[2]
d = tp.scratch_copy()
try:
    r = subprocess.run(['patch', '-p1', '-s', '-d', d, '-i', os.path.abspath(patch)], capture_output=True, text=True)
    if r.returncode:
        print('patch failed', r.stdout, r.stderr); sys.exit(3)
    env = dict(os.environ, DOSA_REPO=d, PYTHONDONTWRITEBYTECODE='1', DOSA_NO_EVIDENCE='1')
    out = subprocess.run([os.path.join(V, 'check'), 'multi'], capture_output=True, text=True, env=env).stdout
    hits = []
    for l in out.splitlines():
        if l.startswith('[multi] ') and not l.endswith('rc=0'):
            p = l.split()[1]
            rules = sorted({x.split(' rule ')[1].split(' ')[0] for x in out.splitlines() if x.startswith(f'--- {p} rule ')})
            hits.append(f'{p}:{l.split("rc=")[1]}:{",".join(rules)[:70]}' + ('' if rules else ' ' + ' '.join(x[:140] for x in out.splitlines() if x.startswith(f'ANALYSIS-ERROR: {p}'))[:160]))
    own = subprocess.run([os.path.join(V, 'check'), pid], capture_output=True, text=True, env=env)
    orules = sorted({x.split(' rule ')[1].split(' ')[0] for x in own.stdout.splitlines() if x.startswith('--- ')})
    print(f'{pid} own: exit {own.returncode} {",".join(orules)[:100]} || modules: {" | ".join(hits) or "NONE"}')
finally:
    shutil.rmtree(d, ignore_errors=True)
