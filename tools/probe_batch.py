#!/usr/bin/env python3
"""Run a batch of ad-hoc one-edit mutants (JSON list of [file-key, old, new, [props]]) through the checks; print which are NOT detected.
usage: probe_batch.py probes.json [-j N]"""
import json, os, shutil, sys, concurrent.futures as cf
V = os.path.dirname(os.path.dirname(os.path.abspath(__file__)))
sys.path.insert(0, os.path.join(V, 'tools'))
import try_patch as tp
F = {'c': 'disk_objectstore/container.py', 'u': 'disk_objectstore/utils.py', 'b': 'disk_objectstore/backup_utils.py', 'd': 'disk_objectstore/database.py', 'l': 'disk_objectstore/cli.py'}
ALL = [f'C{i:02d}' for i in range(1, 19)]


def one(item):
    i, (fk, old, new, props) = item[0], item[1][:4]
    d = tp.scratch_copy()
    try:
        p = os.path.join(d, F[fk])
        s = open(p).read()
        if s.count(old) != 1:
            return i, f'ANCHOR x{s.count(old)}', []
        s2 = s.replace(old, new)
        try:
            compile(s2, F[fk], 'exec')
        except SyntaxError as e:
            return i, f'SYNTAX {e}', []
        open(p, 'w').write(s2)
        res = tp.run_checks(d, props or ALL)
        hits = []
        for pp, (rc, out) in res.items():
            if rc != 0:
                rules = sorted({l.split(' rule ')[1].split(' ')[0] for l in out.splitlines() if l.startswith('--- ') and ' rule ' in l})
                hits.append(f'{pp}:{rc}:' + ','.join(rules)[:80] + ('' if rc == 1 else ' ' + ' '.join(l[:160] for l in out.splitlines() if l.startswith('ANALYSIS-ERROR'))[:200]))
        return i, ('detected' if hits else 'NOT DETECTED'), hits
    finally:
        shutil.rmtree(d, ignore_errors=True)


def main():
    probes = json.load(open(sys.argv[1]))
    j = int(sys.argv[sys.argv.index('-j') + 1]) if '-j' in sys.argv else 3
    with cf.ThreadPoolExecutor(j) as ex:
        for i, st, hits in ex.map(one, enumerate(probes)):
            print(f'#{i:02d} {st:13s} {probes[i][4] if len(probes[i]) > 4 else probes[i][2][:70]!r} :: {" | ".join(hits)}', flush=True)

if __name__ == '__main__':
    main()
