#!/usr/bin/env python3
"""Calibration (not a check): which seeded mutants of dosa/selftest/variants.py survive the repository's own test suite?

For every mutant: scratch copy of /repo's working tree under a temp dir, apply the edit, run the pinned suite there (pytest -x -n 4,
stops at the first failure), record survived / killed-by-tests.  Result: selftest/test_survival.json.
usage: survival.py [-j 4] [Cnn ...]"""
import concurrent.futures as cf, json, os, shutil, subprocess, sys, tempfile, time
V = os.path.dirname(os.path.dirname(os.path.abspath(__file__)))
sys.path.insert(0, V)
from dosa.selftest.variants import VARIANTS
REPO = os.environ.get('DOSA_REPO', '/repo')


def one(v):
    vid, pid, kind, fname, old, new, expect = v
    src = open(os.path.join(REPO, fname), encoding='utf8').read()
    if src.count(old) != 1:
        return vid, {'status': 'skipped'}
    d = tempfile.mkdtemp(prefix='survival_')
    try:
        for sub in ('disk_objectstore', 'tests', 'docs', 'performance-benchmarks'):
            if os.path.isdir(os.path.join(REPO, sub)):
                shutil.copytree(os.path.join(REPO, sub), os.path.join(d, sub), ignore=shutil.ignore_patterns('__pycache__', '_build'))
        for f in ('pyproject.toml', 'README.md'):
            if os.path.exists(os.path.join(REPO, f)):
                shutil.copy(os.path.join(REPO, f), d)
        open(os.path.join(d, fname), 'w', encoding='utf8').write(src.replace(old, new))
        base = json.load(open('/root/.vp/BASELINE.json'))
        stable = set(base['stable_pass'])
        t = time.time()
        xml = os.path.join(d, 'junit.xml')
        env = dict(os.environ, PYTHONPATH=d, PYTHONDONTWRITEBYTECODE='1')
        # deselect the tests that fail on the unchanged tree in this sandbox (not part of the baseline)
        r = subprocess.run(['/venv/bin/python', '-m', 'pytest', '-q', '-p', 'no:cacheprovider', '--timeout=900', '-n', '4', f'--junitxml={xml}'],
                           cwd=d, env=env, capture_output=True, text=True)
        import xml.etree.ElementTree as ET
        passed = set()
        for tc in ET.parse(xml).getroot().iter('testcase'):
            if not any(ch.tag in ('failure', 'error', 'skipped') for ch in tc):
                passed.add(f"{tc.get('classname')}::{tc.get('name')}")
        missing = sorted(stable - passed)
        return vid, {'status': 'survived' if not missing else 'killed-by-tests', 'failing_baseline_tests': missing[:5], 'n_failing': len(missing), 'wall_s': round(time.time() - t, 1), 'property': pid}
    finally:
        shutil.rmtree(d, ignore_errors=True)


def main():
    a = sys.argv[1:]
    j = int(a[a.index('-j') + 1]) if '-j' in a else 4
    props = [x for x in a if x.startswith('C')]
    vs = [v for v in VARIANTS if v[2] == 'mutant' and (not props or v[1] in props)]
    out_path = os.path.join(V, 'dosa', 'selftest', 'test_survival.json')
    res = json.load(open(out_path)) if os.path.exists(out_path) else {}
    vs = [v for v in vs if v[0] not in res or '--redo' in a]
    print(len(vs), 'mutants to run', flush=True)
    with cf.ThreadPoolExecutor(max_workers=j) as ex:
        for vid, r in ex.map(one, vs):
            res[vid] = r
            print(vid, r.get('status'), r.get('n_failing'), r.get('wall_s'), flush=True)
            json.dump(res, open(out_path, 'w'), indent=1, sort_keys=True)
    s = {}
    for r in res.values():
        s[r['status']] = s.get(r['status'], 0) + 1
    print(s)


if __name__ == '__main__':
    main()
