#!/usr/bin/env python3
"""Record the calling convention the pinned tree uses for its own functions: for every function / method / class of the package whose name is unique, how many
arguments its call sites pass positionally (only when all call sites agree).  The loader brings every call site back to this convention (leading keywords <->
positionals, by the callee's current signature), so that rules written against today's spelling also read `f(pack_id=x)` / `f(x)` alike.
usage: gen_callconv.py  -> writes dosa/callconv.json"""
import ast, json, os
V = os.path.dirname(os.path.dirname(os.path.abspath(__file__)))
PKG = '/repo/disk_objectstore'
DENY = {'read', 'write', 'seek', 'tell', 'close', 'flush', 'open', 'fileno', 'truncate', 'readable', 'writable', 'seekable', 'mode', 'closed', 'get', 'update', 'add', 'append', 'pop',
        'execute', 'commit', 'run', 'main', 'validate', 'status', 'create', 'backup'}
defs, calls = {}, {}
for fn in sorted(os.listdir(PKG)):
    if not fn.endswith('.py'):
        continue
    t = ast.parse(open(os.path.join(PKG, fn)).read())
    for n in ast.walk(t):
        if isinstance(n, (ast.FunctionDef, ast.AsyncFunctionDef)):
            defs.setdefault(n.name, []).append(n)
        elif isinstance(n, ast.ClassDef):
            defs.setdefault(n.name, []).append(n)
        elif isinstance(n, ast.Call):
            name = n.func.attr if isinstance(n.func, ast.Attribute) else (n.func.id if isinstance(n.func, ast.Name) else None)
            if name and not any(isinstance(a, ast.Starred) for a in n.args) and not any(k.arg is None for k in n.keywords):
                calls.setdefault(name, []).append(len(n.args))
out = {}
for name, ds in defs.items():
    if len(ds) != 1 or name in DENY or name.startswith('__'):
        continue
    cs = calls.get(name)
    if cs and len(set(cs)) == 1:
        out[name] = cs[0]
json.dump(out, open(os.path.join(V, 'dosa', 'callconv.json'), 'w'), indent=0, sort_keys=True)
print(len(out), 'callees with a uniform convention')

# the names of all functions / classes of the pinned tree: a private helper whose name is not in this list is new to the rules and is read as part of its callers
names = sorted(defs)
json.dump(names, open(os.path.join(V, 'dosa', 'known_functions.json'), 'w'), indent=0)
print(len(names), 'known function / class names')

# module- and class-level names assigned in the pinned tree: a constant whose name is not in this list is new and is read as its value
consts = set()
for fn in sorted(os.listdir(PKG)):
    if fn.endswith('.py'):
        t = ast.parse(open(os.path.join(PKG, fn)).read())

        def scan(body):
            for st in body:
                if isinstance(st, (ast.Assign, ast.AnnAssign)):
                    for tg in (st.targets if isinstance(st, ast.Assign) else [st.target]):
                        if isinstance(tg, ast.Name):
                            consts.add(tg.id)
                elif isinstance(st, ast.ClassDef):
                    scan(st.body)
        scan(t.body)
json.dump(sorted(consts), open(os.path.join(V, 'dosa', 'known_constants.json'), 'w'), indent=0)
print(len(consts), 'known module/class level names')
