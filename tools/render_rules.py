#!/usr/bin/env python3
"""Render the rule inventory (as built) from evidence/*.json into DESIGN.md between the RULES markers."""
import glob, json, os
V = os.path.dirname(os.path.dirname(os.path.abspath(__file__)))
rows = ['| Property | Rule | What is decided (rule text from the checker) | instances on the current tree (minimum) |', '|---|---|---|---|']
tot = 0
for f in sorted(glob.glob(os.path.join(V, 'evidence', 'C*.json'))):
    ev = json.load(open(f))
    for rid, r in ev['coverage'].get('rules', {}).items():
        rows.append(f"| {ev['property_id']} | {rid} | {r['description']} | {r['instances']} ({r['minimum']}) |")
        tot += 1
p = os.path.join(V, 'DESIGN.md')
s = open(p).read()
a, b = s.index('<!-- RULES:BEGIN -->') + len('<!-- RULES:BEGIN -->'), s.index('<!-- RULES:END -->')
open(p, 'w').write(s[:a] + f'\n{tot} rules in 18 checks.\n\n' + '\n'.join(rows) + '\n' + s[b:])
print(tot, 'rules')
