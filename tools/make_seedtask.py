#!/usr/bin/env python3
"""Write the task text for a seeding sub-agent: /tmp/seedtask/<Cnn>.md (property text + protocol, nothing from /verif's machinery)."""
import json, os, sys
V = os.path.dirname(os.path.dirname(os.path.abspath(__file__)))
T = '''You are testing how robust a software project's verification is. You work ONLY inside your own scratch git worktree of the
project: {wt}  (a checkout of aiidateam/disk-objectstore, a pure-Python content-addressed on-disk object store; run things with
`/venv/bin/python`, set PYTHONPATH={wt} so that your worktree's package is the one imported; verify with
`/venv/bin/python -c "import disk_objectstore; print(disk_objectstore.__file__)"`). Do not read or touch /verif or /repo. No network.

Here is one semantic property the project is supposed to satisfy (JSON record):

{prop}

YOUR TASK: produce {nvar} DIFFERENT, INDEPENDENT changes (variants {names}) to the package source (files under {wt}/disk_objectstore/ only) such that each change
  (a) BREAKS this property (a user relying on the property would be harmed),
  (b) still imports/compiles and still passes the project's existing test suite
      (check with: `python3 /verif/tools/suite_check.py {wt} -n 6` -- it takes ~80 s and must end with `missing=0`; this one script is the only thing you may use from /verif),
  (c) is REALISTIC: looks like a plausible refactoring, optimisation, clean-up or feature tweak a maintainer might merge - not sabotage with a magic constant, not a comment saying it is a bug,
  (d) needs something SPECIFIC to manifest: a particular interleaving, a crash or fault at a particular point, a multi-step sequence of operations,
      an unusual input/configuration/flag combination, or two cooperating sites that each look fine alone. NOT something ordinary use would expose at once.
Prefer small changes (1-15 lines). The two variants should attack different code sites / different clauses of the property. Be creative: think about which part of the property the existing tests never exercise.

For each variant write a demonstration program demo.py (standalone, no pytest needed; uses tempfile for containers; may monkeypatch / inject faults /
simulate crashes by raising at a chosen point / use threads or a second Container handle to force the interleaving) that
exits 0 on the UNCHANGED tree and exits non-zero (assertion failure printing what went wrong) WITH your change applied. It must be deterministic and take < 60 s.

Procedure per variant: make the edit in the worktree; run demo (must fail); run the suite (must pass: missing=0); save `git -C {wt} diff > patch.diff`;
`git -C {wt} checkout -- .`; run demo again (must pass). If the suite fails with your change, make the change subtler or pick another.

Deliver, for variant X in {names}, the directory {out}/X/ containing exactly:
  patch.diff  (git diff, applies with `git apply` at the worktree root on the unchanged tree)
  demo.py
  meta.json   {{"summary": "...what was changed and the cover story...", "what_it_breaks": "...which clause of the property and how a user is harmed...", "needs_to_manifest": "...the specific schedule/crash point/sequence/input needed..."}}
{avoid}Leave the worktree clean (git checkout -- .) at the end. Your final answer: 3 lines per variant (what, where, what it needs to manifest) and whether all the procedure steps succeeded.
'''

def main():
    pid = sys.argv[1]
    names = sys.argv[2].split(',') if len(sys.argv) > 2 else ['A', 'B']
    wt = f'/tmp/wt/{pid}' + ('' if names[0] == 'A' else '_' + names[0])
    out = f'/tmp/seedout/{pid}'
    for l in open(os.path.join(V, 'properties.jsonl')):
        p = json.loads(l)
        if p['id'] == pid:
            break
    p = {k: p[k] for k in ('id', 'title', 'statement', 'quantifier', 'why_tests_cant', 'anchors')}
    os.makedirs('/tmp/seedtask', exist_ok=True); os.makedirs(out, exist_ok=True)
    avoid = ''
    import glob
    prev = []
    for mf in sorted(glob.glob(os.path.join(V, 'seeded', pid + '-*', 'meta.json'))):
        m = json.load(open(mf))
        prev.append('  - ' + ' '.join((m.get('summary') or '').split())[:260])
    focus = ''
    if names[0] not in ('A', 'C'):
        focus = ('FOCUS for this round: prefer (i) changes that need TWO cooperating edits in different functions or files, each harmless alone; (ii) the less obvious files and helpers '
                 '(utils.py stream/helper classes, database.py, backup_utils.py, cli.py, small private helpers of container.py) when they matter for this property; (iii) changes to guards, defaults, '
                 'constants, exception handling, ordering of cleanup, caching, or argument forwarding rather than to the central loop everybody looks at.\n\n')
    if names[0] in ('I', 'K'):
        focus = ('FOCUS for this round: the obvious attacks were already tried (see the list below). Prefer (i) performance work a maintainer would plausibly do - caching a value on the handle, skipping a '
                 'step when it looks redundant, batching, early exits, reusing an open handle or session - that is wrong only in a corner; (ii) refactorings that extract or merge helpers and get one detail '
                 'wrong (an argument not forwarded, a generator consumed twice, a default changed, an exception type widened or narrowed, a condition inverted for one branch only); (iii) behaviour on the '
                 'boundary values of the property quantifier (empty object, empty request, exactly-at-threshold sizes, repeated keys, a second call on the same handle, the first call after a reopen); '
                 '(iv) the less obvious files (utils.py classes and helpers, database.py, backup_utils.py, cli.py).\n\n')
    if prev and names[0] != 'A':
        avoid = ('ALREADY EXPLORED by earlier rounds (do NOT repeat these or close cousins of them; attack other code sites, other clauses of the property, other mechanisms):\n'
                 + '\n'.join(prev) + '\n\n')
    txt = T.format(wt=wt, prop=json.dumps(p, indent=1), out=out, nvar=len(names), names='/'.join(names), avoid=focus + avoid)
    fn = f'/tmp/seedtask/{pid}_{names[0]}.md'
    open(fn, 'w').write(txt)
    print(fn, wt)

if __name__ == '__main__':
    main()
