#!/usr/bin/env python3
"""Run every check against every seeded change (on scratch copies, never /repo) and print/store the catch matrix.
usage: seed_matrix.py [seed ids...]   -> writes /verif/seeded/MATRIX.json"""
import concurrent.futures as cf, json, os, subprocess, sys
V = os.path.dirname(os.path.dirname(os.path.abspath(__file__)))
sys.path.insert(0, os.path.join(V, 'tools'))
import try_patch as tp

PROPS = [f'C{i:02d}' for i in range(1, 19)]


def one(sid):
    d = tp.scratch_copy()
    try:
        diff = open(os.path.join(V, 'seeded', sid, 'patch.diff')).read()
        r = subprocess.run(['patch', '-p1', '--no-backup-if-mismatch'], input=diff, text=True, cwd=d, capture_output=True)
        if r.returncode != 0:
            return sid, {'error': 'patch failed: ' + r.stdout[-200:]}
        res = tp.run_checks(d, PROPS)
        out = {}
        for p, (rc, txt) in res.items():
            rules = sorted({l.split(' rule ')[1].split(' ')[0] for l in txt.splitlines() if l.startswith('--- ') and ' rule ' in l})
            out[p] = {'exit': rc, 'rules': rules}
            if rc == 2:
                out[p]['error'] = [l for l in txt.splitlines() if l.startswith('ANALYSIS-ERROR')][:1]
        return sid, out
    finally:
        import shutil
        shutil.rmtree(d, ignore_errors=True)


def main():
    ids = sys.argv[1:] or sorted(x for x in os.listdir(os.path.join(V, 'seeded')) if os.path.isdir(os.path.join(V, 'seeded', x)))
    with cf.ThreadPoolExecutor(max_workers=int(os.environ.get("SEED_MATRIX_JOBS", "4"))) as ex:
        res = dict(ex.map(one, ids))
    path = os.path.join(V, 'seeded', 'MATRIX.json')
    old = json.load(open(path)) if os.path.exists(path) else {}
    old.update(res)
    json.dump(old, open(path, 'w'), indent=1, sort_keys=True)
    for sid in ids:
        r = res[sid]
        if 'error' in r:
            print(sid, r['error']); continue
        own = sid.split('-')[0]
        caught = {p: v['rules'] for p, v in r.items() if v['exit'] == 1}
        errs = [p for p, v in r.items() if v['exit'] == 2]
        print(f"{sid}: own={'CAUGHT ' + ','.join(caught[own]) if own in caught else 'MISSED'}; others={ {p: v for p, v in caught.items() if p != own} }; analysis-errors={errs}")


if __name__ == '__main__':
    main()
