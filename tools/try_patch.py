#!/usr/bin/env python3
"""Apply a unified diff (optionally reversed) to a scratch copy of /repo and run checks against it.

usage: try_patch.py [-R] <patch.diff | git:<commit>> [Cnn ...] [--tier thorough] [-v]
Never touches /repo: the scratch copy lives in a temp dir (outside /repo and /verif) and is removed afterwards.
"""
import os, shutil, subprocess, sys, tempfile

VERIF = os.path.dirname(os.path.dirname(os.path.abspath(__file__)))


def scratch_copy(repo='/repo'):
    d = tempfile.mkdtemp(prefix='dosa_scratch_')
    shutil.copytree(os.path.join(repo, 'disk_objectstore'), os.path.join(d, 'disk_objectstore'),
                    ignore=shutil.ignore_patterns('__pycache__'))
    os.makedirs(os.path.join(d, 'docs', 'pages'), exist_ok=True)
    src = os.path.join(repo, 'docs', 'pages', 'design.md')
    if os.path.exists(src):
        shutil.copy(src, os.path.join(d, 'docs', 'pages', 'design.md'))
    return d


def run_checks(d, props, tier='quick', verbose=False):
    res = {}
    env = dict(os.environ, DOSA_REPO=d, PYTHONDONTWRITEBYTECODE='1', DOSA_NO_EVIDENCE='1')
    for p in props:
        r = subprocess.run([os.path.join(VERIF, 'check'), p, '--tier', tier], capture_output=True, text=True, env=env)
        res[p] = (r.returncode, r.stdout + r.stderr)
        if verbose:
            print(r.stdout + r.stderr)
    return res


def main():
    a = sys.argv[1:]
    rev = '-R' in a
    verbose = '-v' in a
    tier = 'quick'
    if '--tier' in a:
        tier = a[a.index('--tier') + 1]
        del a[a.index('--tier'):a.index('--tier') + 2]
    a = [x for x in a if x not in ('-R', '-v')]
    patch = a[0]
    props = a[1:] or [f'C{i:02d}' for i in range(1, 19)]
    d = scratch_copy()
    try:
        if patch.startswith('git:'):
            diff = subprocess.run(['git', '-C', '/repo', 'show', patch[4:]], capture_output=True, text=True).stdout
        else:
            diff = open(patch).read()
        r = subprocess.run(['patch', '-p1', '--no-backup-if-mismatch'] + (['-R'] if rev else []), input=diff, text=True,
                           cwd=d, capture_output=True)
        if r.returncode != 0:
            print('PATCH FAILED', r.stdout, r.stderr)
            return 3
        res = run_checks(d, props, tier, verbose)
        for p, (rc, out) in res.items():
            v = [l for l in out.splitlines() if l.startswith('VIOLATION') or l.startswith('ANALYSIS-ERROR') or l.startswith('---')]
            print(p, 'exit', rc, '|', ' ; '.join(x[:150] for x in v[:6]))
    finally:
        shutil.rmtree(d, ignore_errors=True)


if __name__ == '__main__':
    sys.exit(main())
