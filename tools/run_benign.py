#!/usr/bin/env python3
"""False-alarm regression: apply each stored behaviour-preserving refactoring (benign/<id>/patch.diff, written by independent agents against the pinned tree)
to a scratch copy and require every rule module to stay silent (`./check multi`).  usage: run_benign.py [-j N] [ids...]"""
import concurrent.futures as cf, os, subprocess, sys
V = os.path.dirname(os.path.dirname(os.path.abspath(__file__)))


def one(i):
    r = subprocess.run([sys.executable, os.path.join(V, 'tools', 'benign_multi.py'), os.path.join(V, 'benign', i, 'patch.diff')], capture_output=True, text=True)
    return i, r.stdout.strip()


def main():
    a = sys.argv[1:]
    j = int(a[a.index('-j') + 1]) if '-j' in a else 6
    ids = [x for x in a if not x.startswith('-') and not x.isdigit()] or sorted(os.listdir(os.path.join(V, 'benign')))
    import json
    known = json.load(open(os.path.join(V, 'benign', 'KNOWN_NOISY.json')))
    ids = [i for i in ids if os.path.isdir(os.path.join(V, 'benign', i))]
    bad = kn = 0
    with cf.ThreadPoolExecutor(j) as ex:
        for i, out in ex.map(one, ids):
            ok = out == 'SILENT'
            if not ok and i in known:
                kn += 1
                print(f'{i:8s} noisy (known limitation: {known[i][:120]}...)')
                continue
            bad += not ok
            print(f'{i:8s} {"silent" if ok else "NOISY"} {"" if ok else out[:300]}')
    print(f'{len(ids) - bad - kn}/{len(ids)} silent, {kn} known-noisy, {bad} unexpected')
    return 1 if bad else 0


if __name__ == '__main__':
    sys.exit(main())
