import os, tempfile, fcntl
from pathlib import Path
from disk_objectstore import utils
print("F_FULLFSYNC =", utils.F_FULLFSYNC, "hasattr:", hasattr(fcntl,'F_FULLFSYNC'))
calls=[]
real_fsync=os.fsync
def spy(fd):
    calls.append(('fsync',fd, os.readlink(f'/proc/self/fd/{fd}')))
    return real_fsync(fd)
os.fsync=spy
real_fcntl=fcntl.fcntl
def spy2(fd,cmd,*a):
    r=real_fcntl(fd,cmd,*a)
    calls.append(('fcntl',fd,cmd,os.readlink(f'/proc/self/fd/{fd}'),'->',r))
    return r
fcntl.fcntl=spy2
d=tempfile.mkdtemp()
p=Path(d)/'f'
nfd0=len(os.listdir('/proc/self/fd'))
with open(p,'ab') as fh:
    fh.write(b'x'*10)
    utils.safe_flush_to_disk(fh,p,use_fullsync=True)
print(calls)
print('fds before',nfd0,'after',len(os.listdir('/proc/self/fd')))
calls.clear()
with open(p,'ab') as fh:
    fh.write(b'x'*10)
    utils.safe_flush_to_disk(fh,p)
print(calls)
print('fds after default',len(os.listdir('/proc/self/fd')))
