import tempfile
from disk_objectstore import Container
for gen in (False, True):
  for cb in (False, True):
    for ht in ('sha256','sha1'):
        s=tempfile.mkdtemp(); t=tempfile.mkdtemp()
        S=Container(s); S.init_container(hash_type='sha256')
        T=Container(t); T.init_container(hash_type=ht)
        ks=[S.add_object(b'a'), S.add_object(b'bb')]
        keys=(k for k in ks) if gen else list(ks)
        m=T.import_objects(keys,S,callback=(lambda action,value:None) if cb else None)
        print('gen',gen,'cb',cb,'dest',ht,'-> imported',len(m), T.count_objects().packed)
        S.close(); T.close()
