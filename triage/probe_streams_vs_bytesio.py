import io, random, tempfile, zlib
from disk_objectstore import Container
random.seed(1)
d=tempfile.mkdtemp()
C=Container(d); C.init_container()
content=bytes(random.getrandbits(8) for _ in range(300))
pad=b'P'*17
ks=C.add_objects_to_pack([pad,content,pad+b'2'],compress=True)
ku=C.add_objects_to_pack([pad+b'3',content+b'u',pad+b'4'],compress=False)
kl=C.add_object(content+b'l')
cases={'comp':(ks[1],content),'plain':(ku[1],content+b'u'),'loose':(kl,content+b'l')}
devs={}
for name,(k,data) in cases.items():
    for trial in range(3000):
        ref=io.BytesIO(data)
        with C.get_object_stream(k) as s:
            prog=[]
            for step in range(random.randint(1,6)):
                op=random.choice(['read','readn','seek0','seek1','seek2','tell'])
                if op=='read': a=()
                elif op=='readn': a=(random.randint(0,400),)
                elif op=='seek0': a=(random.randint(0,len(data)),0)
                elif op=='seek1':
                    pos=ref.tell(); t=random.randint(0,len(data)); a=(t-pos,1)
                elif op=='seek2': a=(-random.randint(0,len(data)),2)
                else: a=()
                prog.append((op,a))
                fn={'read':'read','readn':'read','seek0':'seek','seek1':'seek','seek2':'seek','tell':'tell'}[op]
                try: r1=getattr(s,fn)(*a)
                except BaseException as e: r1=('EXC',type(e).__name__)
                r2=getattr(ref,fn)(*a)
                if r1!=r2:
                    key=(name,op)
                    if key not in devs: devs[key]=(prog,r1 if not isinstance(r1,bytes) else r1[:8],r2 if not isinstance(r2,bytes) else r2[:8])
                    break
for k,v in devs.items(): print(k,v)
print('done')
