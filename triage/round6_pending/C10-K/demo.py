"""C10: the container's size totals are the sums of the per-object size / stored length, whatever the history.

Sequence: pack plain -> ask the totals -> repack with a different compression mode (same objects, same rows,
only their stored form changes) -> ask the totals again ON THE SAME HANDLE. The totals must follow the per-object
metadata after every step of a chain of repacks (NO -> YES -> AUTO -> NO -> KEEP).
"""
import os
import sys
import tempfile

from disk_objectstore import CompressMode, Container


def check(container, contents, label):
    metas = dict(container.get_objects_meta(list(contents)))
    total = container.get_total_size()
    sum_size = sum(meta['size'] for meta in metas.values())
    sum_length = sum(meta['pack_length'] for meta in metas.values())
    packs_on_disk = sum(
        container._get_pack_path_from_pack_id(pack_id).stat().st_size for pack_id in container._list_packs()
    )
    for hashkey, content in contents.items():
        assert container.get_object_content(hashkey) == content, f'[{label}] content of {hashkey} changed'
        assert metas[hashkey]['size'] == len(content), f'[{label}] wrong size for {hashkey}'
    assert sum_length == packs_on_disk, f'[{label}] per-object lengths {sum_length} != pack files {packs_on_disk}'
    assert total['total_size_packed'] == sum_size, (
        f"[{label}] total_size_packed={total['total_size_packed']} but the sum of the object sizes is {sum_size}"
    )
    assert total['total_size_packed_on_disk'] == sum_length, (
        f"[{label}] total_size_packed_on_disk={total['total_size_packed_on_disk']} but the objects occupy "
        f'{sum_length} bytes in the packs (sum of pack_length; pack files on disk: {packs_on_disk})'
    )


def main():
    with tempfile.TemporaryDirectory() as tmp:
        container = Container(os.path.join(tmp, 'c'))
        container.init_container(clear=True)
        payloads = [b'', b'x', b'0123456789' * 5000, bytes(range(256)) * 40, b'a' * 200_000]
        contents = {container.add_object(payload): payload for payload in payloads}
        container.pack_all_loose(compress=False)
        container.clean_storage()
        check(container, contents, 'packed plain')

        for mode in (CompressMode.YES, CompressMode.AUTO, CompressMode.NO, CompressMode.KEEP, CompressMode.YES):
            container.repack(compress_mode=mode)
            check(container, contents, f'after repack {mode}')
        container.close()
    print('OK')


if __name__ == '__main__':
    try:
        main()
    except AssertionError as exc:
        print('PROPERTY VIOLATED:', exc)
        sys.exit(1)
