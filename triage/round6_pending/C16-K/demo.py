"""C16 / variant K: bulk metadata/content of a very large request must equal the single-key answers.

Request more than Container._MAX_CHUNK_ITERATE_LENGTH distinct keys that are not in the pack index (a few loose
objects plus many keys that do not exist) with skip_if_missing=False: every distinct key has to be reported exactly
once, the non-existing ones as MISSING / None - exactly as for a small request and as the single-key API says.
"""
import hashlib
import shutil
import sys
import tempfile

from disk_objectstore import Container
from disk_objectstore.container import ObjectType


def main():
    tmp = tempfile.mkdtemp()
    try:
        container = Container(tmp)
        container.init_container(clear=True)
        packed = container.add_objects_to_pack([f'packed-{i}'.encode() for i in range(5)])
        loose = [container.add_object(f'loose-{i}'.encode()) for i in range(5)]
        threshold = container._MAX_CHUNK_ITERATE_LENGTH

        def fake(i):
            return hashlib.sha256(f'not-there-{i}'.encode()).hexdigest()

        for num_missing in (7, threshold + 100):
            missing = [fake(i) for i in range(num_missing)]
            request = packed + loose + missing + loose[:2] + missing[:3]  # some repetitions, too
            distinct = set(request)

            # Reference: the single-key API
            expected_type = {}
            for key in distinct:
                if container.has_object(key):
                    expected_type[key] = container.get_object_meta(key)['type']
                else:
                    expected_type[key] = ObjectType.MISSING

            metas = list(container.get_objects_meta(request, skip_if_missing=False))
            got_keys = [key for key, _ in metas]
            assert len(got_keys) == len(set(got_keys)), f'[{num_missing}] a key was reported more than once'
            not_reported = distinct.difference(got_keys)
            assert not not_reported, (
                f'[{num_missing} missing keys requested] get_objects_meta(skip_if_missing=False) did not report '
                f'{len(not_reported)} of the {len(distinct)} distinct keys at all (e.g. {sorted(not_reported)[0]})'
            )
            got_type = {key: meta['type'] for key, meta in metas}
            assert got_type == expected_type, f'[{num_missing}] types differ from the single-key answers'

            content = container.get_objects_content(request, skip_if_missing=False)
            assert set(content) == distinct, (
                f'[{num_missing}] get_objects_content(skip_if_missing=False) returned {len(content)} keys '
                f'instead of {len(distinct)}'
            )
            assert all(content[key] is None for key in missing)
            assert all(content[key] is not None for key in packed + loose)

            # skip_if_missing=True: only the existing ones
            assert set(dict(container.get_objects_meta(request, skip_if_missing=True))) == set(packed + loose)
            assert container.has_objects(request) == [key in set(packed + loose) for key in request]
        container.close()
    finally:
        shutil.rmtree(tmp, ignore_errors=True)
    print('OK')


if __name__ == '__main__':
    main()
