"""Demo for C08/K.

Several handles on one container.  A long-open handle queries first (this pins its index snapshot), then the
packing handle packs the loose objects WITH compression and cleans the loose files.  The long-open handle
then reads the objects as streams: like any other handle, it must get fully functional streams (sequential
reads AND random access: seek relative to the end / backwards) returning the right bytes.
"""
import os
import sys
import tempfile

from disk_objectstore import Container


def check_stream(handle_name, stream, hashkey, content):
    """Read an object in the way a random-access consumer does: size via seek(0, 2), then tail, then head."""
    first = stream.read(10)
    assert first == content[:10], f'{handle_name}: wrong first bytes {first!r}'
    try:
        end = stream.seek(0, 2)
    except Exception as exc:  # pylint: disable=broad-except
        raise AssertionError(
            f'{handle_name}: seek from the end on acknowledged object {hashkey[:8]} failed with {exc!r}'
        ) from exc
    assert end == len(content), f'{handle_name}: wrong size from seek(0, 2): {end} vs {len(content)}'
    stream.seek(-7, 2)
    tail = stream.read()
    assert tail == content[-7:], f'{handle_name}: wrong tail {tail!r}'
    stream.seek(3)
    rest = stream.read()
    assert rest == content[3:], f'{handle_name}: wrong bytes after seeking back'


def main():
    with tempfile.TemporaryDirectory() as tmp:
        folder = os.path.join(tmp, 'container')
        packer = Container(folder)
        packer.init_container(clear=True)
        adder = Container(folder)
        fresh = Container(folder)
        long_open_single = Container(folder)
        long_open_multi = Container(folder)

        contents = [(f'object number {idx} - '.encode() * 200) for idx in range(4)]
        hashkeys = [adder.add_object(content) for content in contents]
        expected = dict(zip(hashkeys, contents))

        # The long-open handles query: their operation session now pins a snapshot of the (still empty) index
        assert long_open_single.has_objects(hashkeys) == [True] * 4
        assert long_open_multi.count_objects().packed == 0

        # The packing handle packs with compression and removes the loose files
        packer.pack_all_loose(compress=True)
        packer.clean_storage()

        # Reference behaviour: a handle that never queried before gets fully functional streams
        with fresh.get_object_stream(hashkeys[0]) as stream:
            check_stream('fresh handle', stream, hashkeys[0], contents[0])
        packer.clean_storage()  # remove the loose copy re-created by the random access above

        # A long-open handle reading one object
        with long_open_single.get_object_stream(hashkeys[1]) as stream:
            check_stream('long-open handle (single read)', stream, hashkeys[1], contents[1])
        packer.clean_storage()

        # A long-open handle reading many objects in one go
        with long_open_multi.get_objects_stream_and_meta(hashkeys) as triplets:
            for hashkey, stream, meta in triplets:
                assert meta.size == len(expected[hashkey])
                check_stream('long-open handle (bulk read)', stream, hashkey, expected[hashkey])

        for cont in (packer, adder, fresh, long_open_single, long_open_multi):
            cont.close()
    print('OK: long-open handles get fully functional streams with the right bytes')


if __name__ == '__main__':
    try:
        main()
    except AssertionError as exc:
        print(f'PROPERTY VIOLATED: {exc}')
        sys.exit(1)
