"""C14 demo K: import of a batch that spans several destination packs must index every object."""
import os
import sys
import tempfile

sys.path.insert(0, os.environ.get('DOS_WT', '/tmp/wt/C14_K'))
from disk_objectstore import Container  # noqa: E402


def main():
    failures = []
    for dest_hash in ('sha256', 'sha1'):
        with tempfile.TemporaryDirectory() as src_dir, tempfile.TemporaryDirectory() as dst_dir:
            src = Container(src_dir)
            src.init_container(clear=True, hash_type='sha256')
            dst = Container(dst_dir)
            # small packs: the in-memory batch of the import is flushed across several pack files
            dst.init_container(clear=True, hash_type=dest_hash, pack_size_target=1000)
            contents = [(b'%03d-' % i) * 100 for i in range(12)]  # 12 objects of 400 bytes
            keys = src.add_objects_to_pack(contents[:6]) + [src.add_object(c) for c in contents[6:]]
            by_key = dict(zip(keys, contents))

            mapping = dst.import_objects(keys, src)  # default memory budget: one final flush
            if set(mapping) != set(keys):
                failures.append(f'[{dest_hash}] mapping mentions {len(mapping)} keys, expected {len(keys)}')
            n_packs = len(list(dst._list_packs()))
            assert n_packs > 1, 'scenario broken: destination should have several packs'
            for old, new in mapping.items():
                have = dst.has_object(new)
                if not have:
                    failures.append(f'[{dest_hash}] object {old[:8]} -> {new[:8]} is in the mapping but NOT in the destination')
                elif dst.get_object_content(new) != by_key[old]:
                    failures.append(f'[{dest_hash}] object {new[:8]} has different bytes')
            # a fresh handle must see the same
            dst2 = Container(dst_dir)
            cnt = dst2.count_objects()
            if cnt['packed'] != len(keys):
                failures.append(f"[{dest_hash}] destination index has {cnt['packed']} packed objects, expected {len(keys)}")
            src.close(); dst.close(); dst2.close()
    if failures:
        print('C14 VIOLATED:')
        for f in failures:
            print('  ', f)
        sys.exit(1)
    print('OK')


if __name__ == '__main__':
    main()
