"""Demo for C08/L.

Handles on one container: `adder` adds loose objects, `reader` is a long-open handle, `packer` packs and cleans.
A transient I/O fault (fsync of the pack file fails once with EIO) interrupts pack_all_loose() of the packing
handle after the new rows were sent to the index but before they were committed.  The maintenance script does
what it always does afterwards: it cleans the storage and closes its handle.  Every acknowledged object must
still be reported (existence, content, listing) by every handle.
"""
import errno
import os
import sys
import tempfile

import disk_objectstore.container as container_module
from disk_objectstore import Container


def main():
    with tempfile.TemporaryDirectory() as tmp:
        folder = os.path.join(tmp, 'container')
        packer = Container(folder)
        packer.init_container(clear=True)
        adder = Container(folder)
        reader = Container(folder)

        contents = [f'content of object {idx}'.encode() * 50 for idx in range(5)]
        hashkeys = [adder.add_object(content) for content in contents]
        expected = dict(zip(hashkeys, contents))

        # The long-open reader queries (and pins its snapshot)
        assert reader.has_objects(hashkeys) == [True] * 5

        # Inject a one-off fault in the fsync of the pack file
        original_flush = container_module.safe_flush_to_disk
        state = {'failed': False}

        def faulty_flush(*args, **kwargs):
            if not state['failed']:
                state['failed'] = True
                raise OSError(errno.EIO, 'Input/output error (injected)')
            return original_flush(*args, **kwargs)

        container_module.safe_flush_to_disk = faulty_flush
        try:
            try:
                packer.pack_all_loose()
            except OSError as exc:
                print(f'pack_all_loose interrupted as planned: {exc}')
            else:
                raise RuntimeError('the fault was not injected, the demo is not meaningful')
        finally:
            container_module.safe_flush_to_disk = original_flush

        # Usual end of the maintenance: clean and close
        packer.clean_storage()
        packer.close()

        for name, handle in (('long-open reader', reader), ('adder', adder), ('new handle', Container(folder))):
            found = handle.has_objects(hashkeys)
            assert found == [True] * 5, f'{name}: has_objects reports acknowledged objects as missing: {found}'
            listed = set(handle.list_all_objects())
            assert listed == set(hashkeys), f'{name}: listing misses {len(set(hashkeys) - listed)} acknowledged objects'
            assert handle.get_objects_content(hashkeys) == expected, f'{name}: wrong content'
            handle.close()

        # A later, successful, maintenance must also keep everything
        packer = Container(folder)
        packer.pack_all_loose()
        packer.clean_storage()
        packer.close()
        checker = Container(folder)
        assert checker.get_objects_content(hashkeys) == expected, 'objects lost after the second packing'
        checker.close()
    print('OK: all acknowledged objects are still reported by all handles')


if __name__ == '__main__':
    try:
        main()
    except AssertionError as exc:
        print(f'PROPERTY VIOLATED: {exc}')
        sys.exit(1)
