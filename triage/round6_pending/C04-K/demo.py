"""C04 / variant K demo.

Sequence (one packer handle, one independent reader handle):
  1. some objects are added as loose objects (the additions have returned);
  2. the packer runs pack_all_loose(clean_loose_per_pack=True) and the fsync of the pack file fails
     (simulated I/O error raised by safe_flush_to_disk): the call raises, nothing was committed to the index;
  3. the operator retries pack_all_loose(clean_loose_per_pack=True) on the same Container handle;
  4. a reader (different handle) reads all the objects; then the packer handle is closed and a brand-new
     handle reads them again (final container state).
Every object must always be found and read back with exactly its bytes.
"""
import shutil
import sys
import tempfile

import disk_objectstore.container as container_module
from disk_objectstore import Container


def main():
    tmp = tempfile.mkdtemp(prefix='c04k_')
    try:
        packer = Container(tmp)
        packer.init_container(clear=True)
        expected = {}
        for idx in range(8):
            content = f'object-{idx}-'.encode() * (idx + 1)
            expected[packer.add_object(content)] = content
        keys = list(expected)

        # 2. the fsync of the pack fails once
        original_flush = container_module.safe_flush_to_disk
        state = {'failed': False}

        def failing_flush(*args, **kwargs):
            if not state['failed']:
                state['failed'] = True
                raise OSError(5, 'Input/output error (simulated) while syncing the pack file')
            return original_flush(*args, **kwargs)

        container_module.safe_flush_to_disk = failing_flush
        try:
            try:
                packer.pack_all_loose(clean_loose_per_pack=True)
            except OSError as exc:
                print('first pack_all_loose failed as planned:', exc)
            else:
                raise AssertionError('fault injection did not trigger')
        finally:
            container_module.safe_flush_to_disk = original_flush

        # Reader in between: everything must still be there
        reader = Container(tmp)
        got = reader.get_objects_content(keys, skip_if_missing=False)
        assert got == expected, 'objects not readable after the failed pack'

        # 3. retry on the same handle
        packer.pack_all_loose(clean_loose_per_pack=True)

        # 4. reader with a long-open handle, and a fresh one
        failures = []
        for name, handle in (('long-open reader', reader), ('fresh reader', Container(tmp))):
            got = handle.get_objects_content(keys, skip_if_missing=False)
            missing = [key for key in keys if got.get(key) is None]
            wrong = [key for key in keys if got.get(key) is not None and got[key] != expected[key]]
            if missing or wrong:
                failures.append(f'{name}: {len(missing)} objects reported MISSING, {len(wrong)} with wrong bytes')
            flags = handle.has_objects(keys)
            if not all(flags):
                failures.append(f'{name}: has_objects says {flags.count(False)} of {len(keys)} do not exist')
            handle.close()

        packer.close()
        final = Container(tmp)
        got = final.get_objects_content(keys, skip_if_missing=False)
        lost = [key for key in keys if got.get(key) != expected[key]]
        if lost:
            failures.append(f'final state: {len(lost)} of {len(keys)} objects are lost for good '
                            f'(counts: {final.count_objects()})')
        final.close()

        assert not failures, 'PROPERTY C04 VIOLATED:\n  ' + '\n  '.join(failures)
        print('OK: all objects found and identical at every step')
    finally:
        shutil.rmtree(tmp, ignore_errors=True)


if __name__ == '__main__':
    try:
        main()
    except AssertionError as exc:
        print(exc)
        sys.exit(1)
