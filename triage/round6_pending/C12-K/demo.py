"""C12 / variant K: validate() must be clean on every reachable state, whatever the container configuration.

History: a container initialised with the (supported, non-default) hash type ``sha1``; objects are written
loose, packed (compressed and not), directly to packs; nothing is ever damaged.
Ground truth: every object is read back and compared with what was stored. validate() must agree (no issue).
As a control, the same history on a default (sha256) container, and a damaged sha1 container must NOT be clean.
"""
import hashlib
import shutil
import sys
import tempfile

from disk_objectstore import Container


def build(folder, hash_type):
    container = Container(folder)
    container.init_container(clear=True, hash_type=hash_type, pack_size_target=4000)
    stored = {}
    for idx in range(5):
        content = f'loose-then-packed-{idx}'.encode() * (idx + 1)
        stored[container.add_object(content)] = content
    container.pack_all_loose(compress=True)
    contents = [f'direct-{idx}'.encode() * 50 * (idx + 1) for idx in range(6)] + [b'']
    for hashkey, content in zip(container.add_objects_to_pack(contents, compress=False), contents):
        stored[hashkey] = content
    for idx in range(3):
        content = f'still-loose-{idx}'.encode()
        stored[container.add_object(content)] = content
    container.clean_storage()
    return container, stored


def ground_truth_ok(container, stored, hash_type):
    for hashkey, content in stored.items():
        if container.get_object_content(hashkey) != content:
            return False
        if getattr(hashlib, hash_type)(content).hexdigest() != hashkey:
            return False
    return True


def main():
    failures = []
    for hash_type in ('sha256', 'sha1'):
        folder = tempfile.mkdtemp()
        try:
            container, stored = build(folder, hash_type)
            assert ground_truth_ok(container, stored, hash_type), 'test bug: the container is really broken'
            issues = container.validate()
            if not issues.is_valid():
                failures.append(
                    f'[{hash_type}] undamaged container, every object reads back correctly, but validate() reports: '
                    + ', '.join(f'{key}={len(val)}' for key, val in issues.__dict__.items() if val)
                )
            # control: real damage is still seen (flip one bit of the first byte of pack 0)
            pack_path = container._get_pack_path_from_pack_id('0')
            data = bytearray(pack_path.read_bytes())
            data[0] ^= 0x01
            pack_path.write_bytes(bytes(data))
            try:
                clean = container.validate().is_valid()
            except Exception:  # failing is an acceptable way of not being clean
                clean = False
            if clean:
                failures.append(f'[{hash_type}] damaged pack but validate() is clean')
            container.close()
        finally:
            shutil.rmtree(folder, ignore_errors=True)
    if failures:
        print('C12 VIOLATED:')
        for failure in failures:
            print('  -', failure)
        sys.exit(1)
    print('OK: validate() is clean on the undamaged sha256 and sha1 containers and not clean on the damaged ones')


if __name__ == '__main__':
    main()
