"""C12 / variant L: validate() must never return a clean report when some object is unreadable.

Interleaving: validate() first lists the loose objects and then rehashes them one by one. Between the
listing and the rehash, the file of one loose object (never packed: the loose file is its only copy) is
lost (faulty cleanup script / file-system damage while the long validation is running).
Ground truth: reading every stored object back. If an object cannot be read, validate() must not be
clean: it has to name the object or fail with an exception.
"""
import os
import shutil
import sys
import tempfile

from disk_objectstore import Container


def main():
    folder = tempfile.mkdtemp()
    try:
        container = Container(folder)
        container.init_container(clear=True)
        stored = {}
        packed = [f'packed-{idx}'.encode() * 20 for idx in range(4)]
        for hashkey, content in zip(container.add_objects_to_pack(packed, compress=True), packed):
            stored[hashkey] = content
        for idx in range(6):
            content = f'loose-only-{idx}'.encode() * 10
            stored[container.add_object(content)] = content

        assert container.validate().is_valid(), 'undamaged container must be clean'

        victim = sorted(hk for hk in stored if container.get_object_meta(hk)['type'].value == 'loose')[0]
        victim_path = container._get_loose_path_from_hashkey(victim)
        original_list_loose = container._list_loose

        def list_loose_then_lose_one():
            yield from original_list_loose()
            # the listing is complete: now the damage happens, before the rehash loop starts
            if os.path.exists(victim_path):
                os.remove(victim_path)

        container._list_loose = list_loose_then_lose_one

        try:
            clean = container.validate().is_valid()
            outcome = 'returned a CLEAN report' if clean else 'reported issues'
        except Exception as exc:  # failing is an acceptable way of not being clean
            clean = False
            outcome = f'failed with {type(exc).__name__}'

        container._list_loose = original_list_loose
        unreadable = []
        for hashkey, content in stored.items():
            try:
                if container.get_object_content(hashkey) != content:
                    unreadable.append(hashkey)
            except Exception:
                unreadable.append(hashkey)
        container.close()

        assert unreadable == [victim], f'test bug: expected exactly the victim to be unreadable, got {unreadable}'
        if clean:
            print(f'C12 VIOLATED: object {victim} is unreadable (its only copy, a loose file, was lost while')
            print('  validate() was running, after the listing of the loose objects) but validate()', outcome)
            sys.exit(1)
        print(f'OK: object {victim} is unreadable and validate() {outcome}')
    finally:
        shutil.rmtree(folder, ignore_errors=True)


if __name__ == '__main__':
    main()
