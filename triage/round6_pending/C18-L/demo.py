"""C18 / variant L: peak memory of `add_streamed_object` when the object is ALREADY present as a loose object.

Streaming a large object into the container must use bounded memory, also when the very same content was
already stored before (repeated key): in that case the writer re-validates the existing loose file before
deciding to keep it, and that validation must be chunked as well.
"""
import hashlib
import os
import sys
import tempfile
import tracemalloc

from disk_objectstore import Container

MIB = 1024 * 1024


class PatternStream:
    """A read-only stream producing `size` deterministic bytes without ever holding them all in memory."""

    mode = 'rb'

    def __init__(self, size, seed):
        self._left = size
        self._block = hashlib.sha256(seed).digest() * 2048  # 64 KiB

    def read(self, size=-1):
        if size is None or size < 0:
            size = self._left
        size = min(size, self._left)
        out = bytearray()
        while len(out) < size:
            out += self._block[: size - len(out)]
        self._left -= size
        return bytes(out)


def peak_of(func):
    tracemalloc.start()
    tracemalloc.reset_peak()
    try:
        result = func()
        _, peak = tracemalloc.get_traced_memory()
    finally:
        tracemalloc.stop()
    return result, peak


def main():
    # Generous bound: the copy loops use chunks of 64-512 KiB
    bound = 6 * MIB
    with tempfile.TemporaryDirectory() as tmp:
        with Container(os.path.join(tmp, 'container')) as container:
            container.init_container(clear=True)
            for size in (1 * MIB, 8 * MIB, 48 * MIB):
                seed = str(size).encode()
                first, peak_first = peak_of(lambda: container.add_streamed_object(PatternStream(size, seed)))
                assert peak_first < bound, f'first add of {size} bytes: peak {peak_first} >= {bound}'
                # Same content again, while the first copy is still loose
                second, peak_second = peak_of(lambda: container.add_streamed_object(PatternStream(size, seed)))
                assert first == second
                print(f'size={size:>9}  peak first add={peak_first:>9}  peak repeated add={peak_second:>9}')
                assert peak_second < bound, (
                    f're-adding an already-stored loose object of {size} bytes had a peak memory of {peak_second} '
                    f'bytes (bound {bound}): memory grows with the object size'
                )
                assert container.get_object_meta(first).size == size
            assert os.listdir(os.path.join(tmp, 'container', 'sandbox')) == []
    print('OK: bounded memory also when re-adding existing loose objects')
    return 0


if __name__ == '__main__':
    sys.exit(main())
