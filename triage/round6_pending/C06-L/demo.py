"""C06 demo (variant L): crash at every index-commit boundary of ``repack_pack``.

For n = 1, 2, 3: build a container with one pack, delete one object (so that repacking moves bytes),
start ``repack_pack(0)`` in a child process and kill the child (os._exit, no rollback) right BEFORE the n-th
``Session.commit()`` issued by repack_pack. Directory operations done so far survive, the uncommitted index
transaction does not.

Then the image is read RAW: every row of the index must point into a pack file that exists and whose
``length`` bytes at ``offset`` hash to the row's hashkey; and every object that was stored must have a row.
"""
import hashlib
import sqlite3
import subprocess
import sys
import tempfile
from pathlib import Path

NOBJ = 8

CHILD = r"""
import os, sys
from sqlalchemy.orm import Session
from disk_objectstore import Container
nth = int(sys.argv[2])
contents = [(f'object-{i}-'.encode() * (30 + i)) for i in range(8)]
c = Container(sys.argv[1])
c.init_container(clear=True)
keys = c.add_objects_to_pack(contents)
c.delete_objects([keys[0], keys[3]])
print('\n'.join(keys), flush=True)

state = {'n': 0}
orig_commit = Session.commit
def commit(self):
    state['n'] += 1
    if state['n'] == nth:
        os._exit(17)  # crash right before this commit
    return orig_commit(self)
Session.commit = commit
c.repack_pack(0)
Session.commit = orig_commit
c.close()
os._exit(0)
"""


def raw_check(folder: Path, expected_keys):
    """Return a list of problems found reading the container image without the library."""
    problems = []
    conn = sqlite3.connect(str(folder / 'packs.idx'))
    try:
        rows = conn.execute('SELECT hashkey, pack_id, offset, length, compressed FROM db_object').fetchall()
    finally:
        conn.close()
    seen = set()
    for hashkey, pack_id, offset, length, compressed in rows:
        seen.add(hashkey)
        pack_path = folder / 'packs' / str(pack_id)
        if not pack_path.exists():
            problems.append(f'{hashkey[:12]}: index row points to pack {pack_id!r}, which does not exist on disk')
            continue
        with open(pack_path, 'rb') as fhandle:
            fhandle.seek(offset)
            data = fhandle.read(length)
        assert not compressed
        if len(data) != length or hashlib.sha256(data).hexdigest() != hashkey:
            problems.append(f'{hashkey[:12]}: bytes at pack {pack_id} offset {offset} length {length} are wrong')
    for key in expected_keys:
        if key not in seen:
            problems.append(f'{key[:12]}: no index row at all')
    return problems


def main() -> int:
    import disk_objectstore

    print('using', disk_objectstore.__file__)
    failed = False
    for nth in (1, 2, 3):
        with tempfile.TemporaryDirectory() as tmp:
            folder = Path(tmp) / 'container'
            res = subprocess.run(
                [sys.executable, '-c', CHILD, str(folder), str(nth)],
                capture_output=True,
                text=True,
                timeout=50,
                check=False,
            )
            if res.returncode not in (0, 17):
                print('child failed unexpectedly:', res.returncode, res.stderr)
                return 2
            keys = res.stdout.split()
            assert len(keys) == NOBJ, keys
            expected = [k for i, k in enumerate(keys) if i not in (0, 3)]
            crashed = res.returncode == 17
            packs = sorted(p.name for p in (folder / 'packs').iterdir())
            problems = raw_check(folder, expected)
            where = f'crash before commit #{nth} of repack_pack' if crashed else 'no crash (fewer commits)'
            print(f'[{where}] pack files on disk: {packs}; problems: {len(problems)}')
            for line in problems:
                print('   ', line)
            failed = failed or bool(problems)
    if failed:
        print('PROPERTY VIOLATED: after the crash, visible keys point to bytes that are not there')
        return 1
    print('OK: at every commit boundary of repack_pack each index row points to complete bytes')
    return 0


if __name__ == '__main__':
    sys.exit(main())
