"""C18 / variant K: descriptor census around FAILED loose writes.

A stream that raises half-way through `add_streamed_object` must not leave any descriptor open inside the
container folder, even while the caller still holds on to the exception objects (e.g. it collects the
failures of a batch import to report them at the end, or a test uses `pytest.raises(...) as excinfo`).
"""
import os
import sys
import tempfile

from disk_objectstore import Container


class FailingStream:
    """Returns some data, then fails (e.g. a network stream that drops)."""

    mode = 'rb'

    def __init__(self, good_chunks):
        self._left = good_chunks

    def read(self, size=-1):
        if self._left <= 0:
            raise OSError('simulated failure of the input stream')
        self._left -= 1
        return b'x' * 1000


def fds_inside(folder):
    folder = os.path.realpath(folder)
    found = []
    for name in os.listdir('/proc/self/fd'):
        try:
            target = os.readlink(f'/proc/self/fd/{name}')
        except OSError:
            continue
        if target.startswith(folder + os.sep) or target == folder:
            found.append((int(name), target))
    return sorted(found)


def main():
    with tempfile.TemporaryDirectory() as tmp:
        folder = os.path.join(tmp, 'container')
        container = Container(folder)
        container.init_container(clear=True)
        # a first regular object, and the baseline census
        container.add_object(b'regular object')
        container.close()
        assert fds_inside(folder) == [], f'baseline not clean: {fds_inside(folder)}'

        failures = []  # the caller keeps the errors, to report them at the end of the batch
        n_failed = 20
        for idx in range(n_failed):
            try:
                container.add_streamed_object(FailingStream(good_chunks=idx % 3 + 1))
            except OSError as exc:
                failures.append(exc)
            else:
                raise AssertionError('the failing stream did not fail')
        assert len(failures) == n_failed

        # The failed writes must not have left anything in the sandbox...
        sandbox = os.listdir(os.path.join(folder, 'sandbox'))
        assert sandbox == [], f'sandbox not empty after failed writes: {sandbox}'
        # ... and the container is still perfectly usable
        hashkey = container.add_object(b'another regular object')
        assert container.get_object_content(hashkey) == b'another regular object'

        container.close()
        leaked = fds_inside(folder)
        assert not leaked, (
            f'{len(leaked)} descriptor(s) open inside the container folder after {n_failed} failed writes '
            f'and close(): {leaked[:5]}...'
        )
        print('OK: no descriptor inside the container folder after failed writes + close()')
    return 0


if __name__ == '__main__':
    sys.exit(main())
