"""C10: the requested compression mode is honoured for ALL contents, including the empty object.

- pack_all_loose(compress=True / CompressMode.YES) and repack(YES) must leave every object stored compressed;
- repack(KEEP) must leave every object in its previous form;
- AUTO may choose; NO must leave everything uncompressed;
- in all cases: content unchanged, size == len(content), pack_length == bytes occupied in the pack.
The container holds the boundary contents of the quantifier: empty, 1 byte, compressible, incompressible.
"""
import os
import sys
import tempfile
import zlib

from disk_objectstore import CompressMode, Container


def snapshot(container, contents):
    metas = dict(container.get_objects_meta(list(contents)))
    for hashkey, content in contents.items():
        assert container.get_object_content(hashkey) == content, f'content of {hashkey} changed'
        assert metas[hashkey]['size'] == len(content), f'wrong size for {hashkey}'
    on_disk = sum(container._get_pack_path_from_pack_id(p).stat().st_size for p in container._list_packs())
    assert sum(m['pack_length'] for m in metas.values()) == on_disk, 'lengths do not add up to the pack files'
    return {hashkey: meta['pack_compressed'] for hashkey, meta in metas.items()}


def expect(flags, contents, expected, label):
    for hashkey, flag in flags.items():
        want = expected[hashkey] if isinstance(expected, dict) else expected
        assert flag is want, (
            f'[{label}] object of {len(contents[hashkey])} bytes is stored with compressed={flag}, '
            f'the requested mode demands compressed={want}'
        )


def main():
    payloads = [b'', b'x', b'0123456789' * 3000, zlib.compress(bytes(range(256)) * 400, 9)]
    for first in (True, CompressMode.YES):
        with tempfile.TemporaryDirectory() as tmp:
            container = Container(os.path.join(tmp, 'c'))
            container.init_container(clear=True)
            contents = {container.add_object(payload): payload for payload in payloads}
            container.pack_all_loose(compress=first)
            container.clean_storage()
            flags = snapshot(container, contents)
            expect(flags, contents, True, f'pack_all_loose(compress={first})')

            # chain of repacks: KEEP must not change anything, YES/NO are strict, AUTO is free
            container.repack(compress_mode=CompressMode.KEEP)
            expect(snapshot(container, contents), contents, flags, 'repack KEEP after YES')
            container.repack(compress_mode=CompressMode.NO)
            expect(snapshot(container, contents), contents, False, 'repack NO')
            container.repack(compress_mode=CompressMode.AUTO)
            flags = snapshot(container, contents)
            container.repack(compress_mode=CompressMode.KEEP)
            expect(snapshot(container, contents), contents, flags, 'repack KEEP after AUTO')
            container.repack(compress_mode=CompressMode.YES)
            expect(snapshot(container, contents), contents, True, 'repack YES')
            container.close()

        # an empty object written directly to a pack in compressed form must survive KEEP in that form
        with tempfile.TemporaryDirectory() as tmp:
            container = Container(os.path.join(tmp, 'c'))
            container.init_container(clear=True)
            hashkeys = container.add_objects_to_pack(payloads, compress=True)
            contents = dict(zip(hashkeys, payloads))
            flags = snapshot(container, contents)
            expect(flags, contents, True, 'add_objects_to_pack(compress=True)')
            container.repack(compress_mode=CompressMode.KEEP)
            expect(snapshot(container, contents), contents, True, 'repack KEEP of directly packed objects')
            container.close()
    print('OK')


if __name__ == '__main__':
    try:
        main()
    except AssertionError as exc:
        print('PROPERTY VIOLATED:', exc)
        sys.exit(1)
