import io, tempfile, os
from disk_objectstore.utils import PackedObjectReader
f=io.BytesIO(b'AAAA'+b'0123456789'+b'ZZZZZZ')
f.mode='rb'
class F(io.BytesIO):
    mode='rb'
f=F(b'AAAA'+b'0123456789'+b'ZZZZZZ')
r=PackedObjectReader(f,4,10)
ref=io.BytesIO(b'0123456789')
print('seek(-3,2):',r.seek(-3,2),'ref',ref.seek(-3,2),'tell',r.tell(),ref.tell())
print(r.read(), ref.read())
try:
    print('seek(2,2)->',r.seek(2,2))
except BaseException as e:
    print('exc',type(e),e)
print('tell after',r.tell())
print('read after rejected seek:',r.read())
r2=PackedObjectReader(F(b'AAAA'+b'0123456789'+b'ZZZZZZ'),4,10)
try:
    print(r2.seek(-12,2))
except BaseException as e:
    print('exc',type(e),e)
print('tell',r2.tell()); 
try:
    print('read', r2.read(3))
except BaseException as e: print('exc', type(e), e)
