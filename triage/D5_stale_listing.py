import tempfile
from disk_objectstore import Container
d=tempfile.mkdtemp()
A=Container(d); A.init_container()
B=Container(d)
k1=B.add_object(b'one')
print('A has k1', A.has_object(k1), 'A list', list(A.list_all_objects()), A.count_objects())
k2=B.add_object(b'two')
B.pack_all_loose(); B.clean_storage()
print('B list', sorted(B.list_all_objects())==sorted([k1,k2]))
print('A list', list(A.list_all_objects()), 'expected 2 keys')
print('A count', A.count_objects(), 'B count', B.count_objects())
print('A has', A.has_objects([k1,k2]))
print('A list again', len(list(A.list_all_objects())))
