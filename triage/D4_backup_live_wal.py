import tempfile, os, logging
from pathlib import Path
from disk_objectstore import Container, backup_utils
d=tempfile.mkdtemp(); dest=tempfile.mkdtemp()
C=Container(d); C.init_container()
ks=C.add_objects_to_pack([b'a',b'bb']); C.add_object(b'loose1')
print(sorted(os.listdir(d)))
mgr=backup_utils.BackupManager(dest, keep=1)
# simulate a concurrent packer committing between packs copy (step 4) and rest copy (step 5)
orig=mgr.call_rsync
other=Container(d)
state={'n':0}
def hooked(src,dst,**kw):
    state['n']+=1
    if state['n']==4:  # before 'rest' copy
        k=other.add_objects_to_pack([b'LATE'*10])
        state['late']=k[0]
        print('late commit done; live files', sorted(os.listdir(d)))
    return orig(src,dst,**kw)
mgr.call_rsync=hooked
mgr.backup_auto_folders(lambda p,prev: backup_utils.backup_container(mgr,C,p,prev))
bdir=[x for x in os.listdir(dest) if x.startswith('backup_')][0]
print('backup contents', sorted(os.listdir(Path(dest)/bdir)))
Bk=Container(Path(dest)/bdir)
print('count', Bk.count_objects())
print('has late', Bk.has_object(state['late']))
try:
    print(Bk.get_object_content(state['late']))
except Exception as e: print('EXC', type(e), e)
try:
    print('validate', Bk.validate())
except Exception as e: print('EXC validate', type(e), e)
