import tempfile, os, sqlite3
from disk_objectstore import Container
d=tempfile.mkdtemp()
c=Container(d); c.init_container()
a=b'A'*100; b=b'B'*50; x=b'X'*70
k0=c.add_objects_to_pack([a])
ks=c.add_objects_to_pack([a,b,x],no_holes=True,no_holes_read_twice=False)
print(ks)
for k,content in zip(ks,[a,b,x]):
    got=c.get_object_content(k)
    print(k[:8], got==content, got[:10], c.get_object_meta(k))
print(os.path.getsize(d+'/packs/0'), c.get_total_size())
print(c.validate())
c.close()
