"""Forward typestate / dataflow solver over an ICFG with witness reconstruction (DESIGN 3.5)."""
from __future__ import annotations

from collections import deque


class Violation:
    def __init__(self, rule, node, state, msg, witness=None, key=None):
        self.rule = rule
        self.node = node
        self.state = state
        self.msg = msg
        self.witness = witness or []
        self.key = key

    def __repr__(self):
        return f'<violation {self.rule} at {self.node!r}: {self.msg}>'


class Machine:
    """Subclass and override. States must be hashable."""
    rule = 'RULE'
    edge_kinds = ('n',)

    def initial(self, g):
        return [()]

    def transfer(self, node, state, g):
        """Return an iterable of new states and/or Violation objects produced by executing `node` in `state`."""
        return [state]

    def edge_ok(self, edge, state, node, g):
        return True

    def edge_state(self, edge, state, node, g):
        """State after following `edge` (None = infeasible). Default: edge_ok filter."""
        return state if self.edge_ok(edge, state, node, g) else None

    def at_exit(self, node, state, g):
        """Called for states reaching g.exit (normal) or g.exc_exit; may return Violations."""
        return []


def run(g, m: Machine, max_pairs=2_000_000):
    """Explore all reachable (node, state) pairs. Returns (violations, stats)."""
    parent = {}
    seen = set()
    q = deque()
    for s0 in m.initial(g):
        key = (g.entry.id, s0)
        seen.add(key)
        parent[key] = None
        q.append((g.entry, s0))
    violations = []
    vkeys = set()
    npairs = 0
    while q:
        node, st = q.popleft()
        npairs += 1
        if npairs > max_pairs:
            raise RuntimeError('state explosion in solver')
        outs = m.transfer(node, st, g)
        for o in outs:
            if isinstance(o, Violation):
                vk = (o.rule, o.node.id if o.node is not None else None, o.msg)
                if vk not in vkeys:
                    vkeys.add(vk)
                    o.witness = witness(parent, (node.id, st), g)
                    violations.append(o)
                continue
            if node is g.exit or node is g.exc_exit:
                for v in m.at_exit(node, o, g):
                    vk = (v.rule, node.id, v.msg)
                    if vk not in vkeys:
                        vkeys.add(vk)
                        v.witness = witness(parent, (node.id, st), g)
                        violations.append(v)
            for e in node.succ:
                if e.kind not in m.edge_kinds:
                    continue
                o2 = m.edge_state(e, o, node, g)
                if o2 is None:
                    continue
                key = (e.dst.id, o2)
                if key in seen:
                    continue
                seen.add(key)
                parent[key] = (node.id, st)
                q.append((e.dst, o2))
    nodes = {k[0] for k in seen}
    return violations, {'pairs': len(seen), 'nodes': len(nodes)}


def witness(parent, key, g, limit=60):
    path = []
    while key is not None:
        path.append(key)
        key = parent.get(key)
    path.reverse()
    out = []
    last = None
    npath = len(path)
    for i, (nid, st) in enumerate(path):
        n = g.nodes[nid]
        if n.kind in ('join', 'leave', 'finally', 'loop', 'dispatch', 'jump'):
            continue
        # keep the entry function's own steps, calls into other functions, and the tail of the path verbatim
        if not (n.frame is None or n.frame.depth == 0 or i >= npath - 8 or (n.kind == 'enter' and n.frame.depth <= 1)):
            continue
        s = f'{n.where} [{n.kind}] {n.label or n.text(70)}'
        if s != last:
            out.append(s)
        last = s
    if len(out) > limit:
        out = out[:limit // 2] + [f'... ({len(out) - limit} steps omitted) ...'] + out[-limit // 2:]
    return out


def dominates_all_paths(g, start, targets, blockers, edge_kinds=('n',)):
    """True iff every path from `start` to any node in `targets` passes through a node in `blockers`."""
    seen = {start.id}
    todo = [start]
    while todo:
        n = todo.pop()
        if n.id in blockers:
            continue
        if n.id in targets:
            return False
        for e in n.succ:
            if e.kind in edge_kinds and e.dst.id not in seen:
                seen.add(e.dst.id)
                todo.append(e.dst)
    return True
