"""dosa -- disk-objectstore static analyser (pure stdlib: ast only).

Nothing in this package imports or executes ``disk_objectstore``: every verdict is computed from the
syntax trees of /repo's *current* working tree (see DESIGN.md section 3).
"""
import os

REPO = os.environ.get('DOSA_REPO', '/repo')
PKG = 'disk_objectstore'
VERIF = os.path.dirname(os.path.dirname(os.path.abspath(__file__)))


class AnalysisError(Exception):
    """The analyser cannot decide (vanished anchor, unresolvable construct): exit 2, never a VIOLATION."""


class Decided(Exception):
    """Raised instead of AnalysisError when an anchor cannot be recognised any more but the check has already found a
    decisive violation: the violations are reported (exit 1) instead of 'cannot decide'."""

    def __init__(self, chk, msg):
        super().__init__(msg)
        self.chk = chk
