"""dosa -- disk-objectstore static analyser (pure stdlib: ast only).

Nothing in this package imports or executes ``disk_objectstore``: every verdict is computed from the
syntax trees of /repo's *current* working tree (see DESIGN.md section 3).
"""
import os

REPO = os.environ.get('DOSA_REPO', '/repo')
PKG = 'disk_objectstore'
VERIF = os.path.dirname(os.path.dirname(os.path.abspath(__file__)))


class AnalysisError(Exception):
    """The analyser cannot decide (vanished anchor, unresolvable construct): exit 2, never a VIOLATION."""
