"""Frames and kind inference (repo-specific abstract values, DESIGN 3.3).

A *kind* is a small hashable term:

  ('path', owner, comps)            comps: tuple of str literals / ('slice', text) / ('dyn', text) path components
                                    below the container root of ``owner``;  ('path', None, ...) = foreign path
  ('handle', pathkind, mode, site)  an open file object; site = id of the opening call (ast node id)
  ('fd', pathkind, site)            an os-level descriptor
  ('instance', clsqualname, ctor, frame)  an instance of a class of the package
  ('session', which, owner)         SQLAlchemy session; which in {'op', 'container', 'new'}
  ('self', owner)                   a Container object
  ('const', value)
  ('tuple', (k1, k2, ...))
  ('gen', fn qualname, frame)       generator object of a package generator function
  ('ext', dotted)                   result of an external call we do not model
  ('unknown',)
A name that may hold several kinds gets ('join', frozenset(...)).
"""
from __future__ import annotations

import ast

from . import AnalysisError
from .loader import ClassInfo, FunctionInfo, Program, dotted, walk_local
from .resolve import UNKNOWN, callee_of, fold, local_names, resolve_name, scope_chain

UNK = ('unknown',)


class Frame:
    """One (possibly inlined) activation of a function."""
    _next = [0]

    def __init__(self, prog, fn, parent=None, call=None, self_kind=None, consts=None, args=None, depth=0):
        self.prog = prog
        self.fn = fn
        self.parent = parent
        self.call = call
        self.self_kind = self_kind  # kind of the receiver
        self.consts = dict(consts or {})  # formal/local name -> python constant
        self.args = dict(args or {})  # formal -> (expr, frame) actual expression in the caller frame
        self.depth = depth
        Frame._next[0] += 1
        self.id = Frame._next[0]
        self.bindings = {}  # name -> kind (with-as / for bindings computed by the builder)
        self._cache = {}
        self._busy = set()

    def chain(self):
        f, out = self, []
        while f is not None:
            out.append(f.fn.qualname)
            f = f.parent
        return list(reversed(out))

    def __repr__(self):
        return f'<frame#{self.id} {self.fn.qualname}>'


def mkjoin(kinds):
    s = set()
    for k in kinds:
        if k is None:
            continue
        if k[0] == 'join':
            s |= k[1]
        else:
            s.add(k)
    s.discard(UNK)
    if not s:
        return UNK
    if len(s) == 1:
        return next(iter(s))
    return ('join', frozenset(s))


def alts(kind):
    if kind[0] == 'join':
        return list(kind[1])
    return [kind]


def bind_call(prog, call: ast.Call, callee: FunctionInfo, frame: Frame, self_kind=None, extra_consts=None):
    """Create the callee frame for ``call`` evaluated in ``frame``: bind actuals to formals, fold constants."""
    params = callee.params
    args = {}
    pos = list(call.args) if call is not None else []
    if any(isinstance(a, ast.Starred) for a in pos):
        pos = []
    for name, a in zip(params, pos):
        args[name] = (a, frame)
    if call is not None:
        for kw in call.keywords:
            if kw.arg is not None and kw.arg in callee.all_params:
                args[kw.arg] = (kw.value, frame)
    consts = {}
    for name in params:
        if name in args:
            v = fold(prog, args[name][0], frame.fn, frame.consts)
            if v is not UNKNOWN and isinstance(v, (bool, int, str, type(None))):
                consts[name] = v
        elif name in callee.defaults:
            v = fold(prog, callee.defaults[name], callee, {})
            if v is not UNKNOWN and isinstance(v, (bool, int, str, type(None))):
                consts[name] = v
    if extra_consts:
        consts.update(extra_consts)
    return Frame(prog, callee, parent=frame, call=call, self_kind=self_kind, consts=consts, args=args,
                 depth=(frame.depth + 1 if frame is not None else 0))


class Kinds:
    def __init__(self, prog: Program):
        self.prog = prog
        self.container = prog.cls('container:Container')
        self._attr_cache = {}
        self._ret_cache = {}

    # ------------------------------------------------------------------ entry points
    def top_frame(self, fn: FunctionInfo, consts=None, owner='self'):
        sk = None
        if fn.cls is not None and not fn.is_static:
            if fn.cls is self.container:
                sk = ('self', owner)
            else:
                sk = self.instances_of(fn.cls)
        return Frame(self.prog, fn, consts=consts, self_kind=sk)

    def instances_of(self, ci, _depth=0):
        """Instance kind for a class analysed on its own: taken from its construction site(s) in the package (the
        first one when there are several -- today every stateful helper class has exactly one)."""
        key = ('inst', ci.qualname)
        if key in self._ret_cache:
            return self._ret_cache[key]
        self._ret_cache[key] = ('instance', ci.qualname, None, None)
        found = None
        if _depth < 4:
            for fn in self.prog.all_functions():
                if isinstance(fn.node, ast.Lambda):
                    continue
                for n in walk_local(fn.node):
                    if isinstance(n, ast.Call):
                        cal = callee_of(self.prog, n, fn)
                        if cal.kind == 'class' and cal.target is ci:
                            fr = self.top_frame(fn)
                            found = ('instance', ci.qualname, n, fr)
                            break
                if found:
                    break
        k = found or ('instance', ci.qualname, None, None)
        self._ret_cache[key] = k
        return k

    def kind(self, expr, frame: Frame, depth=0):
        key = (id(expr),)
        if key in frame._cache:
            return frame._cache[key]
        if key in frame._busy or depth > 40:
            return UNK
        frame._busy.add(key)
        try:
            k = self._kind(expr, frame, depth + 1)
        finally:
            frame._busy.discard(key)
        frame._cache[key] = k
        return k

    # ------------------------------------------------------------------ helpers
    def _recv_name(self, frame):
        fn = frame.fn
        top = fn
        for sc in scope_chain(fn):
            top = sc
        if top.cls is not None and not top.is_static and top.all_params:
            return top.all_params[0]
        return None

    def _kind(self, e, fr: Frame, d):
        prog = self.prog
        if isinstance(e, ast.Constant):
            return ('const', e.value)
        if isinstance(e, ast.JoinedStr):
            v = fold(prog, e, fr.fn, fr.consts)
            if v is not UNKNOWN:
                return ('const', v)
            return ('str', ast.unparse(e))
        if isinstance(e, ast.Name):
            return self._name(e.id, fr, d, e)
        if isinstance(e, ast.Attribute):
            return self._attribute(e, fr, d)
        if isinstance(e, ast.BinOp) and isinstance(e.op, ast.Div):
            l = self.kind(e.left, fr, d)
            outs = []
            for lk in alts(l):
                if lk[0] == 'path':
                    outs.append(('path', lk[1], lk[2] + (self._comp(e.right, fr, d),)))
            return mkjoin(outs) if outs else UNK
        if isinstance(e, ast.Call):
            return self._call(e, fr, d)
        if isinstance(e, ast.Tuple):
            return ('tuple', tuple(self.kind(x, fr, d) for x in e.elts))
        if isinstance(e, (ast.List, ast.Set)):
            return ('listof', mkjoin([self.kind(x, fr, d) for x in e.elts]))
        if isinstance(e, ast.IfExp):
            return mkjoin([self.kind(e.body, fr, d), self.kind(e.orelse, fr, d)])
        if isinstance(e, ast.BoolOp):
            return mkjoin([self.kind(v, fr, d) for v in e.values])
        if isinstance(e, ast.Subscript):
            b = self.kind(e.value, fr, d)
            if b[0] == 'tuple':
                i = fold(prog, e.slice, fr.fn, fr.consts)
                if isinstance(i, int) and -len(b[1]) <= i < len(b[1]):
                    return b[1][i]
            if b[0] == 'listof':
                return b[1]
            return UNK
        if isinstance(e, ast.Starred):
            return self.kind(e.value, fr, d)
        if isinstance(e, ast.NamedExpr):
            return self.kind(e.value, fr, d)
        if isinstance(e, ast.Await):
            return self.kind(e.value, fr, d)
        return UNK

    def _comp(self, e, fr, d):
        v = fold(self.prog, e, fr.fn, fr.consts)
        if isinstance(v, str):
            return v
        if isinstance(v, int) and not isinstance(v, bool):
            return str(v)
        k = self.kind(e, fr, d)
        if k[0] == 'const' and isinstance(k[1], str):
            return k[1]
        if isinstance(e, ast.Subscript) and isinstance(e.slice, ast.Slice):
            return ('slice', ast.unparse(e))
        return ('dyn', ast.unparse(e))

    # ---------------------------------------------------------- names
    def _name(self, name, fr: Frame, d, node=None):
        prog = self.prog
        if name in fr.bindings:
            return fr.bindings[name]
        fn = fr.fn
        recv = self._recv_name(fr)
        if name == recv and fr.self_kind is not None:
            return fr.self_kind
        # formal parameter of this frame?
        for sc in scope_chain(fn):
            if name in local_names(sc):
                if sc is fn:
                    return self._local(name, fr, d)
                # closure variable: evaluate in a frame of the enclosing function with the same receiver
                ofr = fr.parent if (fr.parent is not None and fr.parent.fn is sc) else Frame(prog, sc, self_kind=fr.self_kind)
                return self._local(name, ofr, d)
        r = resolve_name(prog, name, fn)
        if isinstance(r, ClassInfo):
            return ('class', r.qualname)
        if isinstance(r, FunctionInfo):
            return ('function', r.qualname)
        if isinstance(r, tuple) and r[0] == 'const':
            v = fold(prog, ast.Name(id=name, ctx=ast.Load()), fn, {})
            if v is not UNKNOWN and isinstance(v, (int, str, bool, type(None), float, bytes)):
                return ('const', v)
            return UNK
        if isinstance(r, tuple) and r[0] == 'external':
            return ('ext', r[1])
        return UNK

    def _local(self, name, fr: Frame, d):
        fn = fr.fn
        key = ('local', name)
        if key in fr._cache:
            return fr._cache[key]
        if key in fr._busy:
            return UNK
        fr._busy.add(key)
        try:
            outs = []
            if name in fr.consts:
                outs.append(('const', fr.consts[name]))
            if name in fn.all_params:
                if name in fr.args:
                    aexpr, afr = fr.args[name]
                    outs.append(self.kind(aexpr, afr, d))
                elif name in fn.defaults and fr.call is not None:
                    outs.append(self.kind(fn.defaults[name], fr, d))
                else:
                    ann = fn.annotations.get(name)
                    ak = self._annotation_kind(ann, fn, name)
                    if ak is not None:
                        outs.append(ak)
                    else:
                        outs.append(('param', fn.qualname, name))
            if not isinstance(fn.node, ast.Lambda):
                for n in walk_local(fn.node):
                    if isinstance(n, ast.Assign):
                        for t in n.targets:
                            self._bind_target(t, n.value, name, fr, d, outs)
                    elif isinstance(n, ast.AnnAssign) and n.value is not None:
                        self._bind_target(n.target, n.value, name, fr, d, outs)
                    elif isinstance(n, (ast.With, ast.AsyncWith)):
                        for it in n.items:
                            if it.optional_vars is not None:
                                self._bind_with(it, name, fr, d, outs)
                    elif isinstance(n, (ast.For, ast.AsyncFor)):
                        self._bind_for(n.target, n.iter, name, fr, d, outs)
                    elif isinstance(n, ast.NamedExpr) and isinstance(n.target, ast.Name) and n.target.id == name:
                        outs.append(self.kind(n.value, fr, d))
                    elif isinstance(n, ast.AugAssign) and isinstance(n.target, ast.Name) and n.target.id == name:
                        outs.append(('ext', 'augmented-assignment'))
                    elif isinstance(n, ast.ExceptHandler) and n.name == name:
                        outs.append(('ext', 'exception'))
            k = mkjoin(outs)
        finally:
            fr._busy.discard(key)
        fr._cache[key] = k
        return k

    def _annotation_kind(self, ann, fn, name):
        if ann is None:
            return None
        txt = ann.value if isinstance(ann, ast.Constant) and isinstance(ann.value, str) else ast.unparse(ann)
        txt = txt.strip('\'"')
        ci = self.prog.resolve_class(fn.module, txt) if txt.isidentifier() else None
        if ci is None and txt.isidentifier():
            for c in self.prog.classes.values():
                if c.name == txt:
                    ci = c
        if ci is not None:
            if ci is self.container:
                return ('self', name)
            return ('instance', ci.qualname, None, None)
        return None

    def _bind_target(self, target, value, name, fr, d, outs):
        if isinstance(target, ast.Name):
            if target.id == name:
                k = self.kind(value, fr, d)
                if not (k[0] == 'const' and k[1] is None):
                    outs.append(k)
        elif isinstance(target, (ast.Tuple, ast.List)):
            names = [t.id if isinstance(t, ast.Name) else None for t in target.elts]
            if name in names:
                k = self.kind(value, fr, d)
                i = names.index(name)
                if k[0] == 'tuple' and i < len(k[1]):
                    outs.append(k[1][i])
                else:
                    outs.append(('elem', i, k) if k != UNK else UNK)

    def _bind_with(self, item, name, fr, d, outs):
        t = item.optional_vars
        k = None
        if isinstance(t, ast.Name) and t.id == name:
            k = self.with_value(item.context_expr, fr, d)
        elif isinstance(t, (ast.Tuple, ast.List)):
            names = [x.id if isinstance(x, ast.Name) else None for x in t.elts]
            if name in names:
                wk = self.with_value(item.context_expr, fr, d)
                i = names.index(name)
                k = wk[1][i] if wk[0] == 'tuple' and i < len(wk[1]) else UNK
        if k is not None:
            outs.append(k)

    def _bind_for(self, target, it, name, fr, d, outs):
        def has(t):
            if isinstance(t, ast.Name):
                return t.id == name
            if isinstance(t, (ast.Tuple, ast.List)):
                return any(has(x) for x in t.elts)
            return False
        if has(target):
            ik = self.kind(it, fr, d)
            if isinstance(target, ast.Name):
                if ik[0] == 'listof':
                    outs.append(ik[1])
                else:
                    outs.append(('elemof', ik) if ik != UNK else UNK)
            else:
                outs.append(UNK)

    # ---------------------------------------------------------- with-values
    def with_value(self, cexpr, fr, d=0):
        """Kind bound by ``with cexpr as v``."""
        k = self.kind(cexpr, fr, d)
        outs = []
        for a in alts(k):
            if a[0] == 'handle':
                outs.append(a)
            elif a[0] == 'cm':
                # ('cm', fn qualname, frame, call): generator-based context manager -> kind of the yielded expression
                fnq, cfr = a[1], a[2]
                fi = self.prog.functions[fnq]
                ys = [n for n in walk_local(fi.node) if isinstance(n, ast.Yield)]
                outs.append(mkjoin([self.kind(y.value, cfr, d) if y.value is not None else ('const', None) for y in ys]))
            elif a[0] == 'instance':
                ci = self.prog.classes.get(a[1])
                m = self.prog.find_method(ci, '__enter__') if ci else None
                if m is not None:
                    efr = Frame(self.prog, m, self_kind=a)
                    outs.append(self.returns(m, efr, d))
                else:
                    outs.append(UNK)
            else:
                outs.append(UNK)
        return mkjoin(outs)

    def returns(self, fi: FunctionInfo, fr: Frame, d=0):
        if isinstance(fi.node, ast.Lambda):
            return self.kind(fi.node.body, fr, d)
        rs = [n for n in walk_local(fi.node) if isinstance(n, ast.Return) and n.value is not None]
        return mkjoin([self.kind(r.value, fr, d) for r in rs])

    # ---------------------------------------------------------- attributes
    def _attribute(self, e: ast.Attribute, fr: Frame, d):
        prog = self.prog
        base = self.kind(e.value, fr, d)
        outs = []
        for b in alts(base):
            if b[0] == 'self':
                outs.append(self._container_attr(b, e.attr, fr, d))
            elif b[0] == 'instance':
                outs.append(self.instance_attr(b, e.attr, d))
            elif b[0] == 'path':
                if e.attr == 'parent':
                    outs.append(('path', b[1], b[2][:-1]) if b[2] else ('path', None, (('dyn', 'parent-of-root'),)))
                elif e.attr in ('name', 'stem', 'suffix'):
                    outs.append(('str', ast.unparse(e)))
                else:
                    outs.append(UNK)
            elif b[0] == 'handle':
                if e.attr == 'name':
                    outs.append(b[1])  # the path it was opened from
                elif e.attr in ('mode',):
                    outs.append(('const', b[2]))
                else:
                    outs.append(UNK)
            elif b[0] == 'class':
                ci = prog.classes.get(b[1])
                c = prog.class_constant(ci, e.attr) if ci else None
                if c is not None:
                    v = fold(prog, e, fr.fn, fr.consts)
                    outs.append(('const', v) if v is not UNKNOWN else UNK)
                else:
                    outs.append(('classattr', b[1], e.attr))
            elif b[0] == 'ext':
                outs.append(('ext', b[1] + '.' + e.attr))
            else:
                outs.append(UNK)
        return mkjoin(outs)

    def _container_attr(self, selfk, attr, fr, d):
        prog = self.prog
        ci = self.container
        owner = selfk[1]
        if attr == '_folder':
            return ('path', owner, ())
        m = prog.find_method(ci, attr)
        if m is not None and m.is_property:
            pfr = Frame(prog, m, self_kind=selfk)
            rk = self.returns(m, pfr, d)
            if rk == UNK:
                return ('config', attr, owner)
            return rk
        if m is not None:
            return ('boundmethod', m.qualname, selfk)
        c = prog.class_constant(ci, attr)
        if c is not None:
            v = fold(prog, c, m or fr.fn, {})
            return ('const', v) if v is not UNKNOWN else UNK
        if attr == '_operation_session':
            return ('session', 'op', owner)
        if attr == '_container_session':
            return ('session', 'container', owner)
        return ('selfattr', attr, owner)

    def instance_attr(self, inst, attr, d=0):
        """Kind of ``inst.attr`` from the assignments ``self.attr = ...`` in the class body (constructor arguments are
        taken from the construction site recorded in the instance kind)."""
        key = (inst, attr)
        if key in self._attr_cache:
            return self._attr_cache[key]
        self._attr_cache[key] = UNK  # recursion guard
        prog = self.prog
        ci = prog.classes.get(inst[1])
        outs = []
        if ci is not None:
            m = prog.find_method(ci, attr)
            if m is not None and m.is_property:
                pfr = Frame(prog, m, self_kind=inst)
                outs.append(self.returns(m, pfr, d))
            elif m is not None:
                outs.append(('boundmethod', m.qualname, inst))
            else:
                for c in prog.mro(ci):
                    for meth in c.methods.values():
                        recv = meth.all_params[0] if meth.all_params and not meth.is_static else None
                        if recv is None:
                            continue
                        mfr = None
                        for n in walk_local(meth.node):
                            tgt = val = None
                            if isinstance(n, ast.Assign) and len(n.targets) == 1:
                                tgt, val = n.targets[0], n.value
                            elif isinstance(n, ast.AnnAssign) and n.value is not None:
                                tgt, val = n.target, n.value
                            if tgt is None or not (isinstance(tgt, ast.Attribute) and isinstance(tgt.value, ast.Name)
                                                   and tgt.value.id == recv and tgt.attr == attr):
                                continue
                            if isinstance(val, ast.Constant) and val.value is None:
                                continue
                            if mfr is None:
                                mfr = self._method_frame(meth, inst)
                            outs.append(self.kind(val, mfr, d))
        k = mkjoin(outs)
        self._attr_cache[key] = k
        return k

    def _method_frame(self, meth, inst):
        """Frame for evaluating a method body of ``inst`` outside any call: ``__init__`` gets the constructor actuals."""
        prog = self.prog
        if meth.name == '__init__' and inst[2] is not None:
            return bind_call(prog, inst[2], meth, inst[3], self_kind=inst)
        return Frame(prog, meth, self_kind=inst)

    # ---------------------------------------------------------- calls
    def _call(self, call: ast.Call, fr: Frame, d):
        prog = self.prog
        cal = self.resolve_call(call, fr, d)
        if cal.kind == 'class':
            ci = cal.target
            return ('instance', ci.qualname, call, fr)
        if cal.kind == 'internal':
            fi = cal.target
            sk = self._receiver_kind(cal, fr, d)
            cfr = bind_call(prog, call, fi, fr, self_kind=sk)
            if fi.is_contextmanager:
                return ('cm', fi.qualname, cfr, call)
            if fi.is_generator:
                return ('gen', fi.qualname, cfr)
            return self.returns(fi, cfr, d)
        if cal.kind == 'external':
            fq = cal.target
            if fq == 'builtins.open' or fq == 'io.open':
                p = self.kind(call.args[0], fr, d) if call.args else UNK
                mode = 'r'
                if len(call.args) > 1:
                    mv = fold(prog, call.args[1], fr.fn, fr.consts)
                    mode = mv if isinstance(mv, str) else '?'
                for kw in call.keywords:
                    if kw.arg == 'mode':
                        mv = fold(prog, kw.value, fr.fn, fr.consts)
                        if mv is UNKNOWN:
                            mk = self.kind(kw.value, fr, d)
                            mv = mk[1] if mk[0] == 'const' else '?'
                        mode = mv if isinstance(mv, str) else '?'
                    elif kw.arg == 'file':
                        p = self.kind(kw.value, fr, d)
                return ('handle', p, mode, id(call))
            if fq == 'os.open':
                p = self.kind(call.args[0], fr, d) if call.args else UNK
                return ('fd', p, id(call))
            if fq in ('pathlib.Path', 'pathlib.PurePath'):
                if call.args:
                    k = self.kind(call.args[0], fr, d)
                    outs = [a for a in alts(k) if a[0] == 'path']
                    if outs:
                        return mkjoin(outs)
                    return ('path', None, (('dyn', ast.unparse(call.args[0])),))
                return ('path', None, ())
            if fq in ('builtins.str', 'os.fspath', 'os.path.abspath', 'os.path.realpath'):
                if call.args:
                    k = self.kind(call.args[0], fr, d)
                    if any(a[0] == 'path' for a in alts(k)):
                        return k
                return UNK
            if fq in ('builtins.set', 'builtins.list', 'builtins.sorted', 'builtins.tuple', 'builtins.frozenset',
                      'builtins.iter', 'builtins.reversed'):
                if call.args:
                    return ('coll', self.kind(call.args[0], fr, d))
                return ('coll', UNK)
            if fq == 'io.BytesIO':
                return ('memstream',)
            if fq == 'sqlite3.connect':
                return ('sqlite', self.kind(call.args[0], fr, d) if call.args else UNK, id(call))
            if fq.startswith('tempfile.'):
                return ('tmp', fq, id(call))
            return ('ext', fq)
        if cal.kind == 'method':
            rk = self.kind(cal.recv, fr, d)
            outs = []
            for r in alts(rk):
                if r[0] == 'path':
                    if cal.name in ('resolve', 'absolute', 'expanduser'):
                        outs.append(r)
                    elif cal.name == 'open':
                        mode = 'r'
                        if call.args:
                            mv = fold(prog, call.args[0], fr.fn, fr.consts)
                            mode = mv if isinstance(mv, str) else '?'
                        for kw in call.keywords:
                            if kw.arg == 'mode':
                                mv = fold(prog, kw.value, fr.fn, fr.consts)
                                mode = mv if isinstance(mv, str) else '?'
                        outs.append(('handle', r, mode, id(call)))
                    elif cal.name in ('relative_to',):
                        outs.append(('relpath', r, self.kind(call.args[0], fr, d) if call.args else UNK))
                    elif cal.name in ('joinpath',):
                        outs.append(('path', r[1], r[2] + tuple(self._comp(a, fr, d) for a in call.args)))
                    elif cal.name in ('with_suffix', 'with_name'):
                        outs.append(('path', r[1], r[2][:-1] + (('dyn', ast.unparse(call)),)))
                    else:
                        outs.append(UNK)
                elif r[0] == 'session' and cal.name in ('execute', 'scalar', 'scalars'):
                    outs.append(('rows', id(call)))
                elif r[0] == 'handle' and cal.name == 'fileno':
                    outs.append(('fd', r[1], r[3]))
                elif r[0] == 'param' and cal.name == 'fileno':
                    outs.append(('fd', r, None))
                elif r[0] == 'coll' and cal.name in ('copy', 'difference', 'union', 'intersection'):
                    outs.append(r)
                else:
                    outs.append(UNK)
            return mkjoin(outs)
        return UNK

    def _receiver_kind(self, cal, fr, d):
        fi = cal.target
        if fi.cls is None or fi.is_static:
            return None
        if cal.recv is not None:
            rk = self.kind(cal.recv, fr, d)
            for r in alts(rk):
                if r[0] in ('self', 'instance'):
                    return r
        if fi.cls is self.container:
            return fr.self_kind if fr.self_kind and fr.self_kind[0] == 'self' else ('self', 'self')
        return ('instance', fi.cls.qualname, None, None)

    def resolve_call(self, call: ast.Call, fr: Frame, d=0):
        """callee_of + receiver-kind based method resolution."""
        from .resolve import Callee
        cal = callee_of(self.prog, call, fr.fn)
        if cal.kind == 'method' and cal.recv is not None:
            rk = self.kind(cal.recv, fr, d)
            cands = []
            for r in alts(rk):
                ci = None
                if r[0] == 'instance':
                    ci = self.prog.classes.get(r[1])
                elif r[0] == 'self':
                    ci = self.container
                if ci is not None:
                    m = self.prog.find_method(ci, cal.name)
                    if m is not None:
                        cands.append(m)
            if len(cands) == 1:
                return Callee('internal', cands[0], recv=cal.recv, name=cal.name)
        elif cal.kind == 'local':
            # a local variable holding a lambda / nested def / class
            k = self._name(cal.name, fr, d)
            for r in alts(k):
                if r[0] == 'class':
                    return Callee('class', self.prog.classes[r[1]], name=cal.name)
        return cal

    # ---------------------------------------------------------- classification of paths
    def area(self, pk):
        """Classify a path kind into the container areas; the area names/components are *discovered* from the
        Container helper methods (``_get_loose_folder`` etc.), not typed in."""
        if pk is None or pk[0] != 'path':
            return None
        if pk[1] is None:
            return ('foreign', pk)
        comps = pk[2]
        dirs = self.dirs()
        if not comps:
            return ('root',)
        for aname, acomps in dirs.items():
            if comps[:len(acomps)] == acomps:
                rest = comps[len(acomps):]
                return (aname, rest)
        return ('root-child', comps)

    def dirs(self):
        c = getattr(self, '_dirs', None)
        if c is not None:
            return c
        prog = self.prog
        out = {}
        table = {
            'loose': '_get_loose_folder', 'packs': '_get_pack_folder', 'duplicates': '_get_duplicates_folder',
            'sandbox': '_get_sandbox_folder', 'config': '_get_config_file', 'index': '_get_pack_index_path',
        }
        for aname, meth in table.items():
            m = prog.find_method(self.container, meth)
            if m is None:
                raise AnalysisError(f'Container.{meth} not found: cannot classify container paths')
            fr = Frame(prog, m, self_kind=('self', 'self'))
            k = self.returns(m, fr)
            if k[0] != 'path' or k[1] != 'self' or not k[2]:
                raise AnalysisError(f'Container.{meth} does not return a path below the container root: {k}')
            out[aname] = k[2]
        self._dirs = out
        return out


def kstr(k):
    """Human-readable rendering of a kind."""
    if k is None:
        return 'None'
    t = k[0]
    if t == 'path':
        comps = '/'.join(c if isinstance(c, str) else f'<{c[1]}>' for c in k[2])
        return f'{k[1] or "?"}:/{comps}'
    if t == 'handle':
        return f'handle({kstr(k[1])},{k[2]!r})'
    if t == 'fd':
        return f'fd({kstr(k[1])})'
    if t == 'join':
        return ' | '.join(sorted(kstr(x) for x in k[1]))
    if t == 'instance':
        return f'instance {k[1]}'
    if t == 'cm':
        return f'cm {k[1]}'
    if t == 'gen':
        return f'gen {k[1]}'
    if t == 'tuple':
        return '(' + ', '.join(kstr(x) for x in k[1]) + ')'
    return str(k[:3]) if len(k) > 3 else str(k)
