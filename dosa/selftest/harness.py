"""Apply text-level single edits (mutants / benign twins) to a scratch copy of the package and re-run a property's rules.

A variant is (id, property, kind, file, old, new, expect) where kind is 'mutant' (the check must report a violation of a
rule whose id starts with `expect`) or 'twin' (behaviour-preserving edit: the check must stay silent).  If the anchor text
`old` is not present in the current tree exactly once the variant is skipped (counted as such): the variants are written
against the pinned tree and are a self-test of the checker, never a verdict about /repo.
"""
from __future__ import annotations

import concurrent.futures as cf
import os
import shutil
import subprocess
import sys
import tempfile

from .. import REPO, VERIF


def scratch(repo=None):
    repo = repo or REPO
    d = tempfile.mkdtemp(prefix='dosa_variant_')
    shutil.copytree(os.path.join(repo, 'disk_objectstore'), os.path.join(d, 'disk_objectstore'), ignore=shutil.ignore_patterns('__pycache__'))
    src = os.path.join(repo, 'docs', 'pages', 'design.md')
    if os.path.exists(src):
        os.makedirs(os.path.join(d, 'docs', 'pages'))
        shutil.copy(src, os.path.join(d, 'docs', 'pages', 'design.md'))
    return d


def run_variant(v, tier='quick'):
    vid, pid, kind, fname, old, new, expect = v
    path = os.path.join(REPO, fname)
    try:
        src = open(path, encoding='utf8').read()
    except FileNotFoundError:
        return (vid, 'skipped', 'file missing')
    multi = kind.endswith('*')
    kind = kind.rstrip('*')
    if callable(old):
        # multi-site rewrite (e.g. extract-method): a function source -> source; returns None when its anchors are gone
        try:
            new_src = old(src)
        except (ValueError, AssertionError):
            new_src = None
        if new_src is None:
            return (vid, 'skipped', 'anchors of the rewrite not found')
    else:
        if src.count(old) != 1 and not (multi and src.count(old) > 1):
            return (vid, 'skipped', f'anchor occurs {src.count(old)} times')
        new_src = src.replace(old, new)
    d = scratch()
    try:
        with open(os.path.join(d, fname), 'w', encoding='utf8') as fh:
            fh.write(new_src)
        try:
            compile(new_src, fname, 'exec')
        except SyntaxError as exc:
            return (vid, 'broken', f'variant does not compile: {exc}')
        env = dict(os.environ, DOSA_REPO=d, DOSA_NO_EVIDENCE='1', DOSA_OUT=os.path.join(d, 'out'), PYTHONDONTWRITEBYTECODE='1',
                   DOSA_NO_SELFTEST='1')
        py = '/venv/bin/python' if os.path.exists('/venv/bin/python') else sys.executable
        r = subprocess.run([py, '-m', 'dosa.main', pid, '--tier', 'quick'], capture_output=True, text=True, env=env, cwd=VERIF)
        out = r.stdout + r.stderr
        rules = [l.split(' rule ')[1].split(' ')[0] for l in out.splitlines() if l.startswith('--- ') and ' rule ' in l]
        if kind == 'mutant':
            if r.returncode == 1 and any(x.startswith(expect) for x in rules):
                return (vid, 'killed', ','.join(sorted(set(rules))))
            if r.returncode == 1:
                return (vid, 'killed-other', ','.join(sorted(set(rules))))
            if r.returncode == 2:
                return (vid, 'analysis-error', [l for l in out.splitlines() if l.startswith('ANALYSIS-ERROR')][:1])
            return (vid, 'SURVIVED', '')
        else:
            if r.returncode == 0:
                return (vid, 'silent', '')
            return (vid, 'NOISY', ','.join(sorted(set(rules))) or [l for l in out.splitlines() if l.startswith('ANALYSIS-ERROR')][:1])
    finally:
        shutil.rmtree(d, ignore_errors=True)


def run_global_twin(v):
    """Global twin: rewrite the whole package (formatting normalised / locals renamed) and require silence."""
    vid, pid, kind, mode = v[0], v[1], v[2], v[3]
    from .gtwins import rewrite
    d = scratch()
    try:
        try:
            rewrite(d, mode)
        except SyntaxError as exc:
            return (vid, 'broken', f'rewrite does not compile: {exc}')
        env = dict(os.environ, DOSA_REPO=d, DOSA_NO_EVIDENCE='1', DOSA_OUT=os.path.join(d, 'out'), PYTHONDONTWRITEBYTECODE='1', DOSA_NO_SELFTEST='1')
        py = '/venv/bin/python' if os.path.exists('/venv/bin/python') else sys.executable
        r = subprocess.run([py, '-m', 'dosa.main', pid, '--tier', 'quick'], capture_output=True, text=True, env=env, cwd=VERIF)
        out = r.stdout + r.stderr
        if r.returncode == 0:
            return (vid, 'silent', '')
        rules = [l.split(' rule ')[1].split(' ')[0] for l in out.splitlines() if l.startswith('--- ') and ' rule ' in l]
        return (vid, 'NOISY', ','.join(sorted(set(rules))) or [l for l in out.splitlines() if l.startswith('ANALYSIS-ERROR')][:1])
    finally:
        shutil.rmtree(d, ignore_errors=True)


def run_all(pid=None, jobs=16, ids=None):
    from .variants import VARIANTS
    vs = [v for v in VARIANTS if (pid is None or v[1] == pid) and (ids is None or v[0] in ids)]
    pids = sorted({v[1] for v in VARIANTS}) if pid is None else [pid]
    gts = [(f'{p.lower()}-gtwin-{mode}', p, 'twin', mode, None, None, None) for p in pids for mode in ('unparse', 'rename', 'flip', 'hoist', 'cmpswap', 'elsify', 'opaque', 'swapadj', 'withmerge', 'loopify', 'walrus', 'logging')
           if ids is None or f'{p.lower()}-gtwin-{mode}' in ids]
    with cf.ThreadPoolExecutor(max_workers=jobs) as ex:
        res = list(ex.map(run_variant, vs)) + list(ex.map(run_global_twin, gts))
    return vs + gts, res


def summarise(vs, res):
    s = {'mutants_total': 0, 'mutants_killed': 0, 'twins_total': 0, 'twins_silent': 0, 'skipped': 0, 'problems': []}
    for v, r in zip(vs, res):
        if r[1] in ('skipped', 'broken'):
            s['skipped'] += 1
            continue
        if v[2].rstrip('*') == 'mutant':
            s['mutants_total'] += 1
            if r[1] in ('killed',):
                s['mutants_killed'] += 1
            else:
                s['problems'].append(r)
        else:
            s['twins_total'] += 1
            if r[1] == 'silent':
                s['twins_silent'] += 1
            else:
                s['problems'].append(r)
    return s


if __name__ == '__main__':
    pid = sys.argv[1] if len(sys.argv) > 1 and sys.argv[1] != 'all' else None
    ids = set(sys.argv[2:]) or None
    vs, res = run_all(pid, ids=ids)
    for v, r in zip(vs, res):
        print(f'{r[0]:34s} {v[1]} {v[2]:6s} {r[1]:14s} {r[2]}')
    print(summarise(vs, res))
