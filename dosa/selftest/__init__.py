"""Seeded mutants and benign twins for the checker's own test (DESIGN 3.11)."""
