"""Variant table: (id, property, kind, file, old, new, expected rule prefix).  Anchors are exact source fragments of the
pinned tree (used only to *locate* the edit in a scratch copy; the rules themselves never match on text)."""
C = 'disk_objectstore/container.py'
U = 'disk_objectstore/utils.py'
B = 'disk_objectstore/backup_utils.py'
D = 'disk_objectstore/database.py'

VARIANTS = []


def M(vid, pid, old, new, expect, f=C):
    VARIANTS.append((vid, pid, 'mutant', f, old, new, expect))


def T(vid, pid, old, new, f=C):
    VARIANTS.append((vid, pid, 'twin', f, old, new, None))


def TA(vid, pid, old, new, f=C):
    """twin that replaces every occurrence of `old` (e.g. renaming a local variable)"""
    VARIANTS.append((vid, pid, 'twin*', f, old, new, None))


def TF(vid, pids, rewrite, f=C):
    """twin given as a source -> source function (multi-site refactorings such as extract-method), registered for several properties"""
    for pid in pids:
        VARIANTS.append((f'{pid.lower()}-{vid}', pid, 'twin', f, rewrite, None, None))


# ------------------------------------------------------------------------------------------------ C06
SYNC_PAL = """                if do_fsync:
                    safe_flush_to_disk(
                        pack_handle,
                        Path(pack_handle.name).resolve(),
                        use_fullsync=True,
                    )

            # OK, if we are here, file was flushed, synced to disk and closed.
            # Note that this is only the case"""
M('c06-drop-sync-pack_all_loose', 'C06', SYNC_PAL, SYNC_PAL.replace("""                if do_fsync:
                    safe_flush_to_disk(
                        pack_handle,
                        Path(pack_handle.name).resolve(),
                        use_fullsync=True,
                    )
""", "                pass\n"), 'C06.R3')
M('c06-d1-revert-is-not-none', 'C06', "if hasattr(fcntl, 'F_FULLFSYNC') and (", "if hasattr(fcntl, 'F_FULLFSYNC') is not None and (", 'C06.R', U)
M('c06-d1-revert-else', 'C06', """
    # Flush the file itself to disk, with the function selected above
    _fsync_function(fileno)
""", """    else:
        _fsync_function(fileno)
""", None or 'C06', U)
M('c06-default-false', 'C06', """        no_holes_read_twice: bool = True,
        callback: Callable | None = None,
        do_fsync: bool = True,
        do_commit: bool = True,
    ) -> list[str]:
        \"\"\"Add objects directly to a pack, reading from a list of streams.""", """        no_holes_read_twice: bool = True,
        callback: Callable | None = None,
        do_fsync: bool = False,
        do_commit: bool = True,
    ) -> list[str]:
        \"\"\"Add objects directly to a pack, reading from a list of streams.""", 'C06.R1')
M('c06-import-literal-false', 'C06', """                            no_holes_read_twice=no_holes_read_twice,
                            do_fsync=do_fsync,
                            do_commit=False,  # I will do a final commit""", """                            no_holes_read_twice=no_holes_read_twice,
                            do_fsync=False,
                            do_commit=False,  # I will do a final commit""", 'C06.R')
M('c06-fsync-wrong-fd', 'C06', "    _fsync_function(fileno)\n\n    # Flush also the parent", "    _fsync_function(0)\n\n    # Flush also the parent", 'C06.R0', U)
M('c06-loose-no-sync', 'C06', "                safe_flush_to_disk(self._filehandle, self._obj_path)\n", "                self._filehandle.flush()\n", 'C06.R2', U)
M('c06-repack-sync-after-commit', 'C06', """            safe_flush_to_disk(
                write_pack_handle,
                self._get_pack_path_from_pack_id(self._REPACK_PACK_ID, allow_repack_pack=True),
            )
""", "", 'C06.R4')
M('c06-sync-guarded-by-compress', 'C06', """                if do_fsync:
                    safe_flush_to_disk(
                        pack_handle,
                        Path(pack_handle.name).resolve(),
                        use_fullsync=True,
                    )

            # OK, if we are here, file was flushed, synced to disk and closed.
            # Let's commit then""", """                if do_fsync and compress:
                    safe_flush_to_disk(
                        pack_handle,
                        Path(pack_handle.name).resolve(),
                        use_fullsync=True,
                    )

            # OK, if we are here, file was flushed, synced to disk and closed.
            # Let's commit then""", 'C06.R3')
T('c06-twin-rename-local', 'C06', "    fileno = fhandle.fileno()\n\n    # Flush buffers\n    fhandle.flush()", "    fileno = fhandle.fileno()\n    fhandle.flush()", U)
T('c06-twin-sync-then-log', 'C06', "    if os.name == 'posix':\n        dirfd = os.open(real_path.parent, os.O_DIRECTORY)", "    if os.name == 'posix':\n        _ = str(real_path)\n        dirfd = os.open(real_path.parent, os.O_DIRECTORY)", U)

# ------------------------------------------------------------------------------------------------ C05
M('c05-clean-before-commit', 'C05', """            session.commit()

            # If we are here, things should be guaranteed by SQLite to be written to disk.""", """            if clean_loose_per_pack and packed_in_current_pack:
                self._clean_loose_objects(packed_in_current_pack)
            session.commit()

            # If we are here, things should be guaranteed by SQLite to be written to disk.""", 'C05.R2')
M('c05-commit-inside-with', 'C05', """                    obj_dicts = []
                # I don't commit here; I commit after making sure the file is flushed and closed

                # flush and sync to disk before closing
                if do_fsync:""", """                    obj_dicts = []
                session.commit()

                # flush and sync to disk before closing
                if do_fsync:""", 'C05.R2')
M('c05-remove-old-before-commit', 'C05', """        session.bulk_update_mappings(Obj, obj_dicts)
        # I also commit.
        session.commit()""", """        session.bulk_update_mappings(Obj, obj_dicts)
        os.remove(self._get_pack_path_from_pack_id(pack_id))
        # I also commit.
        session.commit()""", 'C05.R4')
M('c05-direct-loose-write', 'C05', """        self._obj_path = self._sandbox_folder / uuid.uuid4().hex""", """        self._obj_path = self._loose_folder / uuid.uuid4().hex""", 'C05.R1', U)
M('c05-commit-in-delete-loop', 'C05', """            session.execute(stmt)
            deleted_packed.update(deleted_this_chunk)
""", """            session.execute(stmt)
            session.commit()
            deleted_packed.update(deleted_this_chunk)
""", 'C05.R5')
M('c05-delete-rows-first', 'C05', """        deleted_loose = set()
        deleted_packed = set()

        all_duplicates = os.listdir(self._get_duplicates_folder())
""", """        deleted_loose = set()
        deleted_packed = set()
        self._get_operation_session().execute(delete(Obj).where(Obj.hashkey.in_(list(hashkeys)[:900])))

        all_duplicates = os.listdir(self._get_duplicates_folder())
""", 'C05.R5')
M('c05-clean-no-refresh', 'C05', """        loose_objects = set(self._list_loose())
        # Force reload of the session to get the most up-to-date packed objects
        self.close()
""", """        loose_objects = set(self._list_loose())
""", 'C05.R3')
M('c05-reset-tracking-late', 'C05', """                    # Track this object for potential cleanup
                    packed_in_current_pack.append(loose_hashkey)
""", """                    # Track this object for potential cleanup
                    packed_in_current_pack.append(loose_hashkey)
                    obj_dicts = []
""", 'C05.R2')
M('c05-unlink-tmp-early', 'C05', """        os.link(
            self._get_pack_path_from_pack_id(self._REPACK_PACK_ID, allow_repack_pack=True),
            self._get_pack_path_from_pack_id(pack_id),
        )
""", """        os.link(
            self._get_pack_path_from_pack_id(self._REPACK_PACK_ID, allow_repack_pack=True),
            self._get_pack_path_from_pack_id(pack_id),
        )
        os.unlink(self._get_pack_path_from_pack_id(self._REPACK_PACK_ID, allow_repack_pack=True))
""", 'C05.R4')
T('c05-twin-track-before-stage', 'C05', """                    obj_dicts.append(obj_dict)

                    # Track this object for potential cleanup
                    packed_in_current_pack.append(loose_hashkey)
""", """                    # Track this object for potential cleanup
                    packed_in_current_pack.append(loose_hashkey)
                    obj_dicts.append(obj_dict)
""")
T('c05-twin-rename-lists', 'C05', """            if clean_loose_per_pack and packed_in_current_pack:
                self._clean_loose_objects(packed_in_current_pack)
        if callback:""", """            if clean_loose_per_pack and packed_in_current_pack:
                to_clean = list(packed_in_current_pack)
                self._clean_loose_objects(to_clean)
        if callback:""")
T('c05-twin-flush-before-commit', 'C05', """            session.commit()

            # If we are here, things should be guaranteed by SQLite to be written to disk.""", """            LOGGER = None
            session.commit()

            # If we are here, things should be guaranteed by SQLite to be written to disk.""")

# ------------------------------------------------------------------------------------------------ C04
M('c04-drop-fallback-refresh', 'C04', """            # slow.
            self._close_operation_session()

            packs = defaultdict(list)""", """            # slow.

            packs = defaultdict(list)""", 'C04.Pr3')
M('c04-stat-in-stream-mode', 'C04', "                        'size': os.fstat(last_open_file.fileno()).st_size,", "                        'size': obj_path.stat().st_size,", 'C04.Pr4')
M('c04-dont-catch-fnf', 'C04', """            except FileNotFoundError:
                loose_not_found.add(loose_hashkey)
                continue""", """            except PermissionError:
                loose_not_found.add(loose_hashkey)
                continue""", 'C04.Pr2')
M('c04-no-retry-loop', 'C04', """                counter += 1
                if counter > MAX_RETRIES:""", """                counter += 1
                return
                if counter > MAX_RETRIES:""", 'C04.Pl', U)
M('c04-unlink-before-commit', 'C04', """            session.commit()

            # If we are here, things should be guaranteed by SQLite to be written to disk.""", """            if clean_loose_per_pack and packed_in_current_pack:
                self._clean_loose_objects(packed_in_current_pack)
            session.commit()

            # If we are here, things should be guaranteed by SQLite to be written to disk.""", 'C04.Pp')
M('c04-query-before-refresh', 'C04', """            # slow.
            self._close_operation_session()

            packs = defaultdict(list)
            session = self._get_operation_session()""", """            # slow.
            packs = defaultdict(list)
            session = self._get_operation_session()
            self._close_operation_session()""", 'C04.Pr3')
T('c04-twin-refresh-helper', 'C04', """            # slow.
            self._close_operation_session()

            packs = defaultdict(list)""", """            # slow.
            self.close()

            packs = defaultdict(list)""")

# ------------------------------------------------------------------------------------------------ C17
M('c17-swallow-oserror-on-write', 'C17', """                    except PermissionError:
                        # This might happen if the file is being written and is locked.
                        # In this case, don't pack this file. We will pack it in a future call.
                        continue""", """                    except OSError:
                        # This might happen if the file is being written and is locked.
                        # In this case, don't pack this file. We will pack it in a future call.
                        continue""", 'C17.R2')
M('c17-stage-interrupted', 'C17', """                    except PermissionError:
                        # This might happen if the file is being written and is locked.
                        # In this case, don't pack this file. We will pack it in a future call.
                        continue""", """                    except PermissionError:
                        # This might happen if the file is being written and is locked.
                        obj_dict['size'] = 0
                        new_hashkey = loose_hashkey""", 'C17.R3')
M('c17-commit-swallowed', 'C17', """        session.commit()

        # If no error occurred, then the union is the list of all objects deleted.""", """        try:
            session.commit()
        except Exception:
            pass

        # If no error occurred, then the union is the list of all objects deleted.""", 'C17.R2')
M('c17-drop-position-check', 'C17', """        assert self._position == self._write_stream.tell(), (""", """        assert self._position >= 0, (""", 'C17.R4', U)
T('c17-twin-fnf-unlink', 'C17', """            except (FileNotFoundError, PermissionError):
                # FileNotFoundError: file might already be removed by another process""", """            except (PermissionError, FileNotFoundError):
                # FileNotFoundError: file might already be removed by another process""")

# ------------------------------------------------------------------------------------------------ C09
M('c09-d3-revert-no-truncate', 'C09', """                        pack_handle.seek(position_before)
                        pack_handle.truncate()
""", """                        pack_handle.seek(position_before)
""", 'C09.R3')
M('c09-stage-known', 'C09', """                        pack_handle.seek(position_before)
                        pack_handle.truncate()
                    else:""", """                        pack_handle.seek(position_before)
                        pack_handle.truncate()
                        obj_dicts.append(obj_dict)
                    else:""", 'C09.R4')
M('c09-skip-return-on-known', 'C09', """                                hashkeys.append(obj_dict['hashkey'])
                                continue""", """                                continue""", 'C09.R4')
M('c09-dont-remember-new', 'C09', """                        if no_holes:
                            known_packed_hashkeys.add(obj_dict['hashkey'])
""", """                        if no_holes and compress:
                            known_packed_hashkeys.add(obj_dict['hashkey'])
""", 'C09.R4')
M('c09-drop-difference-update', 'C09', """        loose_objects.difference_update(existing_packed_hashkeys)
        # Now, I should be left only""", """        # Now, I should be left only""", 'C09.R2')
M('c09-drop-or-ignore', 'C09', """                        Obj.__table__.insert().prefix_with(  # pylint: disable=no-member
                            'OR IGNORE'
                        ),""", """                        Obj.__table__.insert(),""", 'C09.R5')
M('c09-not-unique', 'C09', "hashkey = Column(String, nullable=False, unique=True, index=True)", "hashkey = Column(String, nullable=False, index=True)", 'C09.R5', D)
M('c09-trust-existing', 'C09', """                    if self._trust_existing:
                        # I trust that the object is correct: I just return""", """                    if True:
                        # I trust that the object is correct: I just return""", 'C09.R1', U)
M('c09-keep-bad-copy', 'C09', """                    if existing_checksum is None:
                        return
                    # If we are here, the file exists and has the wrong checksum. I mark this condition
                    exists_wrong_checksum = True""", """                    if existing_checksum is None:
                        return
                    return""", 'C09.R1', U)
M('c09-uuid-in-loose-name', 'C09', "                    dest_loose_object = self._loose_folder / self._hashkey\n", "                    dest_loose_object = self._loose_folder / (self._hashkey + uuid.uuid4().hex[:0])\n", 'C09.R1', U)
M('c09-seed-a-known-rebind', 'C09', """                for _, hashkey in results_chunk:
                    known_packed_hashkeys.add(hashkey)
""", """                known_packed_hashkeys = {hashkey for _, hashkey in results_chunk}
""", 'C09.R4')
M('c09-import-no-holes-false', 'C09', """            no_holes = True
            no_holes_read_twice = True
            # `hashkeys` might be""", """            no_holes = False
            no_holes_read_twice = True
            # `hashkeys` might be""", 'C09.R6')
T('c09-twin-truncate-then-tell', 'C09', """                        pack_handle.seek(position_before)
                        pack_handle.truncate()
""", """                        pack_handle.seek(position_before)
                        pack_handle.truncate()
                        _pos = pack_handle.tell()
""")
T('c09-twin-known-update', 'C09', """                for _, hashkey in results_chunk:
                    known_packed_hashkeys.add(hashkey)
""", """                known_packed_hashkeys.update(hashkey for _, hashkey in results_chunk)
""")

# ------------------------------------------------------------------------------------------------ C13
M('c13-open-wb', 'C13', "                with open(pack_file, 'ab') as pack_handle:", "                with open(pack_file, 'r+b') as pack_handle:", 'C13.R1')
M('c13-start-at-zero-size', 'C13', "            if size < self.pack_size_target:", "            if size <= self.pack_size_target:", 'C13.R2s')
M('c13-start-max', 'C13', "        pack_id = self._current_pack_id or 0\n", "        pack_id = max([int(p) for p in self._list_packs()] or [0])\n", 'C13.R2s')
M('c13-advance-two', 'C13', "            pack_id += 1\n\n        # Cache the value", "            pack_id += 2\n\n        # Cache the value", 'C13.R2s')
M('c13-consult-once', 'C13', """                    pack_int_id = self._get_pack_id_to_write_to(known_sizes={pack_int_id: pack_handle.tell()})
                    if pack_int_id != last_pack_int_id:
                        # new pack file needed!""", """                    if False:
                        # new pack file needed!""", 'C13.R2')
M('c13-no-known-size', 'C13', """                    # Update the known size for the current pack before checking which pack to use
                    pack_int_id = self._get_pack_id_to_write_to(known_sizes={pack_int_id: pack_handle.tell()})""", """                    # Update the known size for the current pack before checking which pack to use
                    pack_int_id = self._get_pack_id_to_write_to()""", 'C13.R2')
M('c13-seek-zero', 'C13', "                        pack_handle.seek(position_before)\n", "                        pack_handle.seek(0)\n", 'C13.R3')
M('c13-unlink-pack-in-clean', 'C13', """        loose_objects = set(self._list_loose())
        # Force reload of the session to get the most up-to-date packed objects
        self.close()
""", """        loose_objects = set(self._list_loose())
        for _pid in self._list_packs():
            if self._get_pack_path_from_pack_id(_pid).stat().st_size == 0:
                os.remove(self._get_pack_path_from_pack_id(_pid))
        # Force reload of the session to get the most up-to-date packed objects
        self.close()
""", 'C13.R4')
M('c13-seed-b-size-counter', 'C13', """                    pack_int_id = self._get_pack_id_to_write_to(known_sizes={pack_int_id: pack_handle.tell()})
                    if pack_int_id != last_pack_int_id:
                        # new pack file needed!""", """                    pack_int_id = self._get_pack_id_to_write_to(known_sizes={pack_int_id: loose_size if obj_dicts else 0})
                    if pack_int_id != last_pack_int_id:
                        # new pack file needed!""", 'C13.R2')
T('c13-twin-cached-tell', 'C13', """                    pack_int_id = self._get_pack_id_to_write_to(known_sizes={pack_int_id: pack_handle.tell()})
                    if pack_int_id != last_pack_int_id:
                        # new pack file needed!""", """                    current_size = pack_handle.tell()
                    pack_int_id = self._get_pack_id_to_write_to(known_sizes={pack_int_id: current_size})
                    if pack_int_id != last_pack_int_id:
                        # new pack file needed!""")
T('c13-twin-eq-else', 'C13', """                    if pack_int_id != last_pack_int_id:
                        # Break from the inner while loop. This will:""", """                    if not (pack_int_id == last_pack_int_id):
                        # Break from the inner while loop. This will:""")

# ------------------------------------------------------------------------------------------------ C07
M('c07-d2-no-upper-check', 'C07', """        if target > self._length:
            raise ValueError('specified target would exceed the upper boundary of bytes that are accessible.')
        new_pos = self._offset + target""", """        new_pos = self._offset + target""", 'C07.R1', U)
M('c07-check-before-normalise', 'C07', """        if whence == 1:
            target = self.tell() + target
        elif whence == 2:
            # Seek relative to the end
            target = self._length + target

        if target < 0:
            raise ValueError('specified target would exceed the lower boundary of bytes that are accessible.')
        if target > self._length:
            raise ValueError('specified target would exceed the upper boundary of bytes that are accessible.')
""", """        if target < 0 and whence == 0:
            raise ValueError('specified target would exceed the lower boundary of bytes that are accessible.')
        if target > self._length:
            raise ValueError('specified target would exceed the upper boundary of bytes that are accessible.')
        if whence == 1:
            target = self.tell() + target
        elif whence == 2:
            # Seek relative to the end
            target = self._length + target
""", 'C07.R1', U)
M('c07-return-relative', 'C07', """        elif whence == 2:
            # Seek relative to the end
            target = self._length + target
""", """        elif whence == 2:
            # Seek relative to the end
            target = self.tell() + target
""", 'C07.R2', U)
M('c07-read-unbounded', 'C07', "        bytes_to_fetch = min(remaining_bytes, size)\n        stream = self._fhandle.read(bytes_to_fetch)", "        bytes_to_fetch = size\n        stream = self._fhandle.read(bytes_to_fetch)", 'C07.R3', U)
M('c07-no-update-pos', 'C07', """        stream = self._fhandle.read(bytes_to_fetch)
        self._update_pos()
        return stream""", """        stream = self._fhandle.read(bytes_to_fetch)
        return stream""", 'C07.R3', U)
M('c07-whence-guard-dropped', 'C07', """        if whence not in [0, 1, 2]:
            raise ValueError('Invalid value for `whence`: only 0, 1 and 2 are currently implemented.')
""", "", 'C07.R4', U)
M('c07-proxy-flag-read-only', 'C07', """    def tell(self) -> int:
        \"\"\"Return current position in file.\"\"\"
        if self._use_uncompressed_stream:""", """    def tell(self) -> int:
        \"\"\"Return current position in file.\"\"\"
        if False:""", 'C07.R5', U)
M('c07-seed-b-buffer-not-reset', 'C07', """            self._decompressor = self.decompressobj_class()
            self._internal_buffer = b''
            self._pos = 0
            return 0""", """            self._decompressor = self.decompressobj_class()
            self._pos = 0
            return 0""", 'C07.R6', U)
M('c07-negative-after-reset', 'C07', """        if target < 0:
            raise ValueError(f'negative seek position {target}')
        if target == 0:""", """        if target == 0:""", 'C07.R5', U)
T('c07-twin-reset-helper', 'C07', """            self._decompressor = self.decompressobj_class()
            self._internal_buffer = b''
            self._pos = 0
            return 0""", """            self._pos = 0
            self._internal_buffer = b''
            self._decompressor = self.decompressobj_class()
            return 0""", U)
T('c07-twin-bounds-ge', 'C07', """        if target > self._length:
            raise ValueError('specified target would exceed the upper boundary of bytes that are accessible.')
        new_pos = self._offset + target""", """        if not target <= self._length:
            raise ValueError('specified target would exceed the upper boundary of bytes that are accessible.')
        new_pos = self._offset + target""", U)

# ------------------------------------------------------------------------------------------------ C08
M('c08-d5-revert', 'C08', """        self._close_operation_session()

        # Let us initialise a session
        session = self._get_operation_session()

        # This variable stored""", """        # Let us initialise a session
        session = self._get_operation_session()

        # This variable stored""", 'C08.R2')
M('c08-seed-a-conditional-refresh', 'C08', """        self._close_operation_session()

        # Let us initialise a session
        session = self._get_operation_session()

        # This variable stored""", """        if loose_objects:
            self._close_operation_session()

        # Let us initialise a session
        session = self._get_operation_session()

        # This variable stored""", 'C08.R2')
M('c08-count-before-listing', 'C08', """        # We get all objects that are loose, create a set
        loose_objects = set(self._list_loose())
""", """        self._close_operation_session()
        _n = self._get_operation_session().scalar(select(func.count()).select_from(Obj))
        # We get all objects that are loose, create a set
        loose_objects = set(self._list_loose())
""", 'C08.R2')
M('c08-fallback-no-refresh', 'C08', """            # slow.
            self._close_operation_session()

            packs = defaultdict(list)""", """            # slow.

            packs = defaultdict(list)""", 'C08.R1')
M('c08-new-stale-view', 'C08', """    def get_lazy_loose_stream(self, hashkey: str) -> LazyLooseStream:""", """    def list_packed_objects(self):
        return [r[0] for r in self._get_operation_session().execute(select(Obj.hashkey))]

    def get_lazy_loose_stream(self, hashkey: str) -> LazyLooseStream:""", 'C08.R')
T('c08-twin-refresh-before-listing', 'C08', """        loose_objects = set(self._list_loose())

        # Force reload of the session: since we read in WAL mode""", """        self._close_operation_session()
        loose_objects = set(self._list_loose())

        # Force reload of the session: since we read in WAL mode""")

# ------------------------------------------------------------------------------------------------ C14
M('c14-d6-revert', 'C14', """            # `hashkeys` might be a one-shot iterable (e.g. a generator): make sure it can be iterated more than once
            hashkeys = list(hashkeys)
""", "", 'C14.R1')
M('c14-loop-then-pass', 'C14', """        old_obj_hashkeys = []
        new_obj_hashkeys = []

        # We load data in this cache""", """        old_obj_hashkeys = []
        new_obj_hashkeys = []
        for _k in hashkeys:
            assert isinstance(_k, str)

        # We load data in this cache""", 'C14.R1')
M('c14-drop-final-flush', 'C14', """        # I just flush the cache if it's not empty (zip would fail in this case)
        if content_cache:
            # I create a list of hash keys and the corresponding content
            temp_old_hashkeys, data = zip(*content_cache.items())
            # I put all of them in bulk
""", """        # I just flush the cache if it's not empty (zip would fail in this case)
        if False:
            # I create a list of hash keys and the corresponding content
            temp_old_hashkeys, data = zip(*content_cache.items())
            # I put all of them in bulk
""", 'C14.R4')
M('c14-append-old-only', 'C14', """                    old_obj_hashkeys.append(old_obj_hashkey)
                    # I put this object to the pack, in streamed form, and I store the hash key""", """                    old_obj_hashkeys.append(old_obj_hashkey)
                    old_obj_hashkeys.append(old_obj_hashkey)
                    # I put this object to the pack, in streamed form, and I store the hash key""", 'C14.R4')
M('c14-fsync-false', 'C14', """                            no_holes_read_twice=no_holes_read_twice,
                            do_fsync=do_fsync,
                            do_commit=False,
                        )

                        # I update the list of known old""", """                            no_holes_read_twice=no_holes_read_twice,
                            do_fsync=False,
                            do_commit=False,
                        )

                        # I update the list of known old""", 'C14.R2')
M('c14-no-cache-reset', 'C14', """                        # Flush the content of the cache
                        content_cache = {}
                        cache_size = 0
""", """                        # Flush the content of the cache
                        cache_size = 0
""", 'C14.R4')
M('c14-both-instead-of-leftonly', 'C14', """                if where == Location.LEFTONLY:
                    hashkeys.append(item)""", """                if where != Location.RIGHTONLY:
                    hashkeys.append(item)""", 'C14.R3')
M('c14-commit-dropped', 'C14', """        self._get_operation_session().commit()

        return old_new_obj_hashkey_mapping""", """        return old_new_obj_hashkey_mapping""", 'C14.R2')
M('c14-data-mismatch', 'C14', """            temp_new_hashkeys = self.add_objects_to_pack(
                data,
                compress=compress,
                no_holes=no_holes,
                no_holes_read_twice=no_holes_read_twice,
                callback=rename_callback""", """            temp_new_hashkeys = self.add_objects_to_pack(
                sorted(data),
                compress=compress,
                no_holes=no_holes,
                no_holes_read_twice=no_holes_read_twice,
                callback=rename_callback""", 'C14.R4')
T('c14-twin-materialise-early', 'C14', """        old_obj_hashkeys = []
        new_obj_hashkeys = []

        # We load data in this cache""", """        old_obj_hashkeys = []
        new_obj_hashkeys = []
        hashkeys = list(hashkeys)

        # We load data in this cache""")

# ------------------------------------------------------------------------------------------------ C15
M('c15-d4-revert', 'C15', """            '--exclude',
            'packs.idx-wal',
""", "", 'C15.R3', B)
M('c15-packs-before-index', 'C15', """    # step 4: transfer the packed files
    packs_path_rel = packs_path.relative_to(container_root_path)
    manager.call_rsync(packs_path, path, link_dest=prev_backup)
""", """    packs_path_rel = packs_path.relative_to(container_root_path)
""", 'C15.R1', B)
M('c15-copy-live-index', 'C15', "        manager.call_rsync(sqlite_temp_loc, path, link_dest=prev_backup)", "        manager.call_rsync(sqlite_path, path, link_dest=prev_backup)", 'C15.R', B)
M('c15-rsync-ignores-exit', 'C15', "        if res.returncode != 0:\n            raise BackupError(f'rsync failed for: {src!s} to {dest!s}')", "        if res.returncode != 0:\n            LOGGER.warning('rsync failed')", 'C15.R4', B)
M('c15-swallow-backup-error', 'C15', """        backup_func(
            live_folder,
            last_folder,
        )
""", """        try:
            backup_func(
                live_folder,
                last_folder,
            )
        except BackupError:
            LOGGER.warning('backup failed')
""", 'C15.R4', B)
M('c15-drop-loose-exclude', 'C15', """            '--exclude',
            str(loose_path_rel),
            '--exclude',
            'packs.idx',""", """            '--exclude',
            'packs.idx',""", 'C15.R3', B)
T('c15-twin-glob-exclude', 'C15', """            '--exclude',
            'packs.idx',
            # also the SQLite side files (WAL mode) of the live index must not be copied:
            # the index in the backup is the consistent dump transferred in step 3
            '--exclude',
            'packs.idx-wal',
            '--exclude',
            'packs.idx-shm',""", """            '--exclude',
            'packs.idx*',""", B)

_C15_LIT = """        extra_args=[
            '--exclude',
            str(loose_path_rel),
            '--exclude',
            'packs.idx',
            # also the SQLite side files (WAL mode) of the live index must not be copied:
            # the index in the backup is the consistent dump transferred in step 3
            '--exclude',
            'packs.idx-wal',
            '--exclude',
            'packs.idx-shm',
            '--exclude',
            str(packs_path_rel),
        ],
    )"""
_C15_STEP5 = "    # step 5: transfer anything else in the container folder\n    manager.call_rsync("


def _c15_rw(prefix):
    def rw(src):
        assert src.count(_C15_STEP5) == 1 and src.count(_C15_LIT) == 1
        return src.replace(_C15_STEP5, prefix + "    manager.call_rsync(").replace(_C15_LIT, "        extra_args=rest_args,\n    )")
    return rw


T('c15-twin-loop-built-excludes', 'C15', _c15_rw("""    excluded = [str(loose_path_rel), 'packs.idx', *(f'packs.idx{sfx}' for sfx in ('-wal', '-shm')), str(packs_path_rel)]
    rest_args = []
    for name in excluded:
        rest_args += ['--exclude', name]
"""), None, B)
M('c15-loop-built-excludes-no-wal', 'C15', _c15_rw("""    excluded = [str(loose_path_rel), 'packs.idx', *(f'packs.idx{sfx}' for sfx in ('-shm',)), str(packs_path_rel)]
    rest_args = []
    for name in excluded:
        rest_args += ['--exclude', name]
"""), None, 'C15.R3', B)
M('c15-conditional-exclude', 'C15', _c15_rw("""    rest_args = ['--exclude', str(loose_path_rel), '--exclude', 'packs.idx', '--exclude', 'packs.idx-shm', '--exclude', str(packs_path_rel)]
    if prev_backup:
        rest_args += ['--exclude', 'packs.idx-wal']
"""), None, 'C15.R', B)

# ------------------------------------------------------------------------------------------------ C18
M('c18-d1-dupfd', 'C18', "if hasattr(fcntl, 'F_FULLFSYNC') and (", "if hasattr(fcntl, 'F_FULLFSYNC') is not None and (", 'C18.R3', U)
M('c18-dirfd-not-closed', 'C18', "        _fsync_function(dirfd)\n        os.close(dirfd)", "        _fsync_function(dirfd)", 'C18.R1', U)
M('c18-no-dispose', 'C18', """            binding = self._container_session.bind
            self._container_session.close()
            if isinstance(binding, Engine):
                binding.dispose()""", """            binding = self._container_session.bind
            self._container_session.close()
            if isinstance(binding, Engine):
                pass""", 'C18.R1c')
M('c18-funnel-no-close-loose', 'C18', """            finally:
                # Close each loose file, if open
                if last_open_file is not None:
                    if not last_open_file.closed:
                        last_open_file.close()
""", """            finally:
                pass
""", 'C18.R2')
M('c18-lazy-not-closed', 'C18', """                        yield metadata.hashkey, obj_reader, ObjectMeta(**meta)
                        # Here I check if the LazyLooseStream that I passed has
                        # been openeed - if so, I close it so I don't leave
                        # open file streams around
                        if lazy_loose_stream is not None and not lazy_loose_stream.closed:
                            lazy_loose_stream.close_stream()
                    else:
                        yield metadata.hashkey, ObjectMeta(**meta)
            finally:
                if last_open_file is not None:
                    if not last_open_file.closed:
                        last_open_file.close()

        # Collect loose hash keys""", """                        yield metadata.hashkey, obj_reader, ObjectMeta(**meta)
                    else:
                        yield metadata.hashkey, ObjectMeta(**meta)
            finally:
                if last_open_file is not None:
                    if not last_open_file.closed:
                        last_open_file.close()

        # Collect loose hash keys""", 'C18.R2')
M('c18-read-all-in-loop', 'C18', "            chunk = read_handle.read(self._CHUNKSIZE)\n            if chunk == b'':\n                # Returns an empty bytes object on EOF.\n                # Returns None", "            chunk = read_handle.read()\n            if chunk == b'':\n                # Returns an empty bytes object on EOF.\n                # Returns None", 'C18.R5')
M('c18-open-not-closed', 'C18', """        with open(self._get_config_file(), 'w', encoding='utf8') as fhandle:
            json.dump(""", """        fhandle = open(self._get_config_file(), 'w', encoding='utf8')
        if True:
            json.dump(""", 'C18.R1')
M('c18-stream-outside-with', 'C18', """                    obj_dict['length'] = pack_handle.tell() - obj_dict['offset']
                    # Here, we have appended the object to the pack file.""", """                    obj_dict['length'] = pack_handle.tell() - obj_dict['offset']
                    _ = stream.read(1)
                    # Here, we have appended the object to the pack file.""", 'C18.R4')
M('c18-exit-no-close', 'C18', """    def __exit__(self, exc_type: Any, exc_value: Any, traceback: Any) -> None:
        \"\"\"Close the session when exiting the context.\"\"\"
        self.close()""", """    def __exit__(self, exc_type: Any, exc_value: Any, traceback: Any) -> None:
        \"\"\"Close the session when exiting the context.\"\"\"
        self._close_operation_session()""", 'C18.R1c')
M('c18-lazyopener-no-close', 'C18', """        if self._fhandle is not None:
            if not self._fhandle.closed:
                self._fhandle.close()
        self._fhandle = None""", """        self._fhandle = None""", 'C18.R1', U)
T('c18-twin-chunk-const', 'C18', "    _CHUNKSIZE = 65536\n", "    _CHUNKSIZE = 131072\n")

# ------------------------------------------------------------------------------------------------ C01
M('c01-drop-flush', 'C01', """        if compress:
            # Write the remaining of the file, if any leftovers are still present in the
            # compressobj
            pack_handle.write(compressobj.flush())

        return (count_read_bytes""", """        return (count_read_bytes""", 'C01.R1')
M('c01-hash-compressed-chunk', 'C01', """            if hash_type:
                hasher.update(chunk)
            if compress:
                pack_handle.write(compressobj.compress(chunk))""", """            if compress:
                chunk = compressobj.compress(chunk)
            if hash_type:
                hasher.update(chunk)
            if compress:
                pack_handle.write(chunk)""", 'C01.R1')
M('c01-literal-sha256', 'C01', "                            ) = compute_hash_and_size(stream, hash_type=self.hash_type)", "                            ) = compute_hash_and_size(stream, hash_type='sha256')", 'C01.R3')
M('c01-writer-slice-literal', 'C01', """                        / self._hashkey[: self._loose_prefix_len]
                        / self._hashkey[self._loose_prefix_len :]""", """                        / self._hashkey[:2]
                        / self._hashkey[2:]""", 'C01.R4', U)
M('c01-swap-offset-length', 'C01', """                for res in session.execute(stmt):
                    packs[res[0]].append(ObjQueryResults(res[1], res[2], res[3], res[4], res[5]))
        else:
            sorted_hashkeys = sorted(hashkeys_set)""", """                for res in session.execute(stmt):
                    packs[res[0]].append(ObjQueryResults(res[1], res[3], res[2], res[4], res[5]))
        else:
            sorted_hashkeys = sorted(hashkeys_set)""", 'C01.R4')
M('c01-left-key-zero', 'C01', """            for res, where in detect_where_sorted(pack_iterator, sorted_hashkeys, left_key=lambda x: x[1]):
                if where == Location.BOTH:
                    # If it's in both, it returns the left one, i.e. the full data from the DB
                    packs[res[0]].append(ObjQueryResults(res[1], res[2], res[3], res[4], res[5]))

        for pack_int_id, pack_metadata in packs.items():
            pack_metadata.sort(key=lambda metadata: metadata.offset)
            hashkeys_in_packs.update""", """            for res, where in detect_where_sorted(pack_iterator, sorted_hashkeys, left_key=lambda x: x[0]):
                if where == Location.BOTH:
                    # If it's in both, it returns the left one, i.e. the full data from the DB
                    packs[res[0]].append(ObjQueryResults(res[1], res[2], res[3], res[4], res[5]))

        for pack_int_id, pack_metadata in packs.items():
            pack_metadata.sort(key=lambda metadata: metadata.offset)
            hashkeys_in_packs.update""", 'C01.R4')
M('c01-no-decompress-validate', 'C01', """                if compressed:
                    # I don't pass a LazyLooseStream: in the validate""", """                if False:
                    # I don't pass a LazyLooseStream: in the validate""", 'C01.R4')
M('c01-size-is-length', 'C01', """            count_read_bytes += len(chunk)
            if hash_type:""", """            count_read_bytes += 1
            if hash_type:""", 'C01.R2')
M('c01-seed-b-short-read', 'C01', """                chunk = stream.read(_read_chunk_size)
                if not chunk:
                    break
                fhandle.write(chunk)""", """                chunk = stream.read(_read_chunk_size)
                fhandle.write(chunk)
                if len(chunk) < _read_chunk_size:
                    break""", 'C01.R1')
M('c01-missing-row-key', 'C01', "                    obj_dict['compressed'] = compress\n                    obj_dict['offset'] = pack_handle.tell()", "                    obj_dict['offset'] = pack_handle.tell()", 'C01.R4')
T('c01-twin-eof-test', 'C01', """                chunk = stream.read(_read_chunk_size)
                if not chunk:
                    break
                fhandle.write(chunk)""", """                chunk = stream.read(_read_chunk_size)
                if chunk == b'':
                    break
                fhandle.write(chunk)""")
T('c01-twin-chunksize', 'C01', "        _read_chunk_size = 524288\n        writer = self._new_object_writer()", "        _read_chunk_size = 262144\n        writer = self._new_object_writer()")

M('c18-seed-b-unbounded-inflate', 'C18', "                decompressed_chunk = self._decompressor.decompress(compressed_chunk, size)", "                decompressed_chunk = self._decompressor.decompress(compressed_chunk)", 'C18.R5', U)

# ------------------------------------------------------------------------------------------------ C10
M('c10-keep-returns-false', 'C10', "        # Use the same compression type\n        return source_compressed", "        # Use the same compression type\n        return False", 'C10.R1', U)
M('c10-swap-sums', 'C10', "select(func.coalesce(func.sum(Obj.size), 0).label('total_size_packed'))", "select(func.coalesce(func.sum(Obj.length), 0).label('total_size_packed'))", 'C10.R4')
M('c10-flag-inverted', 'C10', "                                compress=obj_dict['compressed'],\n                                hash_type=hash_type,", "                                compress=not obj_dict['compressed'],\n                                hash_type=hash_type,", 'C10.R2')
M('c10-no-seek-back', 'C10', "    # Restore the stream to the initial position\n    stream.seek(initial_pos)\n", "", 'C10.R3', U)
M('c10-seed-b-decide-once', 'C10', """                    dest_compressed = should_compress(
                        source_stream=read_handle,
                        compress_mode=compress_mode,
                        source_compressed=source_compressed,
                        source_length=length,
                        source_size=size,
                    )
""", """                    if not obj_dicts or compress_mode == CompressMode.AUTO:
                        dest_compressed = should_compress(
                            source_stream=read_handle,
                            compress_mode=compress_mode,
                            source_compressed=source_compressed,
                            source_length=length,
                            source_size=size,
                        )
""", 'C10.R2')
M('c10-bool-true-to-no', 'C10', """            if compress:
                compress_mode = CompressMode.YES
            else:
                compress_mode = CompressMode.NO""", """            if compress:
                compress_mode = CompressMode.NO
            else:
                compress_mode = CompressMode.NO""", 'C10.R1')
T('c10-twin-threshold', 'C10', "    compression_threshold = 0.9\n", "    compression_threshold = 0.85\n", U)

# ------------------------------------------------------------------------------------------------ C11
M('c11-seed-a-lazy-cursor', 'C11', """            deleted_this_chunk = [res[0] for res in results]
""", """            deleted_this_chunk = results
""", 'C11.R2')
M('c11-return-request', 'C11', "        return list(deleted_loose.union(deleted_packed))", "        return list(set(hashkeys))", 'C11.R2')
M('c11-delete-first-chunk-only', 'C11', "            stmt = delete(Obj).where(Obj.hashkey.in_(chunk)).execution_options(synchronize_session=False)", "            stmt = delete(Obj).where(Obj.hashkey.in_(hashkeys[:900])).execution_options(synchronize_session=False)", 'C11.R1')
M('c11-dup-prefix', 'C11', "duplicate_fname.startswith(f'{hashkey}.')", "duplicate_fname.startswith(f'{hashkey[:8]}')", 'C11.R1')
M('c11-seed-b-no-fresh-assert', 'C11', """        assert not self._get_pack_path_from_pack_id(
            self._REPACK_PACK_ID, allow_repack_pack=True
        ).exists(), f"The repack pack '{self._REPACK_PACK_ID}' already exists, probably a previous repacking aborted?\"""", """        assert self._get_pack_path_from_pack_id(
            self._REPACK_PACK_ID, allow_repack_pack=True
        ), f"The repack pack '{self._REPACK_PACK_ID}' already exists, probably a previous repacking aborted?\"""", 'C11.R3')
M('c11-keep-empty-pack', 'C11', """            if self._get_pack_path_from_pack_id(pack_id).exists():
                os.remove(self._get_pack_path_from_pack_id(pack_id))
            return""", """            return""", 'C11.R4')
M('c11-order-by-id', 'C11', """                    .where(Obj.pack_id == pack_id)
                    .order_by(Obj.offset)
                )
                for (
                    rowid,""", """                    .where(Obj.pack_id == pack_id)
                    .order_by(Obj.id)
                )
                for (
                    rowid,""", 'C11.R3')
T('c11-twin-list-all', 'C11', "            deleted_this_chunk = [res[0] for res in results]\n", "            deleted_this_chunk = [row[0] for row in results.all()]\n")

# ------------------------------------------------------------------------------------------------ C12
M('c12-seed-a-overwrite', 'C12', """            for error_type, problematic_objects in pack_errors.items():
                all_errors[error_type] += problematic_objects""", """            all_errors.update(pack_errors)""", 'C12.R3')
M('c12-seed-b-range', 'C12', "        all_pack_ids = sorted({res[0] for res in session.execute(select(Obj.pack_id).distinct())})", "        all_pack_ids = list(range(max([res[0] for res in session.execute(select(Obj.pack_id).distinct())] or [-1]) + 1))", 'C12.R2')
M('c12-skip-compressed', 'C12', """                if computed_hash != hashkey:
                    invalid_hashes.append(hashkey)""", """                if computed_hash != hashkey and not compressed:
                    invalid_hashes.append(hashkey)""", 'C12.R2')
M('c12-drop-size-check', 'C12', """                if computed_size != size:
                    invalid_sizes.append(hashkey)
""", "", 'C12.R2')
M('c12-overlap-le', 'C12', "                if offset < current_pos:", "                if offset <= current_pos:", 'C12.R2')
M('c12-loose-not-recorded', 'C12', "                if computed_hash != hashkey:\n                    all_errors['invalid_hashes_loose'].append(hashkey)", "                if computed_hash != hashkey and callback:\n                    all_errors['invalid_hashes_loose'].append(hashkey)", 'C12.R1')
M('c12-cli-exit-zero', 'C12', "    if errors_found:\n        sys.exit(1)", "    if errors_found and verbose:\n        sys.exit(1)", 'C12.R3', 'disk_objectstore/cli.py')
T('c12-twin-rename', 'C12', "        all_pack_ids = sorted({res[0] for res in session.execute(select(Obj.pack_id).distinct())})", "        all_pack_ids = sorted({row[0] for row in session.execute(select(Obj.pack_id).distinct())})")

# ------------------------------------------------------------------------------------------------ C16
M('c16-left-key-wrong', 'C16', """            for res, where in detect_where_sorted(pack_iterator, sorted_hashkeys, left_key=lambda x: x[1]):
                if where == Location.BOTH:
                    # If it's in both, it returns the left one, i.e. the full data from the DB
                    packs[res[0]].append(ObjQueryResults(res[1], res[2], res[3], res[4], res[5]))

        for pack_int_id, pack_metadata in packs.items():
            pack_metadata.sort(key=lambda metadata: metadata.offset)
            hashkeys_in_packs""", """            for res, where in detect_where_sorted(pack_iterator, sorted_hashkeys, left_key=lambda x: x[0]):
                if where == Location.BOTH:
                    # If it's in both, it returns the left one, i.e. the full data from the DB
                    packs[res[0]].append(ObjQueryResults(res[1], res[2], res[3], res[4], res[5]))

        for pack_int_id, pack_metadata in packs.items():
            pack_metadata.sort(key=lambda metadata: metadata.offset)
            hashkeys_in_packs""", 'C16.R1')
M('c16-drop-order-by', 'C16', "            pack_iterator = session.execute(text('SELECT hashkey FROM db_object ORDER BY hashkey'))\n\n            # The query returns a tuple of length 1, so I still need a left_key\n            for res, where in detect_where_sorted(pack_iterator, sorted_hashkeys, left_key=lambda x: x[0]):\n                if where == Location.BOTH:\n                    existing_packed_hashkeys.append(res[0])\n\n        # I remove them", "            pack_iterator = session.execute(text('SELECT hashkey FROM db_object'))\n\n            # The query returns a tuple of length 1, so I still need a left_key\n            for res, where in detect_where_sorted(pack_iterator, sorted_hashkeys, left_key=lambda x: x[0]):\n                if where == Location.BOTH:\n                    existing_packed_hashkeys.append(res[0])\n\n        # I remove them", 'C16.R1')
M('c16-chunk-5000', 'C16', "    _IN_SQL_MAX_LENGTH = 950", "    _IN_SQL_MAX_LENGTH = 5000", 'C16.R')
M('c16-last-pk-first-row', 'C16', """            if not results_chunk:
                break
            last_pk = results_chunk[-1][0]""", """            if not results_chunk:
                break
            last_pk = results_chunk[0][0]""", 'C16.R3')
M('c16-paging-ge', 'C16', "            stmt = select(Obj.id, Obj.hashkey).where(Obj.id > last_pk).order_by(Obj.id).limit(yield_per_size)\n            results_chunk = session.execute(stmt).all()\n\n            for _, hashkey in results_chunk:\n                # I need to use a comma", "            stmt = select(Obj.id, Obj.hashkey).where(Obj.id >= last_pk).order_by(Obj.id).limit(yield_per_size)\n            results_chunk = session.execute(stmt).all()\n\n            for _, hashkey in results_chunk:\n                # I need to use a comma", 'C16.R3')
M('c16-drop-right-guard', 'C16', """                if new <= last_right:
                    raise ValueError(
                        f"The right iterator does not return sorted unique entries, I got '{new}' after '{last_right}'"
                    )
""", "", 'C16.R4', U)
M('c16-clean-rightonly', 'C16', """            for res, where in detect_where_sorted(pack_iterator, sorted_hashkeys, left_key=lambda x: x[0]):
                if where == Location.BOTH:
                    existing_packed_hashkeys.append(res[0])

        # I now clean up""", """            for res, where in detect_where_sorted(pack_iterator, sorted_hashkeys, left_key=lambda x: x[0]):
                if where != Location.LEFTONLY:
                    existing_packed_hashkeys.append(res[0])

        # I now clean up""", 'C16.R1')
M('c16-has-objects-set', 'C16', "        return [hashkey in existing_hashkeys for hashkey in hashkeys]", "        return [hashkey in existing_hashkeys for hashkey in set(hashkeys)]", 'C16.R2')
T('c16-twin-threshold', 'C16', "    _MAX_CHUNK_ITERATE_LENGTH = 9500", "    _MAX_CHUNK_ITERATE_LENGTH = 5000")
T('c16-twin-in-length', 'C16', "    _IN_SQL_MAX_LENGTH = 950", "    _IN_SQL_MAX_LENGTH = 900")

# ------------------------------------------------------------------------------------------------ C02
M('c02-has-objects-noskip', 'C02', "            hashkeys=hashkeys, skip_if_missing=True\n        ):\n            # Since I use skip_if_missing=True", "            hashkeys=hashkeys, skip_if_missing=False\n        ):\n            # Since I use skip_if_missing=True", 'C02.R1')
M('c02-meta-exists-shortcut', 'C02', """        counter = 0
        for (
            obj_hashkey,
            meta,
        ) in self.get_objects_meta(""", """        counter = 0
        if not self._get_loose_path_from_hashkey(hashkey).exists() and self.count_objects().packed == 0:
            raise NotExistent(f'No object with hash key {hashkey}')
        for (
            obj_hashkey,
            meta,
        ) in self.get_objects_meta(""", 'C02.R1')
M('c02-stream-skip-missing', 'C02', "        with self.get_objects_stream_and_meta(hashkeys=[hashkey], skip_if_missing=False) as triplets:", "        with self.get_objects_stream_and_meta(hashkeys=[hashkey], skip_if_missing=True) as triplets:", 'C02.R1')
M('c02-retry-from-request', 'C02', "            really_not_found = loose_not_found.copy()", "            really_not_found = hashkeys_set.copy()", 'C02.R2')
M('c02-retry-permission-error', 'C02', """            except FileNotFoundError:
                loose_not_found.add(loose_hashkey)
                continue""", """            except (FileNotFoundError, PermissionError):
                loose_not_found.add(loose_hashkey)
                continue""", 'C02.R2')
M('c02-found-update-filtered', 'C02', "            hashkeys_in_packs.update(obj.hashkey for obj in pack_metadata)", "            hashkeys_in_packs.update(obj.hashkey for obj in pack_metadata if obj.length)", 'C02.R2')
M('c02-missing-drops-retry-keys', 'C02', "                really_not_found.difference_update(obj.hashkey for obj in pack_metadata)", "                really_not_found.difference_update(loose_not_found)", 'C02.R2')
M('c02-listing-skip-empty', 'C02', """            for _, hashkey in results_chunk:
                # I need to use a comma because I want to create a tuple
                loose_objects.difference_update((hashkey,))
                yield hashkey""", """            for _, hashkey in results_chunk:
                # I need to use a comma because I want to create a tuple
                if hashkey in loose_objects:
                    loose_objects.difference_update((hashkey,))
                    continue
                yield hashkey""", 'C02.R3')
M('c02-listing-no-loose-remainder', 'C02', """        # What is left are the loose objects that are not in the packs
        for hashkey in loose_objects:
            yield hashkey""", """        # What is left are the loose objects that are not in the packs
        if last_pk < 0:
            for hashkey in loose_objects:
                yield hashkey""", 'C02.R3')
M('c02-count-filter', 'C02', "            loose=sum(1 for _ in self._list_loose()),", "            loose=sum(1 for _ in self._list_packs()),", 'C02.R3')
M('c02-count-where', 'C02', "        number_packed = self._get_operation_session().scalar(select(func.count()).select_from(Obj))", "        number_packed = self._get_operation_session().scalar(select(func.count()).select_from(Obj).where(Obj.size > 0))", 'C02.R3')
M('c02-list-loose-extra-filter', 'C02', """                    if not self._is_valid_hashkey(hashkey):
                        continue
                    yield hashkey""", """                    if not self._is_valid_hashkey(hashkey) or len(hashkey) < 40:
                        continue
                    yield hashkey""", 'C02.R3')
M('c02-pack-unlinks-loose-directly', 'C02', """            if clean_loose_per_pack and packed_in_current_pack:
                self._clean_loose_objects(packed_in_current_pack)""", """            if clean_loose_per_pack and packed_in_current_pack:
                for done_hashkey in packed_in_current_pack:
                    os.remove(self._get_loose_path_from_hashkey(done_hashkey))""", 'C02.R4')
M('c02-delete-no-where', 'C02', "            stmt = delete(Obj).where(Obj.hashkey.in_(chunk)).execution_options(synchronize_session=False)", "            stmt = delete(Obj).execution_options(synchronize_session=False)", 'C02.R4')
M('c02-clean-storage-rmtree-loose', 'C02', """        if vacuum:
            self._vacuum()
""", """        if vacuum:
            shutil.rmtree(self._get_loose_folder() / 'tmp', ignore_errors=True)
            self._vacuum()
""", 'C02.R4')
M('c02-vacuum-delete-orphans', 'C02', """    def _vacuum(self) -> None:
        \"\"\"Perform a `VACUUM` operation on the SQLite operation.""", """    def _vacuum(self) -> None:
        \"\"\"Perform a `VACUUM` operation on the SQLite operation.\"\"\"
        self._get_operation_session().execute(text('DELETE FROM db_object WHERE length = 0'))
        self._vacuum_impl()

    def _vacuum_impl(self) -> None:
        \"\"\"Perform a `VACUUM` operation on the SQLite operation.""", 'C02.R4')
M('c02-init-drop-initialised-test', 'C02', """        if self.is_initialised:
            raise FileExistsError(
                'The container already exists, so you cannot initialise it - '
                'use the clear option if you want to overwrite with a clean one'
            )
""", "", 'C02.R5')
M('c02-init-drop-empty-test', 'C02', """        if os.listdir(self._folder):
            raise FileExistsError(
                'There is already some file or folder in the Container folder, I cannot initialise it!'
            )
""", "", 'C02.R5')
M('c02-init-cache-not-reset', 'C02', """            self._config = None
            self._current_pack_id = None

        if self.is_initialised:""", """            self._config = None

        if self.is_initialised:""", 'C02.R5')
M('c02-init-rmtree-unconditional', 'C02', """        if clear:
            self.close()
            if self._folder.exists():
                shutil.rmtree(self._folder)
""", """        if clear or not self.is_initialised:
            self.close()
            if self._folder.exists():
                shutil.rmtree(self._folder)
""", 'C02.R5')
M('c02-repack-wrong-key-column', 'C02', """                for (
                    rowid,
                    hashkey,
                    size,
                    offset,
                    length,
                    source_compressed,
                ) in session.execute(stmt):""", """                for (
                    rowid,
                    size,
                    hashkey,
                    offset,
                    length,
                    source_compressed,
                ) in session.execute(stmt):""", 'C02.R6')
M('c02-repack-skip-empty-objects', 'C02', """                    obj_dict = {}
                    obj_dict['id'] = rowid
                    # no need to rehash""", """                    if not length:
                        continue
                    obj_dict = {}
                    obj_dict['id'] = rowid
                    # no need to rehash""", 'C02.R6')
M('c02-loosen-direct-copy', 'C02', """        with self.get_object_stream(hashkey) as stream:
            # This always rewrites it as loose
            written_hashkey = self.add_streamed_object(stream)
""", """        with self.get_object_stream(hashkey) as stream:
            # This always rewrites it as loose
            loose_path.parent.mkdir(exist_ok=True)
            loose_path.write_bytes(stream.read())
            written_hashkey = hashkey
""", 'C02.R')
TA('c02-twin-rename-retry-set', 'C02', "loose_not_found", "retry_keys")
T('c02-twin-listing-discard', 'C02', "                loose_objects.difference_update((hashkey,))", "                loose_objects.discard(hashkey)")
T('c02-twin-count-len-list', 'C02', "            loose=sum(1 for _ in self._list_loose()),", "            loose=len(list(self._list_loose())),")
T('c02-twin-reset-order', 'C02', """            self._config = None
            self._current_pack_id = None

        if self.is_initialised:""", """            self._current_pack_id = None
            self._config = None

        if self.is_initialised:""")
T('c02-twin-has-objects-comprehension', 'C02', """        for obj_hashkey, _ in self.get_objects_meta(  # pylint: disable=not-an-iterable
            hashkeys=hashkeys, skip_if_missing=True
        ):
            # Since I use skip_if_missing=True, I should only iterate on those that exist
            existing_hashkeys.add(obj_hashkey)
""", """        existing_hashkeys.update(obj_hashkey for obj_hashkey, _ in self.get_objects_meta(hashkeys=hashkeys, skip_if_missing=True))
""")
T('c02-twin-init-empty-check-early-return', 'C02', """        if os.listdir(self._folder):
            raise FileExistsError(
                'There is already some file or folder in the Container folder, I cannot initialise it!'
            )
""", """        existing_entries = os.listdir(self._folder)
        if existing_entries:
            raise FileExistsError(
                'There is already some file or folder in the Container folder, I cannot initialise it!'
            )
""")

# ------------------------------------------------------------------------------------------------ C03
M('c03-length-from-size', 'C03', "                    obj_dict['length'] = pack_handle.tell() - obj_dict['offset']\n\n                    # Appending for later bulk commit - see comments in add_streamed_objects_to_pack", "                    obj_dict['length'] = obj_dict['size']\n\n                    # Appending for later bulk commit - see comments in add_streamed_objects_to_pack", 'C03.R1')
M('c03-repack-copies-old-offset', 'C03', "                    obj_dict['offset'] = write_pack_handle.tell()", "                    obj_dict['offset'] = offset", 'C03.R1')
M('c03-cached-pack-end', 'C03', """                    obj_dict['offset'] = pack_handle.tell()
                    try:
                        with open(self._get_loose_path_from_hashkey(loose_hashkey), 'rb') as loose_handle:""", """                    obj_dict['offset'] = pack_end
                    try:
                        with open(self._get_loose_path_from_hashkey(loose_hashkey), 'rb') as loose_handle:""", 'C03.R1')
M('c03-drop-unique', 'C03', "    hashkey = Column(String, nullable=False, unique=True, index=True)", "    hashkey = Column(String, nullable=False, index=True)", 'C03.R3', D)
M('c03-drop-or-ignore', 'C03', """                        Obj.__table__.insert().prefix_with(  # pylint: disable=no-member
                            'OR IGNORE'
                        ),""", """                        Obj.__table__.insert(),""", 'C03.R3')
M('c03-rename-length-column', 'C03', "    length = Column(Integer, nullable=False)", "    nbytes = Column(Integer, nullable=False)", 'C03.R', D)
M('c03-rename-table', 'C03', "    __tablename__ = 'db_object'", "    __tablename__ = 'db_objects'", 'C03.R4', D)
M('c03-key-from-prepass', 'C03', """                        (
                            obj_dict['size'],
                            obj_dict['hashkey'],
                        ) = self._write_data_to_packfile(
                            pack_handle=pack_handle,
                            read_handle=stream,
                            compress=compress,
                            hash_type=self.hash_type,
                        )""", """                        known_key = obj_dict.get('hashkey')
                        (
                            obj_dict['size'],
                            written_key,
                        ) = self._write_data_to_packfile(
                            pack_handle=pack_handle,
                            read_handle=stream,
                            compress=compress,
                            hash_type=None if known_key else self.hash_type,
                        )
                        obj_dict['hashkey'] = known_key or written_key""", 'C03.R1')
M('c03-repack-replace-instead-of-link', 'C03', """        os.remove(self._get_pack_path_from_pack_id(pack_id))

        # I need now to move the file back""", """        os.replace(
            self._get_pack_path_from_pack_id(self._REPACK_PACK_ID, allow_repack_pack=True),
            self._get_pack_path_from_pack_id(pack_id),
        )

        # I need now to move the file back""", 'C03.R5')
T('c03-twin-offset-via-local', 'C03', """                    obj_dict['offset'] = pack_handle.tell()
                    try:
                        with open(self._get_loose_path_from_hashkey(loose_hashkey), 'rb') as loose_handle:""", """                    start_position = pack_handle.tell()
                    obj_dict['offset'] = start_position
                    try:
                        with open(self._get_loose_path_from_hashkey(loose_hashkey), 'rb') as loose_handle:""")
T('c03-twin-length-via-local', 'C03', "                    obj_dict['length'] = pack_handle.tell() - obj_dict['offset']\n\n                    # Appending for later bulk commit - see comments in add_streamed_objects_to_pack", "                    end_position = pack_handle.tell()\n                    obj_dict['length'] = end_position - obj_dict['offset']\n\n                    # Appending for later bulk commit - see comments in add_streamed_objects_to_pack")

# ------------------------------------------------------------------------------------------------ later additions (after seeds)
M('c05-clean-already-packed-stale', 'C05', """        if callback:
            callback(
                'init',
                {
                    'total': self.get_total_size()['total_size_loose'],""", """        if clean_loose_per_pack and existing_packed_hashkeys:
            self._clean_loose_objects(existing_packed_hashkeys)
        if callback:
            callback(
                'init',
                {
                    'total': self.get_total_size()['total_size_loose'],""", 'C05.R2')
M('c02-clean-already-packed-stale', 'C02', """        if callback:
            callback(
                'init',
                {
                    'total': self.get_total_size()['total_size_loose'],""", """        if clean_loose_per_pack and existing_packed_hashkeys:
            self._clean_loose_objects(existing_packed_hashkeys)
        if callback:
            callback(
                'init',
                {
                    'total': self.get_total_size()['total_size_loose'],""", 'C02.R4')
M('c11-empty-test-by-sum', 'C11', "        one_object_in_pack = session.execute(select(Obj.id).where(Obj.pack_id == pack_id).limit(1)).all()\n        if not one_object_in_pack:", "        one_object_in_pack = session.scalar(select(func.sum(Obj.size)).where(Obj.pack_id == pack_id))\n        if not one_object_in_pack:", 'C11.R4')
M('c02-empty-test-by-sum', 'C02', "        one_object_in_pack = session.execute(select(Obj.id).where(Obj.pack_id == pack_id).limit(1)).all()\n        if not one_object_in_pack:", "        one_object_in_pack = session.scalar(select(func.sum(Obj.size)).where(Obj.pack_id == pack_id))\n        if not one_object_in_pack:", 'C02.R6')
T('c11-twin-empty-test-by-count', 'C11', "        one_object_in_pack = session.execute(select(Obj.id).where(Obj.pack_id == pack_id).limit(1)).all()\n        if not one_object_in_pack:", "        one_object_in_pack = session.scalar(select(func.count()).select_from(Obj).where(Obj.pack_id == pack_id))\n        if not one_object_in_pack:")
M('c11-delete-loop-early-break', 'C11', """            session.execute(stmt)
            deleted_packed.update(deleted_this_chunk)
""", """            session.execute(stmt)
            deleted_packed.update(deleted_this_chunk)
            if len(deleted_loose) + len(deleted_packed) >= len(hashkeys):
                break
""", 'C11.R1')
M('c12-validate-skip-packed-loose', 'C12', "        all_loose = set(self._list_loose())\n\n        if callback:\n            callback(\n                action='init',\n                value={'total': len(all_loose), 'description': 'Loose objects'},", "        all_loose = set(self._list_loose())\n        all_loose.difference_update(self.list_all_objects() if False else [])\n\n        if callback:\n            callback(\n                action='init',\n                value={'total': len(all_loose), 'description': 'Loose objects'},", 'C12.R1')
M('c12-rows-limit', 'C12', """                .where(Obj.pack_id == pack_id)
                .order_by(Obj.offset)
            )
            for hashkey, size, offset, length, compressed in session.execute(stmt):""", """                .where(Obj.pack_id == pack_id)
                .where(Obj.length > 0)
                .order_by(Obj.offset)
            )
            for hashkey, size, offset, length, compressed in session.execute(stmt):""", 'C12.R2')
M('c10-repack-skip-transfer-empty', 'C10', """                    obj_dict['offset'] = write_pack_handle.tell()
""", """                    obj_dict['offset'] = write_pack_handle.tell()
                    if not size:
                        obj_dict['length'] = 0
                        obj_dicts.append(obj_dict)
                        continue
""", 'C10.R')
M('c17-cached-pack-end', 'C17', """                    obj_dict['offset'] = pack_handle.tell()
                    try:
                        with open(self._get_loose_path_from_hashkey(loose_hashkey), 'rb') as loose_handle:""", """                    obj_dict['offset'] = pack_end
                    try:
                        with open(self._get_loose_path_from_hashkey(loose_hashkey), 'rb') as loose_handle:""", 'C17.R3')

# ------------------------------------------------------------------------------------------------ C07 (round 2: arithmetic shape of the coordinate mapping)
M('c07-read-zero-reads-all', 'C07', "        if size is None or size < 0:\n            stream = self._fhandle.read(remaining_bytes)", "        if size is None or size <= 0:\n            stream = self._fhandle.read(remaining_bytes)", 'C07.R3', U)
M('c07-seek-off-by-one', 'C07', "        new_pos = self._offset + target\n", "        new_pos = self._offset + target - 1\n", 'C07.R7', U)
M('c07-update-pos-no-offset', 'C07', "        self._pos = self._fhandle.tell() - self._offset\n        assert", "        self._pos = self._fhandle.tell()\n        assert", 'C07.R7', U)
M('c07-decompresser-pos-not-advanced', 'C07', "        self._pos += len(to_return)\n", "        pass\n", 'C07.R8', U)
M('c07-forward-seek-overshoot', 'C07', "            content = self.read(min(read_chunk_size, target - self.tell()))", "            content = self.read(read_chunk_size)", 'C07.R8', U)
M('c07-buffer-cut-mismatch', 'C07', "            self._internal_buffer[size:],\n", "            self._internal_buffer[size + 1 :],\n", 'C07.R8', U)
M('c07-no-rewind-on-backward', 'C07', "            # (I always know how to go back to zero). Otherwise, I just continue from where I am.\n            self.seek(0)", "            # (I always know how to go back to zero). Otherwise, I just continue from where I am.\n            pass", 'C07.R8', U)
T('c07-twin-split-two-statements', 'C07', "        to_return, self._internal_buffer = (\n            self._internal_buffer[:size],\n            self._internal_buffer[size:],\n        )", "        to_return = self._internal_buffer[:size]\n        self._internal_buffer = self._internal_buffer[size:]", U)
T('c07-twin-new-pos-commuted', 'C07', "        new_pos = self._offset + target\n", "        new_pos = target + self._offset\n", U)

# ------------------------------------------------------------------------------------------------ C15 (round 2)
M('c15-dump-wrong-name', 'C15', "        sqlite_temp_loc = Path(temp_dir_name) / 'packs.idx'", "        sqlite_temp_loc = Path(temp_dir_name) / 'packs.idx.dump'", 'C15.R2', B)
M('c15-rsync-ignore-errors', 'C15', "            '-azh',\n            '--no-whole-file',\n        ]", "            '-azh',\n            '--no-whole-file',\n            '--ignore-errors',\n        ]", 'C15.R5', B)
M('c15-rsync-size-only', 'C15', "            '-azh',\n            '--no-whole-file',\n        ]", "            '-azh',\n            '--no-whole-file',\n            '--size-only',\n        ]", 'C15.R5', B)
M('c15-packs-append', 'C15', "    manager.call_rsync(packs_path, path, link_dest=prev_backup)", "    manager.call_rsync(packs_path, path, link_dest=prev_backup, extra_args=['--append'])", 'C15.R5', B)
T('c15-twin-dump-name-from-path', 'C15', "        sqlite_temp_loc = Path(temp_dir_name) / 'packs.idx'", "        sqlite_temp_loc = Path(temp_dir_name) / sqlite_path.name", B)

# ------------------------------------------------------------------------------------------------ C13 (round 2)
M('c13-cache-beyond-returned', 'C13', "        self._current_pack_id = pack_id\n        return pack_id", "        self._current_pack_id = pack_id + 1\n        return pack_id", 'C13.R2s')
M('c13-ignore-known-size', 'C13', "            if known_sizes and pack_id in known_sizes:\n                size = known_sizes[pack_id]\n            else:\n                size = pack_path.stat().st_size", "            size = pack_path.stat().st_size", 'C13.R2s')
M('c13-lock-not-exclusive', 'C13', "            with open(lock_file, 'x'):\n                with open(pack_file, 'ab') as pack_handle:", "            with open(lock_file, 'w'):\n                with open(pack_file, 'ab') as pack_handle:", 'C13.R1')

# ------------------------------------------------------------------------------------------------ C14 (round 2)
M('c14-existing-from-source', 'C14', "            sorted_loose = sorted(self._list_loose())", "            sorted_loose = sorted(source_container._list_loose())", 'C14.R5')
M('c14-read-from-self', 'C14', "        with source_container.get_objects_stream_and_meta(hashkeys) as triplets:", "        with self.get_objects_stream_and_meta(hashkeys) as triplets:", 'C14.R5')

# ------------------------------------------------------------------------------------------------ C02 (duplicates handling in clean_storage)
M('c02-dups-removed-when-primary-corrupt', 'C02', "            if computed_hash == reference_obj_hashkey:\n                # The object is in the repo", "            if computed_hash != reference_obj_hashkey:\n                # The object is in the repo", 'C02.R4')
M('c02-unverified-duplicate-restored', 'C02', "                    if computed_hash == reference_obj_hashkey:\n                        # We found a duplicate", "                    if computed_hash:\n                        # We found a duplicate", 'C02.R4')
M('c15-cli-swallows-failure', 'C15', "            click.echo(f'Error: {e}')\n            sys.exit(1)", "            click.echo(f'Error: {e}')", 'C15.R4', 'disk_objectstore/cli.py')
M('c14-missing-source-keys-not-skipped', 'C14', "        with source_container.get_objects_stream_and_meta(hashkeys) as triplets:", "        with source_container.get_objects_stream_and_meta(hashkeys, skip_if_missing=False) as triplets:", 'C14.R5')

# ------------------------------------------------------------------------------------------------ C16.R5 (abstract interpretation of the merge)
M('c16-merge-wrong-comparison', 'C16', "            elif left_key(last_left) < last_right:\n                # the new entry (last_left) is still smaller", "            elif left_key(last_left) > last_right:\n                # the new entry (last_left) is still smaller", 'C16.R5', U)
M('c16-merge-no-side-switch', 'C16', "                yield last_right, Location.RIGHTONLY\n                now_left = False", "                yield last_right, Location.RIGHTONLY", 'C16.R5', U)
M('c16-merge-both-not-advanced', 'C16', "            yield last_left, Location.BOTH\n            # I need to consume and advance on both iterators at the next iteration\n            advance_both = True\n        elif left_key(last_left) > last_right:", "            yield last_left, Location.BOTH\n        elif left_key(last_left) > last_right:", 'C16.R5', U)
M('c16-merge-stale-left-after-exhaustion', 'C16', "                left_exhausted = True\n                # I need to store in a different variable, otherwise in this case\n                # I would also enter the next iteration even if advance_both is False!\n                new_now_left = False", "                left_exhausted = True", 'C16.R5', U)
M('c16-merge-wrong-location', 'C16', "        elif left_exhausted:\n            yield last_right, Location.RIGHTONLY", "        elif left_exhausted:\n            yield last_right, Location.LEFTONLY", 'C16.R5', U)
M('c16-merge-right-not-advanced-on-both', 'C16', "        if not now_left or advance_both:\n            try:\n                new = next(right_iterator)", "        if not now_left:\n            try:\n                new = next(right_iterator)", 'C16.R5', U)
T('c16-twin-initial-side', 'C16', "    if left_exhausted or (not right_exhausted and left_key(last_left) > last_right):", "    if left_exhausted or (not right_exhausted and left_key(last_left) < last_right):", U)

# ------------------------------------------------------------------------------------------------ transaction premises (database.py)
M('c05-pragma-synchronous-off', 'C05', "        cursor.execute('PRAGMA journal_mode=wal;')", "        cursor.execute('PRAGMA journal_mode=wal;')\n        cursor.execute('PRAGMA synchronous=OFF;')", 'C05.R6', D)
M('c06-pragma-synchronous-off', 'C06', "        cursor.execute('PRAGMA journal_mode=wal;')", "        cursor.execute('PRAGMA journal_mode=wal;')\n        cursor.execute('PRAGMA synchronous=OFF;')", 'C06.R5', D)
M('c05-no-explicit-begin', 'C05', "        conn.execute(text('BEGIN'))", "        pass", 'C05.R6', D)
M('c04-no-explicit-begin', 'C04', "        conn.execute(text('BEGIN'))", "        pass", 'C04.Pdb', D)
M('c01-progress-wrapper-seek-drops-whence', 'C01', "        return self._stream.seek(target, whence)\n\n    def tell(self) -> int:\n        \"\"\"Return current stream position.\"\"\"", "        return self._stream.seek(target)\n\n    def tell(self) -> int:\n        \"\"\"Return current stream position.\"\"\"", 'C01.R1', U)

# ------------------------------------------------------------------------------------------------ option forwarding in wrappers
M('c09-wrapper-drops-no-holes', 'C09', "            stream_list=stream_list,\n            compress=compress,\n            no_holes=no_holes,", "            stream_list=stream_list,\n            compress=compress,", 'C09.R7')
M('c05-wrapper-drops-do-commit', 'C05', "            do_fsync=do_fsync,\n            do_commit=do_commit,\n        )\n\n    def loosen_object", "            do_fsync=do_fsync,\n        )\n\n    def loosen_object", 'C05.R7')
M('c02-valid-hashkey-fixed-length', 'C02', "        if not all(char in '0123456789abcdef' for char in hashkey):\n            return False\n        return True", "        if len(hashkey) != 64 or not all(char in '0123456789abcdef' for char in hashkey):\n            return False\n        return True", 'C02.R3')

# ------------------------------------------------------------------------------------------------ rules added in seeding round 3 (one-edit versions of the seeds)
M('c07-carry-over-only-relative', 'C07', "            self._lazy_uncompressed_stream.seek(self._pos, 0)\n", "            if whence == 1:\n                self._lazy_uncompressed_stream.seek(self._pos, 0)\n", 'C07.R5', U)
M('c11-delete-rmdir-parent', 'C11', "                deleted_loose.add(hashkey)\n            except FileNotFoundError:", "                deleted_loose.add(hashkey)\n                os.rmdir(self._get_loose_path_from_hashkey(hashkey).parent)\n            except FileNotFoundError:", 'C11.R1')
M('c12-sort-staged-rows', 'C12', "                if obj_dicts:\n                    # Here I shouldn't need to do `OR IGNORE`", "                if obj_dicts:\n                    obj_dicts.sort(key=lambda row: row['hashkey'])\n                    # Here I shouldn't need to do `OR IGNORE`", 'C12.R4')
M('c18-copyfileobj-object-sized-buffer', 'C18', """                        while True:
                            chunk = read_handle.read(self._CHUNKSIZE)
                            if chunk == b'':
                                # Returns an empty bytes object on EOF.
                                break
                            write_pack_handle.write(chunk)
                    else:""", """                        shutil.copyfileobj(read_handle, write_pack_handle, length)
                    else:""", 'C18.R5')
M('c09-verifier-none-on-oserror', 'C09', "    except FileNotFoundError:\n        return None\n", "    except OSError:\n        return None\n", 'C09.R1', U)
M('c01-publish-handler-widened', 'C01', "                        os.rename(self._obj_path, dest_loose_object)\n                    except FileExistsError:", "                        os.rename(self._obj_path, dest_loose_object)\n                    except (FileExistsError, PermissionError):", 'C01.R2', U)
M('c17-publish-handler-widened', 'C17', "                        os.rename(self._obj_path, dest_loose_object)\n                    except FileExistsError:", "                        os.rename(self._obj_path, dest_loose_object)\n                    except (FileExistsError, PermissionError):", 'C17.R2p', U)
M('c13-cache-not-reset-on-clear', 'C13', """            self._config = None
            self._current_pack_id = None

        if self.is_initialised:""", """            self._config = None

        if self.is_initialised:""", 'C13.R2s')
M('c16-has-object-own-fast-path', 'C16', "        return self.has_objects([hashkey])[0]", "        if self._get_loose_path_from_hashkey(hashkey).exists():\n            return True\n        return self._get_operation_session().execute(select(Obj.id).where(Obj.hashkey == hashkey).limit(1)).first() is not None", 'C16.R2')
M('c04-has-object-own-fast-path', 'C04', "        return self.has_objects([hashkey])[0]", "        if self._get_loose_path_from_hashkey(hashkey).exists():\n            return True\n        return self._get_operation_session().execute(select(Obj.id).where(Obj.hashkey == hashkey).limit(1)).first() is not None", 'C04.Pr0')
M('c05-repack-update-inside-copy-loop', 'C05', "                    obj_dicts.append(obj_dict)\n                    if callback:\n                        callback('update', obj_dict['size'])", "                    obj_dicts.append(obj_dict)\n                    if len(obj_dicts) >= 1000:\n                        session.bulk_update_mappings(Obj, obj_dicts)\n                        obj_dicts = []\n                    if callback:\n                        callback('update', obj_dict['size'])", 'C05.R4')
M('c12-validator-limited-read', 'C12', "computed_hash, computed_size = compute_hash_and_size(obj_reader, self.hash_type)", "computed_hash, computed_size = compute_hash_and_size(obj_reader, self.hash_type, size)", 'C12.R2')

# ------------------------------------------------------------------------------------------------ rules added in seeding round 4 (one-edit versions of the seeds)
M('c04-unguarded-stat-after-open', 'C04', "    def close_stream(self) -> None:\n        \"\"\"Close the underlying stream (if open).\"\"\"", "        self._loose_size = loose_path.stat().st_size\n\n    def close_stream(self) -> None:\n        \"\"\"Close the underlying stream (if open).\"\"\"", 'C04.Pt', U)
M('c01-add-object-own-fast-path', 'C01', "        stream = io.BytesIO(content)\n        return self.add_streamed_object(stream)", "        hashkey = get_hash_cls(self.hash_type)(content).hexdigest()\n        try:\n            if self._get_loose_path_from_hashkey(hashkey).stat().st_size == len(content):\n                return hashkey\n        except FileNotFoundError:\n            pass\n        stream = io.BytesIO(content)\n        return self.add_streamed_object(stream)", 'C01.R2')
M('c09-add-object-own-fast-path', 'C09', "        stream = io.BytesIO(content)\n        return self.add_streamed_object(stream)", "        hashkey = get_hash_cls(self.hash_type)(content).hexdigest()\n        try:\n            if self._get_loose_path_from_hashkey(hashkey).stat().st_size == len(content):\n                return hashkey\n        except FileNotFoundError:\n            pass\n        stream = io.BytesIO(content)\n        return self.add_streamed_object(stream)", 'C09.R1')
M('c01-funnel-rolls-back', 'C01', "        for pack_int_id, pack_metadata in packs.items():\n            pack_metadata.sort(key=lambda metadata: metadata.offset)", "        session.rollback()\n        for pack_int_id, pack_metadata in packs.items():\n            pack_metadata.sort(key=lambda metadata: metadata.offset)", 'C01.R4')
M('c02-funnel-rolls-back', 'C02', "        for pack_int_id, pack_metadata in packs.items():\n            pack_metadata.sort(key=lambda metadata: metadata.offset)", "        session.rollback()\n        for pack_int_id, pack_metadata in packs.items():\n            pack_metadata.sort(key=lambda metadata: metadata.offset)", 'C02.R4')
M('c02-total-size-resets-session', 'C02', "        retval = {}\n\n        session = self._get_operation_session()\n        # COALESCE", "        retval = {}\n\n        self._close_operation_session()\n        session = self._get_operation_session()\n        # COALESCE", 'C02.R7')
M('c03-cached-property-hash-type', 'C03', "    @property\n    def hash_type(self) -> str:", "    @functools.cached_property\n    def hash_type(self) -> str:", 'C03.R3')
M('c01-cached-property-hash-type', 'C01', "    @property\n    def hash_type(self) -> str:", "    @functools.cached_property\n    def hash_type(self) -> str:", 'C01.R3')
M('c05-pack-selector-ignores-known-size', 'C05', "            if known_sizes and pack_id in known_sizes:\n                size = known_sizes[pack_id]\n            else:\n                size = pack_path.stat().st_size", "            size = pack_path.stat().st_size", 'C05+C13.R2s')
M('c16-has-objects-dedups-request', 'C16', "        existing_hashkeys = set()\n", "        existing_hashkeys = set()\n        hashkeys = list(dict.fromkeys(hashkeys))\n", 'C16.R2')
M('c16-has-objects-filters-answers', 'C16', "        return [hashkey in existing_hashkeys for hashkey in hashkeys]", "        return [hashkey in existing_hashkeys for hashkey in hashkeys if hashkey]", 'C16.R2')
M('c09-verifier-falls-through-on-missing', 'C09', "    except FileNotFoundError:\n        return None\n\n    return hasher.hexdigest()", "    except FileNotFoundError:\n        pass\n\n    return hasher.hexdigest()", 'C09.R1', U)
M('c11-list-packs-includes-scratch', 'C11', "            if self._is_valid_pack_id(fname):\n                yield fname", "            if self._is_valid_pack_id(fname, allow_repack_pack=True):\n                yield fname", 'C11.R4')
M('c07-inflate-read-capped-at-chunk', 'C07', "        if size == 0:\n            return b''\n\n        while len(self._internal_buffer) < size:", "        if size == 0:\n            return b''\n\n        size = min(size, self._CHUNKSIZE)\n        while len(self._internal_buffer) < size:", 'C07.R10', U)
M('c07-inflate-loop-single-pass', 'C07', "            self._internal_buffer += decompressed_chunk\n", "            self._internal_buffer += decompressed_chunk\n            if decompressed_chunk:\n                break\n", 'C07.R10', U)
M('c07-lazy-loose-read-capped', 'C07', "        return self._stream.read(size)\n\n    def __enter__(self) -> LazyLooseStream:", "        return self._stream.read(min(size, 65536) if size and size > 0 else size)\n\n    def __enter__(self) -> LazyLooseStream:", 'C07.R10', U)
M('c07-loosen-writes-in-place', 'C07', "        with self.get_object_stream(hashkey) as stream:\n            # This always rewrites it as loose\n            written_hashkey = self.add_streamed_object(stream)", "        with self.get_object_stream(hashkey) as stream:\n            with open(loose_path, 'wb') as direct:\n                shutil.copyfileobj(stream, direct)\n            written_hashkey = hashkey", 'C07.R11')
M('c08-op-session-aliases-container-session', 'C08', "        if self._operation_session is None:\n            self._operation_session = get_session(\n                self._get_pack_index_path(),\n                create=False,\n            )", "        if self._operation_session is None:\n            self._operation_session = self._container_session or get_session(\n                self._get_pack_index_path(),\n                create=False,\n            )", 'C08.R5')
M('c08-op-session-dropped-unclosed', 'C08', "            binding = self._operation_session.bind\n            self._operation_session.close()\n", "            binding = self._operation_session.bind\n            if not isinstance(binding, Connection):\n                self._operation_session.close()\n", 'C08.R5')
T('c09-twin-post-write-test-only-single-pass', 'C09', "                    if no_holes and obj_dict['hashkey'] in known_packed_hashkeys:\n                        # The object is there!", "                    if no_holes and not no_holes_read_twice and obj_dict['hashkey'] in known_packed_hashkeys:\n                        # The object is there!")
T('c07-twin-upper-bound-plus-one', 'C07', "        if target > self._length:\n            raise ValueError('specified target would exceed the upper boundary of bytes that are accessible.')\n        new_pos = self._offset + target", "        if target >= self._length + 1:\n            raise ValueError('specified target would exceed the upper boundary of bytes that are accessible.')\n        new_pos = self._offset + target", U)
T('c07-twin-chained-bounds', 'C07', "        if target < 0:\n            raise ValueError('specified target would exceed the lower boundary of bytes that are accessible.')\n        if target > self._length:\n            raise ValueError('specified target would exceed the upper boundary of bytes that are accessible.')\n        new_pos = self._offset + target", "        if not 0 <= target <= self._length:\n            raise ValueError('specified target would exceed the boundaries of bytes that are accessible.')\n        new_pos = self._offset + target", U)
M('c07-seek-to-end-rejected', 'C07', "        if target > self._length:\n            raise ValueError('specified target would exceed the upper boundary of bytes that are accessible.')\n        new_pos = self._offset + target", "        if target >= self._length:\n            raise ValueError('specified target would exceed the upper boundary of bytes that are accessible.')\n        new_pos = self._offset + target", 'C07.R1', U)
M('c07-upper-bound-off-by-one', 'C07', "        if target > self._length:\n            raise ValueError('specified target would exceed the upper boundary of bytes that are accessible.')\n        new_pos = self._offset + target", "        if target > self._length + 1:\n            raise ValueError('specified target would exceed the upper boundary of bytes that are accessible.')\n        new_pos = self._offset + target", 'C07.R1', U)
T('c07-twin-tell-returns-cached-pos', 'C07', "        return self._fhandle.tell() - self._offset\n\n    def _update_pos", "        return self._pos\n\n    def _update_pos", U)
M('c07-tell-returns-pack-position', 'C07', "        return self._fhandle.tell() - self._offset\n\n    def _update_pos", "        return self._fhandle.tell()\n\n    def _update_pos", 'C07.R7', U)
M('c01-add-object-stream-at-end', 'C01', "        stream = io.BytesIO(content)\n        return self.add_streamed_object(stream)", "        stream = io.BytesIO(content)\n        stream.seek(0, 2)\n        return self.add_streamed_object(stream)", 'C01.R2')
M('c01-add-objects-to-pack-streams-consumed', 'C01', "        stream_list: list[StreamSeekBytesType] = [io.BytesIO(content) for content in content_list]\n", "        stream_list: list[StreamSeekBytesType] = [io.BytesIO(content) for content in content_list]\n        total = sum(len(stream.read()) for stream in stream_list)\n", 'C01.R2')


# ------------------------------------------------------------------------------------------------ extract-method twins (multi-site, behaviour-preserving)
def _xm_pack_prefilter(s):
    """pack_all_loose: the look-up of already indexed keys (both strategies) moves into a private helper that returns the list."""
    a = s.index("        existing_packed_hashkeys = []\n\n        if len(loose_objects) <= self._MAX_CHUNK_ITERATE_LENGTH:")
    b = s.index("        # I remove them from the loose_objects list\n")
    block = s[a:b]
    helper = ("    def _packed_among(self, session, keys):\n        \"\"\"Return the keys among `keys` that are already in the index.\"\"\"\n"
              + block.replace("loose_objects", "keys") + "        return existing_packed_hashkeys\n\n")
    s = s[:a] + "        existing_packed_hashkeys = self._packed_among(session, loose_objects)\n\n" + s[b:]
    i = s.index("    def pack_all_loose(")
    return s[:i] + helper + s[i:]


TF('xm-pack-prefilter', ['C02', 'C05', 'C06', 'C09', 'C16', 'C17', 'C18', 'C03', 'C13'], _xm_pack_prefilter)


def _xm_writer_helpers(s):
    """ObjectWriter.__exit__: the computation of the destination (mkdir of the shard + path) and the final directory fsync move into private helpers."""
    a = s.index("                if self._loose_prefix_len:\n                    parent_folder = self._loose_folder / self._hashkey[: self._loose_prefix_len]")
    b = s.index("                dest_parent_folder = dest_loose_object.parent")
    block = s[a:b]
    lines = block.split('\n')
    helper_lines = [l[8:] if l.startswith('        ') else l for l in lines]  # dedent by two levels (16 -> 8 spaces)
    helper = "    def _destination(self) -> Path:\n        \"\"\"Create the shard folder if needed and return the final path of the object.\"\"\"\n" + '\n'.join(helper_lines).rstrip() + "\n        return dest_loose_object\n\n"
    s = s[:a] + "                dest_loose_object = self._destination()\n\n" + s[b:]
    c = s.index("                if os.name == 'posix':\n                    dirfd = os.open(dest_parent_folder.parent, os.O_DIRECTORY)")
    d = s.index("        finally:\n            # I set the stored flag")
    helper2 = ("    @staticmethod\n    def _sync_folder(folder: Path) -> None:\n        \"\"\"fsync a directory (POSIX only).\"\"\"\n        if os.name == 'posix':\n"
               "            dirfd = os.open(folder, os.O_DIRECTORY)\n            os.fsync(dirfd)\n            os.close(dirfd)\n\n")
    s = s[:c] + "                self._sync_folder(dest_parent_folder.parent)\n" + s[d:]
    i = s.index("    def _store_duplicate_copy(")
    return s[:i] + helper + helper2 + s[i:]


TF('xm-writer-helpers', ['C01', 'C04', 'C05', 'C06', 'C09', 'C17', 'C18'], _xm_writer_helpers, U)

# ------------------------------------------------------------------------------------------------ round 4 batch 3
M('c11-delete-resets-session', 'C11', "        session = self._get_operation_session()\n\n        # Operate in chunks, due to the SQLite limits", "        self._close_operation_session()\n        session = self._get_operation_session()\n\n        # Operate in chunks, due to the SQLite limits", 'C11.R1')
M('c11-duplicates-listing-one-shot', 'C11', "        all_duplicates = os.listdir(self._get_duplicates_folder())\n\n        for hashkey in hashkeys:", "        all_duplicates = (name for name in os.listdir(self._get_duplicates_folder()) if not name.startswith('.'))\n\n        for hashkey in hashkeys:", 'C11.R1')
M('c16-duplicates-listing-one-shot', 'C16', "        all_duplicates = os.listdir(self._get_duplicates_folder())\n\n        for hashkey in hashkeys:", "        all_duplicates = (name for name in os.listdir(self._get_duplicates_folder()) if not name.startswith('.'))\n\n        for hashkey in hashkeys:", 'C16.R7')
M('c14-mapping-gains-untransferred-keys', 'C14', "        old_new_obj_hashkey_mapping = dict(zip(old_obj_hashkeys, new_obj_hashkeys))\n", "        old_new_obj_hashkey_mapping = dict(zip(old_obj_hashkeys, new_obj_hashkeys))\n        for key in hashkeys:\n            old_new_obj_hashkey_mapping.setdefault(key, key)\n", 'C14.R4')
M('c14-funnel-permission-error-is-missing', 'C14', "            except FileNotFoundError:\n                loose_not_found.add(loose_hashkey)\n                continue", "            except (FileNotFoundError, PermissionError):\n                loose_not_found.add(loose_hashkey)\n                continue", 'C14+C17.R2p')
M('c15-rsync-args-alias-shared-list', 'C15', "        all_args = [\n            self.rsync_exe,\n            '-azh',\n            '--no-whole-file',\n        ]", "        all_args = self._base = getattr(self, '_base', None) or [\n            self.rsync_exe,\n            '-azh',\n            '--no-whole-file',\n        ]", 'C15.R5', B)
M('c15-local-time-folder-name', 'C15', "datetime.datetime.now(datetime.timezone.utc).strftime('%Y%m%d%H%M%S')", "datetime.datetime.now().strftime('%Y%m%d%H%M%S')", 'C15.R6', B)
M('c15-day-first-folder-name', 'C15', "datetime.datetime.now(datetime.timezone.utc).strftime('%Y%m%d%H%M%S')", "datetime.datetime.now(datetime.timezone.utc).strftime('%d%m%Y%H%M%S')", 'C15.R6', B)
T('c15-twin-utc-alias', 'C15', "datetime.datetime.now(datetime.timezone.utc).strftime('%Y%m%d%H%M%S')", "datetime.datetime.now(tz=datetime.timezone.utc).strftime('%Y%m%d%H%M%S')", B)

# ------------------------------------------------------------------------------------------------ round 4 batch 4
M('c16-prefilter-mutates-iterated-set', 'C16', "                for res in session.execute(stmt):\n                    existing_packed_hashkeys.append(res[0])\n        else:\n            sorted_hashkeys = sorted(loose_objects)", "                for res in session.execute(stmt):\n                    loose_objects.discard(res[0])\n        else:\n            sorted_hashkeys = sorted(loose_objects)", 'C16.R7')
M('c16-funnel-batches-replace-per-pack-rows', 'C16', "                for res in session.execute(stmt):\n                    packs[res[0]].append(ObjQueryResults(res[1], res[2], res[3], res[4], res[5]))\n        else:\n            sorted_hashkeys = sorted(hashkeys_set)", "                for res in session.execute(stmt):\n                    packs[res[0]] = packs[res[0]][-0:] + [ObjQueryResults(res[1], res[2], res[3], res[4], res[5])]\n        else:\n            sorted_hashkeys = sorted(hashkeys_set)", 'C16.R1')
M('c17-lazy-opener-exit-returns-true', 'C17', "        if self._fhandle is not None:\n            if not self._fhandle.closed:\n                self._fhandle.close()\n        self._fhandle = None", "        if self._fhandle is not None:\n            if not self._fhandle.closed:\n                self._fhandle.close()\n        self._fhandle = None\n        return True", 'C17.R5', U)
M('c17-lock-pack-swallows', 'C17', "                with open(pack_file, 'ab') as pack_handle:\n                    yield pack_handle\n        finally:", "                with open(pack_file, 'ab') as pack_handle:\n                    yield pack_handle\n        except OSError:\n            pass\n        finally:", 'C17.R5')
M('c18-dispose-only-on-request', 'C18', "    def _close_operation_session(self) -> None:\n        if self._operation_session is not None:\n            binding = self._operation_session.bind\n            self._operation_session.close()\n            if isinstance(binding, Engine):\n                binding.dispose()", "    def _close_operation_session(self, dispose_engine: bool = True) -> None:\n        if self._operation_session is not None:\n            binding = self._operation_session.bind\n            self._operation_session.close()\n            if dispose_engine and isinstance(binding, Engine):\n                binding.dispose()", 'C18.R1c')
M('c18-loosen-through-whole-content', 'C18', "        with self.get_object_stream(hashkey) as stream:\n            # This always rewrites it as loose\n            written_hashkey = self.add_streamed_object(stream)", "        written_hashkey = self.add_object(self.get_object_content(hashkey))", 'C18.R5')
M('c05-do-commit-default-false', 'C05', "        callback: Callable | None = None,\n        callback_size_hint: int = 0,\n        do_fsync: bool = True,\n        do_commit: bool = True,", "        callback: Callable | None = None,\n        callback_size_hint: int = 0,\n        do_fsync: bool = True,\n        do_commit: bool = False,", 'C05.R7')
M('c02-mutable-default-known-keys', 'C02', "    def has_objects(self, hashkeys: list[str] | tuple[str, ...]) -> list[bool]:", "    def has_objects(self, hashkeys: list[str] | tuple[str, ...], _seen: set = set()) -> list[bool]:", 'C02.R8')
M('c02-class-level-cache', 'C02', "    _REPACK_PACK_ID = -1\n", "    _REPACK_PACK_ID = -1\n    _KNOWN_KEYS: dict = {}\n", 'C02.R8')

# ------------------------------------------------------------------------------------------------ round 5 batch 1
M('c01-known-keys-cached-on-handle', 'C01', "            known_packed_hashkeys = set()\n            # I need to get the full list of PKs", "            known_packed_hashkeys = self._known = getattr(self, '_known', None) or set()\n            # I need to get the full list of PKs", 'C01.R2')
M('c09-known-keys-cached-on-handle', 'C09', "            known_packed_hashkeys = set()\n            # I need to get the full list of PKs", "            known_packed_hashkeys = self._known = getattr(self, '_known', None) or set()\n            # I need to get the full list of PKs", 'C09.R4')
M('c01-pack-writer-getvalue-shortcut', 'C01', "        count_read_bytes = 0\n        while True:\n            chunk = read_handle.read(self._CHUNKSIZE)\n            if chunk == b'':", "        count_read_bytes = 0\n        if isinstance(read_handle, io.BytesIO):\n            pack_handle.write(read_handle.getvalue())\n        while True:\n            chunk = read_handle.read(self._CHUNKSIZE)\n            if chunk == b'':", 'C01.R1')
M('c05-funnel-drops-scratch-pack-rows', 'C05', "        for pack_int_id, pack_metadata in packs.items():\n            pack_metadata.sort(key=lambda metadata: metadata.offset)\n            hashkeys_in_packs.update", "        packs.pop(self._REPACK_PACK_ID, None)\n        for pack_int_id, pack_metadata in packs.items():\n            pack_metadata.sort(key=lambda metadata: metadata.offset)\n            hashkeys_in_packs.update", 'C05.R4')
M('c16-funnel-drops-scratch-pack-rows', 'C16', "        for pack_int_id, pack_metadata in packs.items():\n            pack_metadata.sort(key=lambda metadata: metadata.offset)\n            hashkeys_in_packs.update", "        packs.pop(self._REPACK_PACK_ID, None)\n        for pack_int_id, pack_metadata in packs.items():\n            pack_metadata.sort(key=lambda metadata: metadata.offset)\n            hashkeys_in_packs.update", 'C16.R1')
M('c02-session-reset-at-unreviewed-site', 'C02', "        number_packed = self._get_operation_session().scalar(select(func.count()).select_from(Obj))", "        self._close_operation_session()\n        number_packed = self._get_operation_session().scalar(select(func.count()).select_from(Obj))", 'C02.R7')

# ------------------------------------------------------------------------------------------------ round 5 batch 2
M('c07-lazy-loose-seek-probes-size', 'C07', "        return self._stream.seek(target, whence)\n\n    def tell(self) -> int:\n        \"\"\"Return current stream position, relative to the internal offset.\"\"\"", "        size = self._stream.seek(0, 2)\n        if target > size:\n            raise ValueError('beyond the end')\n        return self._stream.seek(target, whence)\n\n    def tell(self) -> int:\n        \"\"\"Return current stream position, relative to the internal offset.\"\"\"", 'C07.R12', U)
M('c08-fallback-missing-computed-per-pack', 'C08', "                # I remove those that I found\n                really_not_found.difference_update(obj.hashkey for obj in pack_metadata)", "                # I remove those that I found\n                really_not_found = loose_not_found.difference(obj.hashkey for obj in pack_metadata)", 'C08.R6')
M('c09-known-keys-through-second-session', 'C09', "                results_chunk = session.execute(stmt).all()", "                results_chunk = get_session(self._get_pack_index_path(), create=False).execute(stmt).all()", 'C09.R4')
M('c16-import-scan-half-open-range', 'C16', "                self._get_operation_session().execute(text('SELECT hashkey FROM db_object ORDER BY hashkey'))", "                self._get_operation_session().execute(text('SELECT hashkey FROM db_object WHERE hashkey < :last ORDER BY hashkey'), {'last': sorted_hashkeys[-1] if sorted_hashkeys else ''})", 'C16.R1')
M('c14-import-scan-half-open-range', 'C14', "                self._get_operation_session().execute(text('SELECT hashkey FROM db_object ORDER BY hashkey'))", "                self._get_operation_session().execute(text('SELECT hashkey FROM db_object WHERE hashkey < :last ORDER BY hashkey'), {'last': sorted_hashkeys[-1] if sorted_hashkeys else ''})", 'C14.R3')
M('c11-repack-skips-locked-packs', 'C11', "        for pack_id in self._list_packs():\n            self.repack_pack(pack_id, compress_mode=compress_mode, callback=callback)", "        for pack_id in self._list_packs():\n            if (self._get_pack_folder() / f'{pack_id}.lock').exists():\n                continue\n            self.repack_pack(pack_id, compress_mode=compress_mode, callback=callback)", 'C11.R4')
M('c12-validate-logs-and-continues', 'C12', "            pack_errors = self._validate_hashkeys_pack(pack_id=pack_id, callback=callback)", "            try:\n                pack_errors = self._validate_hashkeys_pack(pack_id=pack_id, callback=callback)\n            except (OSError, ValueError):\n                continue", 'C12.R3')

# ------------------------------------------------------------------------------------------------ round 5 batch 3
M('c18-close-noop-when-flagged-closed', 'C18', "        \"\"\"Close open files (in particular, the connection to the SQLite DB).\"\"\"\n        self._close_operation_session()", "        \"\"\"Close open files (in particular, the connection to the SQLite DB).\"\"\"\n        if getattr(self, '_closed', False):\n            return\n        self._closed = True\n        self._close_operation_session()", 'C18.R1c')
M('c17-clean-storage-expire-instead-of-close', 'C17', "        # Force reload of the session to get the most up-to-date packed objects\n        self.close()\n\n        session = self._get_operation_session()", "        # Force reload of the session to get the most up-to-date packed objects\n        session = self._get_operation_session()\n        session.expire_all()", 'C17+C05.R3')
M('c18-writer-leaks-handle-on-error', 'C18', "            if self._filehandle is not None and not self._filehandle.closed:\n                self._filehandle.close()\n            if self._obj_path is not None and self._obj_path.exists():", "            if self._filehandle is not None and not self._filehandle.closed:\n                pass\n            if self._obj_path is not None and self._obj_path.exists():", 'C18.R1', U)
