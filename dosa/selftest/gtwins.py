"""Whole-package behaviour-preserving rewrites ("global twins"): every check must stay silent on them.

  unparse : every module replaced by ast.unparse(ast.parse(src))  (all comments dropped, all formatting normalised)
  rename  : additionally every local variable of every function (not parameters, not globals/attributes) renamed x -> x_r
"""
import ast
import os


class Renamer(ast.NodeTransformer):
    def __init__(self):
        self.stack = []  # list of sets of local names (function scopes)

    def _locals(self, fn):
        params = {a.arg for a in fn.args.posonlyargs + fn.args.args + fn.args.kwonlyargs}
        if fn.args.vararg:
            params.add(fn.args.vararg.arg)
        if fn.args.kwarg:
            params.add(fn.args.kwarg.arg)
        declared = set()
        stores = set()

        def walk(n, top=True):
            for ch in ast.iter_child_nodes(n):
                if isinstance(ch, (ast.FunctionDef, ast.AsyncFunctionDef, ast.Lambda, ast.ClassDef)):
                    if isinstance(ch, (ast.FunctionDef, ast.AsyncFunctionDef, ast.ClassDef)):
                        pass  # the def name itself is a local binding, but keep function names stable
                    continue
                if isinstance(ch, (ast.Global, ast.Nonlocal)):
                    declared.update(ch.names)
                if isinstance(ch, ast.Name) and isinstance(ch.ctx, (ast.Store, ast.Del)):
                    stores.add(ch.id)
                if isinstance(ch, ast.ExceptHandler) and ch.name:
                    pass  # handler names are str attributes, leave them
                walk(ch, False)
        walk(fn)
        handler_names = {h.name for h in ast.walk(fn) if isinstance(h, ast.ExceptHandler) and h.name}
        with_import = {a.asname or a.name.split('.')[0] for n in ast.walk(fn) if isinstance(n, (ast.Import, ast.ImportFrom)) for a in n.names}
        return {s for s in stores if s not in params and s not in declared and s not in handler_names and s not in with_import and not s.startswith('__')}

    def visit_FunctionDef(self, node):
        self.stack.append(self._locals(node))
        self.generic_visit(node)
        self.stack.pop()
        return node

    visit_AsyncFunctionDef = visit_FunctionDef

    def visit_Lambda(self, node):
        self.stack.append(set())
        self.generic_visit(node)
        self.stack.pop()
        return node

    def visit_ClassDef(self, node):
        # class body scope: names bound there are attributes; functions inside do not see them as free variables
        saved = self.stack
        self.stack = []
        self.generic_visit(node)
        self.stack = saved
        return node

    def visit_Name(self, node):
        if any(node.id in s for s in self.stack):
            # a parameter of an inner scope with the same name shadows: check innermost scopes' params is overkill here because
            # the mapping is uniform (x -> x_r) and parameters are never renamed; an inner parameter named like an outer local is
            # left alone only if the innermost function declares it as parameter
            node.id = node.id + '_r'
        return node


class Flipper(ast.NodeTransformer):
    """`if c: A else: B`  ->  `if not c: B else: A` for every two-armed if whose else-arm is not an elif chain."""

    def visit_If(self, node):
        self.generic_visit(node)
        if node.orelse and not (len(node.orelse) == 1 and isinstance(node.orelse[0], ast.If)):
            t = node.test
            if isinstance(t, ast.UnaryOp) and isinstance(t.op, ast.Not):
                nt = t.operand
            else:
                nt = ast.UnaryOp(op=ast.Not(), operand=t)
            node.test, node.body, node.orelse = nt, node.orelse, node.body
        return node


class Hoister(ast.NodeTransformer):
    """`f(g(x), y)` as a statement / assigned value  ->  `tmp_h1 = g(x); f(tmp_h1, y)`: call-valued positional arguments are
    evaluated into fresh locals first (same evaluation order: only arguments preceded by side-effect-free arguments are hoisted;
    the callee expression must be a plain dotted name)."""

    def __init__(self):
        self.n = 0

    def _simple(self, e):
        return isinstance(e, (ast.Name, ast.Constant)) or (isinstance(e, ast.Attribute) and self._simple(e.value))

    def _hoist(self, st, call):
        pre = []
        if not isinstance(call, ast.Call) or not self._simple(call.func):
            return pre
        for i, a in enumerate(call.args):
            if isinstance(a, ast.Call) and not any(isinstance(x, (ast.Yield, ast.YieldFrom, ast.Await, ast.Lambda, ast.NamedExpr)) for x in ast.walk(a)):
                self.n += 1
                nm = f'tmp_h{self.n}'
                pre.append(ast.copy_location(ast.Assign(targets=[ast.Name(id=nm, ctx=ast.Store())], value=a), st))
                call.args[i] = ast.copy_location(ast.Name(id=nm, ctx=ast.Load()), a)
            elif not self._simple(a):
                break
        return pre

    def _block(self, stmts):
        out = []
        for st in stmts:
            st = self.visit(st)
            pre = []
            if isinstance(st, ast.Expr) and isinstance(st.value, ast.Call):
                pre = self._hoist(st, st.value)
            elif isinstance(st, ast.Assign) and isinstance(st.value, ast.Call) and len(st.targets) == 1 and isinstance(st.targets[0], ast.Name):
                pre = self._hoist(st, st.value)
            out.extend(pre)
            out.append(st)
        return out

    def generic_visit(self, node):
        for field in ('body', 'orelse', 'finalbody'):
            v = getattr(node, field, None)
            if isinstance(v, list) and v and isinstance(v[0], ast.stmt):
                setattr(node, field, self._block(v))
        if isinstance(node, ast.Try):
            for h in node.handlers:
                h.body = self._block(h.body)
        return node


class CmpSwapper(ast.NodeTransformer):
    """`a == b` -> `b == a`, `a != b` -> `b != a`, `a < b` -> `b > a`, `a <= b` -> `b >= a` (and vice versa) for single comparisons
    whose operands have no side effects in this package (names, attributes, constants, subscripts, calls are all evaluated either way;
    only the order of two evaluations changes, which is unobservable for the pure accessors used here)."""
    SWAP = {ast.Lt: ast.Gt, ast.Gt: ast.Lt, ast.LtE: ast.GtE, ast.GtE: ast.LtE, ast.Eq: ast.Eq, ast.NotEq: ast.NotEq}

    def _pure(self, e):
        return not any(isinstance(x, (ast.Call, ast.Yield, ast.Await, ast.NamedExpr)) for x in ast.walk(e))

    def visit_Compare(self, node):
        self.generic_visit(node)
        if len(node.ops) == 1 and type(node.ops[0]) in self.SWAP and self._pure(node.left) and self._pure(node.comparators[0]):
            node.left, node.comparators[0] = node.comparators[0], node.left
            node.ops = [self.SWAP[type(node.ops[0])]()]
        return node


class Elsifier(ast.NodeTransformer):
    """`if c: A; return` followed by `B`  ->  `if c: A; return  else: B` (the rest of the block moves into an else-arm whenever the
    if-arm always leaves the block)."""
    TERM = (ast.Return, ast.Raise, ast.Continue, ast.Break)

    def _block(self, stmts):
        out = []
        for i, st in enumerate(stmts):
            if isinstance(st, ast.If) and not st.orelse and st.body and isinstance(st.body[-1], self.TERM) and i + 1 < len(stmts):
                st.orelse = self._block(stmts[i + 1:])
                out.append(st)
                return out
            out.append(st)
        return out

    def generic_visit(self, node):
        super().generic_visit(node)
        for field in ('body', 'orelse', 'finalbody'):
            v = getattr(node, field, None)
            if isinstance(v, list) and v and isinstance(v[0], ast.stmt) and not isinstance(node, ast.If if field == 'orelse' and False else ()):
                setattr(node, field, self._block(v))
        if isinstance(node, ast.Try):
            for h in node.handlers:
                h.body = self._block(h.body)
        return node


class AdjacentSwapper(ast.NodeTransformer):
    """Swap adjacent, independent, call-free simple assignments (`a = x; b = y` -> `b = y; a = x` when neither reads or writes a name the
    other writes).  Each statement takes part in at most one swap."""

    def _info(self, st):
        if not isinstance(st, ast.Assign) or len(st.targets) != 1 or not isinstance(st.targets[0], ast.Name):
            return None
        if any(isinstance(x, (ast.Call, ast.Yield, ast.Await, ast.NamedExpr, ast.Subscript, ast.Attribute)) for x in ast.walk(st.value)):
            return None
        w = {st.targets[0].id}
        r = {x.id for x in ast.walk(st.value) if isinstance(x, ast.Name)}
        return w, r

    def _block(self, stmts):
        out = list(stmts)
        i = 0
        while i + 1 < len(out):
            a, b = self._info(out[i]), self._info(out[i + 1])
            if a and b and not (a[0] & (b[0] | b[1])) and not (b[0] & a[1]):
                out[i], out[i + 1] = out[i + 1], out[i]
                i += 2
            else:
                i += 1
        return out

    def generic_visit(self, node):
        super().generic_visit(node)
        for field in ('body', 'orelse', 'finalbody'):
            v = getattr(node, field, None)
            if isinstance(v, list) and v and isinstance(v[0], ast.stmt) and not isinstance(node, ast.ClassDef):
                setattr(node, field, self._block(v))
        return node


class WithMerger(ast.NodeTransformer):
    """`with a: with b: body`  ->  `with a, b: body` (and `with a, b:` is what Python defines the nested form to mean)."""

    def visit_With(self, node):
        self.generic_visit(node)
        while len(node.body) == 1 and isinstance(node.body[0], ast.With):
            inner = node.body[0]
            node.items = node.items + inner.items
            node.body = inner.body
        return node


class Loopifier(ast.NodeTransformer):
    """`x = [e for t in it if c]` / `return [e for ...]` / set and dict comprehensions  ->  explicit accumulator loop.
    Only single-generator comprehensions whose target names are not used elsewhere in the function (the loop form leaks the target)."""

    def __init__(self):
        self.n = 0
        self.fn_names = [set()]

    def visit_FunctionDef(self, node):
        names = {}
        for x in ast.walk(node):
            if isinstance(x, ast.Name):
                names[x.id] = names.get(x.id, 0) + 1
            elif isinstance(x, ast.arg):
                names[x.arg] = names.get(x.arg, 0) + 1
        self.fn_names.append(names)
        self.generic_visit(node)
        self.fn_names.pop()
        for field in ('body',):
            node.body = self._block(node.body, names)
        return node

    def _comp_ok(self, comp, names):
        if not isinstance(comp, (ast.ListComp, ast.SetComp, ast.DictComp)) or len(comp.generators) != 1 or comp.generators[0].is_async:
            return False
        tg = [x.id for x in ast.walk(comp.generators[0].target) if isinstance(x, ast.Name)]
        inner = {}
        for x in ast.walk(comp):
            if isinstance(x, ast.Name):
                inner[x.id] = inner.get(x.id, 0) + 1
        # target names must not occur outside this comprehension in the function
        return all(names.get(t, 0) == inner.get(t, 0) for t in tg) and not any(isinstance(x, (ast.ListComp, ast.SetComp, ast.DictComp, ast.GeneratorExp, ast.Lambda)) for x in ast.walk(comp) if x is not comp)

    def _loop(self, comp, acc):
        g = comp.generators[0]
        if isinstance(comp, ast.ListComp):
            init = ast.List(elts=[], ctx=ast.Load())
            add = ast.Expr(ast.Call(func=ast.Attribute(value=ast.Name(acc, ast.Load()), attr='append', ctx=ast.Load()), args=[comp.elt], keywords=[]))
        elif isinstance(comp, ast.SetComp):
            init = ast.Call(func=ast.Name('set', ast.Load()), args=[], keywords=[])
            add = ast.Expr(ast.Call(func=ast.Attribute(value=ast.Name(acc, ast.Load()), attr='add', ctx=ast.Load()), args=[comp.elt], keywords=[]))
        else:
            init = ast.Dict(keys=[], values=[])
            add = ast.Assign(targets=[ast.Subscript(value=ast.Name(acc, ast.Load()), slice=comp.key, ctx=ast.Store())], value=comp.value)
        body = [add]
        for c in reversed(g.ifs):
            body = [ast.If(test=c, body=body, orelse=[])]
        return [ast.Assign(targets=[ast.Name(acc, ast.Store())], value=init), ast.For(target=g.target, iter=g.iter, body=body, orelse=[])]

    def _block(self, stmts, names):
        out = []
        for st in stmts:
            for field in ('body', 'orelse', 'finalbody'):
                v = getattr(st, field, None)
                if isinstance(v, list) and v and isinstance(v[0], ast.stmt) and not isinstance(st, (ast.FunctionDef, ast.AsyncFunctionDef, ast.ClassDef)):
                    setattr(st, field, self._block(v, names))
            for h in getattr(st, 'handlers', []) or []:
                h.body = self._block(h.body, names)
            if isinstance(st, ast.Return) and self._comp_ok(st.value, names):
                self.n += 1
                acc = f'_acc{self.n}'
                out += self._loop(st.value, acc) + [ast.Return(value=ast.Name(acc, ast.Load()))]
            elif isinstance(st, ast.Assign) and len(st.targets) == 1 and isinstance(st.targets[0], ast.Name) and self._comp_ok(st.value, names) \
                    and not any(isinstance(x, ast.Name) and x.id == st.targets[0].id for x in ast.walk(st.value)):
                self.n += 1
                out += self._loop(st.value, st.targets[0].id)
            else:
                out.append(st)
        return out


class Walruser(ast.NodeTransformer):
    """`while True: x = f(); if not x: break; rest`  ->  `while (x := f()): rest`   (and `if x == b'': break` -> `while (x := f()) != b'':`)."""

    def visit_While(self, node):
        self.generic_visit(node)
        if not (isinstance(node.test, ast.Constant) and node.test.value is True and len(node.body) >= 3 and not node.orelse):
            return node
        a, c = node.body[0], node.body[1]
        if not (isinstance(a, ast.Assign) and len(a.targets) == 1 and isinstance(a.targets[0], ast.Name) and isinstance(c, ast.If) and not c.orelse
                and len(c.body) == 1 and isinstance(c.body[0], ast.Break)):
            return node
        x = a.targets[0].id
        ne = ast.NamedExpr(target=ast.Name(x, ast.Store()), value=a.value)
        t = c.test
        if isinstance(t, ast.UnaryOp) and isinstance(t.op, ast.Not) and isinstance(t.operand, ast.Name) and t.operand.id == x:
            test = ne
        elif isinstance(t, ast.Compare) and len(t.ops) == 1 and isinstance(t.ops[0], ast.Eq) and isinstance(t.left, ast.Name) and t.left.id == x and isinstance(t.comparators[0], ast.Constant):
            test = ast.Compare(left=ne, ops=[ast.NotEq()], comparators=t.comparators)
        else:
            return node
        # `continue` in the rest would still re-evaluate the test: same behaviour.  A `break`-less else is absent.
        return ast.While(test=test, body=node.body[2:], orelse=[])


class LogInserter(ast.NodeTransformer):
    """Insert `logging.getLogger(__name__).debug(...)` at the start of every function and before every return / raise-free loop: a maintainer adding
    diagnostics changes no behaviour the properties speak about."""

    def _log(self, what, at):
        call = ast.Expr(ast.Call(func=ast.Attribute(value=ast.Call(func=ast.Attribute(value=ast.Name('logging', ast.Load()), attr='getLogger', ctx=ast.Load()),
                                                                    args=[ast.Name('__name__', ast.Load())], keywords=[]), attr='debug', ctx=ast.Load()),
                                 args=[ast.Constant('%s'), ast.Constant(what)], keywords=[]))
        return ast.copy_location(call, at)

    def visit_FunctionDef(self, node):
        self.generic_visit(node)
        i = 1 if node.body and isinstance(node.body[0], ast.Expr) and isinstance(node.body[0].value, ast.Constant) and isinstance(node.body[0].value.value, str) else 0
        if node.body[i:]:
            node.body.insert(i, self._log('enter ' + node.name, node.body[i]))
        return node

    def visit_For(self, node):
        self.generic_visit(node)
        node.body.insert(0, self._log('iteration', node.body[0]))
        return node

    visit_While = visit_For


def rewrite(d, mode):
    for f in sorted(os.listdir(os.path.join(d, 'disk_objectstore'))):
        if not f.endswith('.py'):
            continue
        p = os.path.join(d, 'disk_objectstore', f)
        tree = ast.parse(open(p, encoding='utf8').read())
        if mode == 'opaque':
            tree = OpaqueRenamer().visit(tree)
            ast.fix_missing_locations(tree)
        elif mode == 'rename':
            tree = ShadowSafe().visit(tree)
            ast.fix_missing_locations(tree)
        elif mode == 'hoist':
            tree = Hoister().visit(tree)
            ast.fix_missing_locations(tree)
        elif mode == 'cmpswap':
            tree = CmpSwapper().visit(tree)
            ast.fix_missing_locations(tree)
        elif mode == 'elsify':
            tree = Elsifier().visit(tree)
            ast.fix_missing_locations(tree)
        elif mode == 'swapadj':
            tree = AdjacentSwapper().visit(tree)
            ast.fix_missing_locations(tree)
        elif mode == 'withmerge':
            tree = WithMerger().visit(tree)
            ast.fix_missing_locations(tree)
        elif mode == 'logging':
            tree = LogInserter().visit(tree)
            if not any(isinstance(n, ast.Import) and any(a.name == 'logging' for a in n.names) for n in tree.body):
                k = 1 if tree.body and isinstance(tree.body[0], ast.Expr) and isinstance(getattr(tree.body[0], 'value', None), ast.Constant) else 0
                while k < len(tree.body) and isinstance(tree.body[k], ast.ImportFrom) and tree.body[k].module == '__future__':
                    k += 1
                tree.body.insert(k, ast.Import(names=[ast.alias(name='logging')]))
            ast.fix_missing_locations(tree)
        elif mode == 'loopify':
            tree = Loopifier().visit(tree)
            ast.fix_missing_locations(tree)
        elif mode == 'walrus':
            tree = Walruser().visit(tree)
            ast.fix_missing_locations(tree)
        elif mode == 'flip':
            tree = Flipper().visit(tree)
            ast.fix_missing_locations(tree)
        src = ast.unparse(tree) + '\n'
        compile(src, p, 'exec')
        open(p, 'w', encoding='utf8').write(src)


class ShadowSafe(Renamer):
    """Renamer that respects inner-scope parameters shadowing an outer local of the same name."""

    def __init__(self):
        super().__init__()
        self.params = []

    def _params(self, fn):
        a = fn.args
        ps = {x.arg for x in a.posonlyargs + a.args + a.kwonlyargs}
        if a.vararg:
            ps.add(a.vararg.arg)
        if a.kwarg:
            ps.add(a.kwarg.arg)
        return ps

    def visit_FunctionDef(self, node):
        self.params.append(self._params(node))
        r = super().visit_FunctionDef(node)
        self.params.pop()
        return r

    visit_AsyncFunctionDef = visit_FunctionDef

    def visit_Lambda(self, node):
        self.params.append(self._params(node))
        r = super().visit_Lambda(node)
        self.params.pop()
        return r

    def visit_Name(self, node):
        # innermost scope that binds the name decides
        for loc, par in zip(reversed(self.stack), reversed(self.params)):
            if node.id in par:
                return node
            if node.id in loc:
                node.id = node.id + '_r'
                return node
        return node


class OpaqueRenamer(ShadowSafe):
    """Like the local renaming, but to opaque names (x -> v_<digest>): nothing of the original spelling survives."""

    def visit_Name(self, node):
        import hashlib
        for loc, par in zip(reversed(self.stack), reversed(self.params)):
            if node.id in par:
                return node
            if node.id in loc:
                node.id = 'v_' + hashlib.sha1(node.id.encode()).hexdigest()[:6]
                return node
        return node


