"""Inlined control-flow graphs (DESIGN 3.2, 3.5).

``build(prog, kinds, fn, consts, policy)`` returns an ``ICFG`` for one entry function under one specialisation of its
flags.  Nodes are single evaluation steps (one call, one statement effect, one branch); repo-internal callees,
``@contextmanager`` generators and class-based context managers are inlined according to ``policy``.

Edge kinds: 'n' normal control flow, 'e' exceptional control flow (raise / a call that raises -> handler, finally,
with-exit or the exceptional exit).  Crash/ordering rules follow 'n' edges only; cleanup rules follow both.
"""
from __future__ import annotations

import ast

from . import AnalysisError
from .kinds import UNK, Frame, Kinds, alts, bind_call
from .loader import FunctionInfo, walk_local
from .resolve import UNKNOWN, Callee, fold


class Node:
    __slots__ = ('id', 'kind', 'ast', 'frame', 'label', 'succ', 'callee', 'info')

    def __init__(self, nid, kind, astn, frame, label=''):
        self.id = nid
        self.kind = kind
        self.ast = astn
        self.frame = frame
        self.label = label
        self.succ = []  # list of Edge
        self.callee = None
        self.info = {}

    @property
    def line(self):
        ln = getattr(self.ast, 'lineno', None)
        if ln is None and isinstance(self.ast, ast.withitem):
            ln = self.ast.context_expr.lineno
        if ln is None and isinstance(self.ast, ast.comprehension):
            ln = self.ast.iter.lineno
        return ln

    @property
    def where(self):
        fr = self.frame
        if fr is None:
            return '?'
        return f'{fr.fn.module.relpath}:{self.line or fr.fn.lineno}'

    def text(self, n=90):
        if self.ast is None:
            return self.label or self.kind
        try:
            t = ast.unparse(self.ast)
        except Exception:
            t = self.kind
        t = ' '.join(t.split())
        return t[:n]

    def __repr__(self):
        return f'<{self.id}:{self.kind} {self.where} {self.label or self.text(50)}>'


class Edge:
    __slots__ = ('dst', 'kind', 'cond', 'tag')

    def __init__(self, dst, kind='n', cond=None, tag=None):
        self.dst = dst
        self.kind = kind
        self.cond = cond  # (expr, frame, polarity) or None
        self.tag = tag


class K:
    """Continuations."""
    __slots__ = ('next', 'brk', 'cont', 'ret', 'exc')

    def __init__(self, next, brk, cont, ret, exc):
        self.next, self.brk, self.cont, self.ret, self.exc = next, brk, cont, ret, exc

    def w(self, **kw):
        d = {'next': self.next, 'brk': self.brk, 'cont': self.cont, 'ret': self.ret, 'exc': self.exc}
        d.update(kw)
        return K(**d)


class Policy:
    """Which callees to inline."""

    def __init__(self, depth=4, stop=(), only=None, generators_eager=True, inline_cm=True, stop_prefix=()):
        self.depth = depth
        self.stop = set(stop)
        self.only = set(only) if only is not None else None
        self.generators_eager = generators_eager
        self.inline_cm = inline_cm
        self.stop_prefix = tuple(stop_prefix)

    def inline(self, fi: FunctionInfo, frame: Frame):
        if frame.depth >= self.depth:
            return False
        q = fi.qualname
        if q in self.stop or any(q.startswith(p) for p in self.stop_prefix):
            return False
        if self.only is not None and q not in self.only:
            return False
        # no recursion
        f = frame
        while f is not None:
            if f.fn is fi:
                return False
            f = f.parent
        return True


class ICFG:
    def __init__(self, prog, kinds, fn, frame, policy):
        self.prog = prog
        self.kinds = kinds
        self.fn = fn
        self.top = frame
        self.policy = policy
        self.nodes = []
        self.entry = None
        self.exit = None
        self.exc_exit = None
        self.frames = [frame]
        self.unresolved = []

    def node(self, kind, astn, frame, label=''):
        n = Node(len(self.nodes), kind, astn, frame, label)
        self.nodes.append(n)
        return n

    def edge(self, a, b, kind='n', cond=None, tag=None):
        if a is None or b is None:
            return
        a.succ.append(Edge(b, kind, cond, tag))

    def reachable(self, kinds=('n', 'e')):
        seen, todo = {self.entry.id}, [self.entry]
        while todo:
            n = todo.pop()
            for e in n.succ:
                if e.kind in kinds and e.dst.id not in seen:
                    seen.add(e.dst.id)
                    todo.append(e.dst)
        return seen

    def stats(self):
        r = self.reachable()
        calls = [n for n in self.nodes if n.id in r and n.kind in ('call', 'enter')]
        return {'nodes': len(r), 'all_nodes': len(self.nodes), 'frames': len(self.frames), 'call_sites': len(calls),
                'resolved': len([n for n in calls if n.callee is not None and n.callee.kind in ('internal', 'external', 'class')])}


class Builder:
    def __init__(self, prog, kinds: Kinds, policy: Policy):
        self.prog = prog
        self.kinds = kinds
        self.policy = policy
        self.g = None

    # ------------------------------------------------------------------ entry
    def build(self, fn: FunctionInfo, consts=None, owner='self', frame=None) -> ICFG:
        frame = frame or self.kinds.top_frame(fn, consts=consts, owner=owner)
        for name, d in fn.defaults.items():
            if name not in frame.consts and (consts is None or name not in consts):
                pass  # defaults are *not* assumed for the entry point: free flags stay free
        g = ICFG(self.prog, self.kinds, fn, frame, self.policy)
        self.g = g
        g.exit = g.node('exit', None, frame, 'exit')
        g.exc_exit = g.node('exc-exit', None, frame, 'exceptional exit')
        k = K(next=g.exit, brk=None, cont=None, ret=g.exit, exc=g.exc_exit)
        body_entry = self.block(fn.node.body, frame, k)
        g.entry = g.node('entry', fn.node, frame, f'entry {fn.qualname}')
        g.edge(g.entry, body_entry)
        prune_alias_edges(g)
        return g

    # ------------------------------------------------------------------ statements
    def block(self, stmts, fr, k):
        nxt = k.next
        for st in reversed(stmts):
            nxt = self.stmt(st, fr, k.w(next=nxt))
        return nxt

    def stmt(self, st, fr, k):
        g = self.g
        m = getattr(self, 'st_' + type(st).__name__, None)
        if m is not None:
            return m(st, fr, k)
        # a compound statement this builder has no rule for (match, try*, async for/with, ...) must not be flattened: its nested
        # statements would silently disappear from every path rule -> fail closed
        if any(isinstance(getattr(st, f, None), list) and getattr(st, f) and isinstance(getattr(st, f)[0], (ast.stmt, ast.ExceptHandler) + ((ast.match_case,) if hasattr(ast, 'match_case') else ()))
               for f in ('body', 'orelse', 'finalbody', 'handlers', 'cases')):
            raise AnalysisError(f'{fr.fn.module.relpath}:{st.lineno}: statement kind `{type(st).__name__}` is not modelled by the control-flow builder')
        # default: evaluate sub-expressions, then one 'stmt' node
        n = g.node('stmt', st, fr)
        g.edge(n, k.next)
        exprs = [c for c in ast.iter_child_nodes(st) if isinstance(c, ast.expr)]
        return self.exprs(exprs, fr, k.w(next=n))

    def st_Pass(self, st, fr, k):
        return k.next

    def st_Import(self, st, fr, k):
        return k.next

    st_ImportFrom = st_Global = st_Nonlocal = st_Import

    def st_FunctionDef(self, st, fr, k):
        n = self.g.node('def', st, fr, f'def {st.name}')
        self.g.edge(n, k.next)
        return n

    st_AsyncFunctionDef = st_ClassDef = st_FunctionDef

    def st_Expr(self, st, fr, k):
        if isinstance(st.value, ast.Constant):
            return k.next  # docstring
        if isinstance(st.value, (ast.Yield, ast.YieldFrom)):
            return self.yield_(st.value, st, fr, k)
        return self.expr(st.value, fr, k)

    def st_Assign(self, st, fr, k):
        g = self.g
        n = g.node('stmt', st, fr)
        g.edge(n, k.next)
        if isinstance(st.value, (ast.Yield, ast.YieldFrom)):
            return self.yield_(st.value, st, fr, k.w(next=n))
        tex = []
        for t in st.targets:
            tex += _target_exprs(t)
        return self.exprs([st.value] + tex, fr, k.w(next=n))

    def st_AnnAssign(self, st, fr, k):
        if st.value is None:
            return k.next
        g = self.g
        n = g.node('stmt', st, fr)
        g.edge(n, k.next)
        return self.exprs([st.value] + _target_exprs(st.target), fr, k.w(next=n))

    def st_AugAssign(self, st, fr, k):
        g = self.g
        n = g.node('stmt', st, fr)
        g.edge(n, k.next)
        return self.exprs(_target_exprs(st.target) + [st.value], fr, k.w(next=n))

    def st_Return(self, st, fr, k):
        g = self.g
        n = g.node('return', st, fr)
        g.edge(n, k.ret)
        if st.value is not None:
            return self.expr(st.value, fr, k.w(next=n))
        return n

    def st_Raise(self, st, fr, k):
        g = self.g
        n = g.node('raise', st, fr)
        g.edge(n, k.exc, 'e')
        ex = [e for e in (st.exc, st.cause) if e is not None]
        # the exception constructor itself is not modelled as a call that can fail
        inner = []
        for e in ex:
            if isinstance(e, ast.Call):
                inner += list(e.args) + [kw.value for kw in e.keywords]
            else:
                inner.append(e)
        return self.exprs(inner, fr, k.w(next=n))

    def st_Assert(self, st, fr, k):
        g = self.g
        b = g.node('branch', st.test, fr, 'assert')
        fail = g.node('raise', st, fr, 'assert-fail')
        g.edge(fail, k.exc, 'e')
        self._branch(b, st.test, fr, k.next, fail)
        return self.expr(st.test, fr, k.w(next=b))

    def st_Break(self, st, fr, k):
        n = self.g.node('jump', st, fr, 'break')
        self.g.edge(n, k.brk)
        return n

    def st_Continue(self, st, fr, k):
        n = self.g.node('jump', st, fr, 'continue')
        self.g.edge(n, k.cont)
        return n

    def st_Delete(self, st, fr, k):
        n = self.g.node('stmt', st, fr)
        self.g.edge(n, k.next)
        return n

    def _branch(self, b, test, fr, t_true, t_false):
        g = self.g
        v = fold(self.prog, test, fr.fn, fr.consts)
        if v is UNKNOWN and isinstance(test, (ast.Attribute, ast.Name)) or (
                v is UNKNOWN and isinstance(test, ast.UnaryOp) and isinstance(test.op, ast.Not) and isinstance(test.operand, (ast.Attribute, ast.Name))):
            # attribute / local with a single constant kind (e.g. a constructor default that no call site overrides)
            inner = test.operand if isinstance(test, ast.UnaryOp) else test
            k = self.kinds.kind(inner, fr)
            if k[0] == 'const' and isinstance(k[1], (bool, int, type(None))):
                v = (not k[1]) if isinstance(test, ast.UnaryOp) else k[1]
        b.info['folded'] = None if v is UNKNOWN else bool(v)
        if v is UNKNOWN or v:
            g.edge(b, t_true, 'n', (test, fr, True))
        if v is UNKNOWN or not v:
            g.edge(b, t_false, 'n', (test, fr, False))

    def st_If(self, st, fr, k):
        t = self.block(st.body, fr, k)
        f = self.block(st.orelse, fr, k) if st.orelse else k.next
        return self.cond_branch(st.test, fr, k, t, f, 'if')

    def cond_branch(self, test, fr, k, t_true, t_false, label):
        """Short-circuit translation of a test: `a and b` / `a or b` / `not a` become chains of single-operand branches, each edge carrying the operand
        and its outcome -- `if a and b: S` and `if a: if b: S` give the same graph, and machines learn from every conjunct on the path they are on."""
        g = self.g
        if isinstance(test, ast.BoolOp):
            ent = None
            vals = list(test.values)
            nxt_true, nxt_false = t_true, t_false
            # build from the last operand backwards
            target = self.cond_branch(vals[-1], fr, k, t_true, t_false, label)
            for v in reversed(vals[:-1]):
                if isinstance(test.op, ast.And):
                    target = self.cond_branch(v, fr, k, target, t_false, label)
                else:
                    target = self.cond_branch(v, fr, k, t_true, target, label)
            return target
        if isinstance(test, ast.UnaryOp) and isinstance(test.op, ast.Not) and isinstance(test.operand, ast.BoolOp):
            return self.cond_branch(test.operand, fr, k, t_false, t_true, label)
        b = g.node('branch', test, fr, label)
        self._branch(b, test, fr, t_true, t_false)
        return self.cond(test, fr, k, b)

    def cond(self, test, fr, k, b):
        """Evaluate a test expression then go to branch node b."""
        return self.expr(test, fr, k.w(next=b))

    def st_While(self, st, fr, k):
        g = self.g
        head = g.node('loop', st, fr, 'while')
        after = k.next
        orelse = self.block(st.orelse, fr, k) if st.orelse else after
        body = self.block(st.body, fr, k.w(next=head, brk=after, cont=head))
        t = self.cond_branch(st.test, fr, k, body, orelse, 'while-test')
        g.edge(head, t)
        return head

    def st_For(self, st, fr, k):
        g = self.g
        head = g.node('loop', st, fr, 'for')
        after = k.next
        orelse = self.block(st.orelse, fr, k) if st.orelse else after
        bind = g.node('stmt', st.target, fr, 'for-bind')
        bind.info['for'] = st
        body = self.block(st.body, fr, k.w(next=head, brk=after, cont=head))
        g.edge(bind, body)
        g.edge(head, bind, 'n', None, 'iter-next')
        g.edge(head, orelse, 'n', None, 'iter-done')
        return self.expr(st.iter, fr, k.w(next=head))

    st_AsyncFor = st_For

    def st_Try(self, st, fr, k):
        g = self.g
        if st.finalbody:
            kout = self._finally_copies(st.finalbody, fr, k)
        else:
            kout = k
        handlers = []
        for h in st.handlers:
            hn = g.node('handler', h, fr, 'except ' + (ast.unparse(h.type) if h.type is not None else ''))
            hb = self.block(h.body, fr, kout)
            g.edge(hn, hb)
            handlers.append((h, hn))
        if handlers:
            disp = g.node('dispatch', st, fr, 'except-dispatch')
            catch_all = False
            for h, hn in handlers:
                g.edge(disp, hn, 'n', None, ('catch', ast.unparse(h.type) if h.type is not None else 'BaseException'))
                if h.type is None or (isinstance(h.type, ast.Name) and h.type.id in ('BaseException',)):
                    catch_all = True
            if not catch_all:
                g.edge(disp, kout.exc, 'e', None, 'unhandled')
            body_exc = disp
        else:
            body_exc = kout.exc
        orelse = self.block(st.orelse, fr, kout) if st.orelse else kout.next
        return self.block(st.body, fr, K(next=orelse, brk=kout.brk, cont=kout.cont, ret=kout.ret, exc=body_exc))

    st_TryStar = st_Try

    def _finally_copies(self, finalbody, fr, k):
        g = self.g
        out = {}
        for name in ('next', 'brk', 'cont', 'ret', 'exc'):
            tgt = getattr(k, name)
            if tgt is None:
                out[name] = None
                continue
            if name == 'exc':
                rr = g.node('reraise', finalbody[0], fr, 'finally-reraise')
                g.edge(rr, tgt, 'e')
                tgt2 = rr
            else:
                tgt2 = tgt
            fin = g.node('finally', finalbody[0], fr, f'finally[{name}]')
            body = self.block(finalbody, fr, k.w(next=tgt2))
            g.edge(fin, body)
            out[name] = fin
        return K(**out)

    # ------------------------------------------------------------------ with
    def st_With(self, st, fr, k):
        return self._with_items(st, list(st.items), st.body, fr, k)

    st_AsyncWith = st_With

    def _with_items(self, st, items, body, fr, k):
        if not items:
            return self.block(body, fr, k)
        item, rest = items[0], items[1:]

        def build_body(kb):
            return self._with_items(st, rest, body, fr, kb)

        return self._with_item(st, item, build_body, fr, k)

    def _with_item(self, st, item, build_body, fr, k):
        g = self.g
        kinds = self.kinds
        cexpr = item.context_expr
        ck = kinds.kind(cexpr, fr)
        choices = alts(ck)
        # 1. generator-based context manager of the package, called right here
        if (self.policy.inline_cm and isinstance(cexpr, ast.Call) and len(choices) == 1 and choices[0][0] == 'cm'):
            fi = self.prog.functions[choices[0][1]]
            if self.policy.inline(fi, fr):
                return self._with_generator_cm(st, item, cexpr, fi, build_body, fr, k)
        # 2. class-based context manager of the package
        if self.policy.inline_cm and len(choices) == 1 and choices[0][0] == 'instance':
            ci = self.prog.classes.get(choices[0][1])
            en = self.prog.find_method(ci, '__enter__') if ci else None
            ex = self.prog.find_method(ci, '__exit__') if ci else None
            if en is not None and ex is not None and self.policy.inline(en, fr) and self.policy.inline(ex, fr):
                return self._with_class_cm(st, item, choices[0], en, ex, build_body, fr, k)
        # 3. generic: with-enter / with-exit nodes
        exits = {}
        for name in ('next', 'brk', 'cont', 'ret', 'exc'):
            tgt = getattr(k, name)
            if tgt is None:
                exits[name] = None
                continue
            x = g.node('with-exit', item, fr, f'with-exit[{name}]')
            x.info['cm_kind'] = ck
            x.info['mode'] = name
            g.edge(x, tgt, 'e' if name == 'exc' else 'n')
            exits[name] = x
        body_entry = build_body(K(**exits))
        en = g.node('with-enter', item, fr, 'with-enter')
        en.info['cm_kind'] = ck
        g.edge(en, body_entry)
        g.edge(en, k.exc, 'e')
        return self.expr(cexpr, fr, k.w(next=en))

    def _with_class_cm(self, st, item, inst, en, ex, build_body, fr, k):
        g = self.g
        exits = {}
        for name in ('next', 'brk', 'cont', 'ret', 'exc'):
            tgt = getattr(k, name)
            if tgt is None:
                exits[name] = None
                continue
            consts = {}
            if len(ex.params) >= 1:
                consts[ex.params[0]] = None if name != 'exc' else '<exception>'
            xfr = Frame(self.prog, ex, parent=fr, call=None, self_kind=inst, consts=consts, depth=fr.depth + 1)
            g.frames.append(xfr)
            if name == 'exc':
                rr = g.node('reraise', item, fr, 'with-reraise')
                g.edge(rr, tgt, 'e')
                after = rr
            else:
                after = tgt
            leave = g.node('leave', item, xfr, f'leave {ex.qualname}')
            g.edge(leave, after)
            xbody = self.block(ex.node.body, xfr, K(next=leave, brk=None, cont=None, ret=leave, exc=k.exc))
            enter = g.node('enter', item, fr, f'enter {ex.qualname} [{name}]')
            enter.callee = Callee('internal', ex)
            enter.info['frame'] = xfr
            g.edge(enter, xbody)
            exits[name] = enter
        body_entry = build_body(K(**exits))
        # bind `as v`
        efr = Frame(self.prog, en, parent=fr, call=None, self_kind=inst, depth=fr.depth + 1)
        g.frames.append(efr)
        if item.optional_vars is not None and isinstance(item.optional_vars, ast.Name):
            fr.bindings[item.optional_vars.id] = self.kinds.returns(en, efr)
        bindn = g.node('stmt', item, fr, 'with-bind')
        g.edge(bindn, body_entry)
        leave = g.node('leave', item, efr, f'leave {en.qualname}')
        g.edge(leave, bindn)
        ebody = self.block(en.node.body, efr, K(next=leave, brk=None, cont=None, ret=leave, exc=k.exc))
        enter = g.node('enter', item, fr, f'enter {en.qualname}')
        enter.callee = Callee('internal', en)
        enter.info['frame'] = efr
        g.edge(enter, ebody)
        return self.expr(item.context_expr, fr, k.w(next=enter))

    def _with_generator_cm(self, st, item, call, fi, build_body, fr, k):
        g = self.g
        sk = self.kinds._receiver_kind(Callee('internal', fi, recv=call.func.value if isinstance(call.func, ast.Attribute) else None), fr, 0)
        placeholders = {}
        for name in ('brk', 'cont', 'ret'):
            placeholders[name] = g.node('join', item, fr, f'cm-exit[{name}]') if getattr(k, name) is not None else None

        state = {}

        def hook_main(yield_expr, cfr, kc):
            # body runs at the yield point of the callee
            if item.optional_vars is not None:
                yk = self.kinds.kind(yield_expr, cfr) if yield_expr is not None else ('const', None)
                if isinstance(item.optional_vars, ast.Name):
                    fr.bindings[item.optional_vars.id] = yk
                elif isinstance(item.optional_vars, (ast.Tuple, ast.List)) and yk[0] == 'tuple':
                    for t, kk in zip(item.optional_vars.elts, yk[1]):
                        if isinstance(t, ast.Name):
                            fr.bindings[t.id] = kk
            bindn = g.node('stmt', item, fr, 'with-bind')
            body_entry = build_body(K(next=kc.next, brk=placeholders['brk'], cont=placeholders['cont'],
                                      ret=placeholders['ret'], exc=kc.exc))
            g.edge(bindn, body_entry)
            state['n'] = state.get('n', 0) + 1
            return bindn

        entry = self._inline_call(call, fi, fr, k, self_kind=sk, yield_hook=hook_main, as_cm=True)
        if state.get('n', 0) != 1:
            raise AnalysisError(f'context manager {fi.qualname} must have exactly one reachable yield (found {state.get("n", 0)})')
        for name, ph in placeholders.items():
            if ph is None:
                continue
            tgt = getattr(k, name)

            def hook_resume(yield_expr, cfr, kc, _ph=ph):
                g.edge(_ph, kc.next)
                return g.node('join', item, fr, 'dead-yield')

            # a second instance of the callee whose normal exit leads to the break/continue/return target
            self._inline_call(call, fi, fr, k.w(next=tgt), self_kind=sk, yield_hook=hook_resume, as_cm=True, args_done=True)
        return entry

    # ------------------------------------------------------------------ yield
    def yield_(self, y, st, fr, k):
        g = self.g
        hook = getattr(fr, '_yield_hook', None)
        val = y.value
        if hook is not None:
            ent = hook(val, fr, k)
            return self.expr(val, fr, k.w(next=ent)) if val is not None else ent
        n = g.node('yield', st, fr)
        g.edge(n, k.next)
        g.edge(n, k.exc, 'e', None, 'throw-at-yield')
        return self.expr(val, fr, k.w(next=n)) if val is not None else n

    # ------------------------------------------------------------------ expressions
    def exprs(self, es, fr, k):
        nxt = k.next
        for e in reversed(es):
            nxt = self.expr(e, fr, k.w(next=nxt))
        return nxt

    def expr(self, e, fr, k):
        """Build the evaluation of expression e (calls in evaluation order); control continues at k.next."""
        g = self.g
        if e is None or isinstance(e, (ast.Constant, ast.Name, ast.Lambda)):
            return k.next
        if isinstance(e, ast.Call):
            return self.call(e, fr, k)
        if isinstance(e, ast.BoolOp):
            # short circuit
            nxt = k.next
            vals = list(e.values)
            ent = self.expr(vals[-1], fr, k)
            for v in reversed(vals[:-1]):
                if not _has_call(vals[vals.index(v) + 1:]):
                    ent = self.expr(v, fr, k.w(next=ent))
                    continue
                b = g.node('branch', v, fr, 'and' if isinstance(e.op, ast.And) else 'or')
                if isinstance(e.op, ast.And):
                    self._branch(b, v, fr, ent, nxt)
                else:
                    self._branch(b, v, fr, nxt, ent)
                ent = self.expr(v, fr, k.w(next=b))
            return ent
        if isinstance(e, ast.IfExp):
            if not _has_call([e.body, e.orelse]):
                return self.expr(e.test, fr, k)
            b = g.node('branch', e.test, fr, 'ifexp')
            t = self.expr(e.body, fr, k)
            f = self.expr(e.orelse, fr, k)
            self._branch(b, e.test, fr, t, f)
            return self.expr(e.test, fr, k.w(next=b))
        if isinstance(e, (ast.ListComp, ast.SetComp, ast.GeneratorExp, ast.DictComp)):
            return self.comprehension(e, fr, k)
        if isinstance(e, (ast.Yield, ast.YieldFrom)):
            return self.yield_(e, e, fr, k)
        if isinstance(e, ast.NamedExpr):
            n = g.node('stmt', e, fr)
            g.edge(n, k.next)
            return self.expr(e.value, fr, k.w(next=n))
        subs = [c for c in ast.iter_child_nodes(e) if isinstance(c, ast.expr)]
        if isinstance(e, ast.Dict):
            subs = []
            for kk, vv in zip(e.keys, e.values):
                if kk is not None:
                    subs.append(kk)
                subs.append(vv)
        if isinstance(e, ast.JoinedStr):
            subs = [v.value for v in e.values if isinstance(v, ast.FormattedValue)]
        if isinstance(e, ast.Subscript):
            subs = [e.value] + ([e.slice] if isinstance(e.slice, ast.expr) else [])
        if isinstance(e, ast.Slice):
            subs = [x for x in (e.lower, e.upper, e.step) if x is not None]
        return self.exprs(subs, fr, k)

    def comprehension(self, e, fr, k):
        g = self.g
        elts = [e.key, e.value] if isinstance(e, ast.DictComp) else [e.elt]
        if not _has_call(elts + [x for gen in e.generators for x in [gen.iter] + gen.ifs]):
            return k.next
        done = g.node('stmt', e, fr, 'comprehension-done')
        g.edge(done, k.next)

        def gen(i, back):
            if i == len(e.generators):
                return self.exprs(elts, fr, k.w(next=back))
            ge = e.generators[i]
            head = g.node('loop', ge, fr, 'comp-for')
            inner = gen(i + 1, head)
            cond_entry = inner
            for test in reversed(ge.ifs):
                b = g.node('branch', test, fr, 'comp-if')
                self._branch(b, test, fr, cond_entry, head)
                cond_entry = self.expr(test, fr, k.w(next=b))
            g.edge(head, cond_entry, 'n', None, 'iter-next')
            g.edge(head, back if i > 0 else done, 'n', None, 'iter-done')
            return self.expr(ge.iter, fr, k.w(next=head))

        return gen(0, done)

    # ------------------------------------------------------------------ calls
    def call(self, call: ast.Call, fr, k):
        g = self.g
        kinds = self.kinds
        cal = kinds.resolve_call(call, fr)
        sub = []
        if isinstance(call.func, ast.Attribute):
            sub.append(call.func.value)
        elif not isinstance(call.func, ast.Name):
            sub.append(call.func)
        sub += list(call.args) + [kw.value for kw in call.keywords]
        if cal.kind == 'internal' and not cal.target.is_contextmanager:
            fi = cal.target
            if fi.is_generator and not self.policy.generators_eager:
                pass
            elif self.policy.inline(fi, fr):
                sk = kinds._receiver_kind(cal, fr, 0)
                ent = self._inline_call(call, fi, fr, k, self_kind=sk)
                return self.exprs(sub, fr, k.w(next=ent))
        if cal.kind == 'class':
            ci = cal.target
            init = self.prog.find_method(ci, '__init__')
            if init is not None and self.policy.inline(init, fr):
                inst = ('instance', ci.qualname, call, fr)
                ent = self._inline_call(call, init, fr, k, self_kind=inst)
                return self.exprs(sub, fr, k.w(next=ent))
        if cal.kind == 'local':
            cands = self._alias_candidates(cal.name, fr)
            if cands:
                join = g.node('join', call, fr, f'alias-call {cal.name}')
                for assign_node, target in cands:
                    lfr = bind_call(self.prog, call, target, fr)
                    lfr.depth = fr.depth + 1
                    g.frames.append(lfr)
                    leave = g.node('leave', call, lfr, f'leave {target.qualname}')
                    g.edge(leave, k.next)
                    if isinstance(target.node, ast.Lambda):
                        body = self.expr(target.node.body, lfr, K(next=leave, brk=None, cont=None, ret=leave, exc=k.exc))
                    else:
                        body = self.block(target.node.body, lfr, K(next=leave, brk=None, cont=None, ret=leave, exc=k.exc))
                    g.edge(join, body, 'n', None, ('alias', cal.name, id(assign_node)))
                join.info['alias'] = cal.name
                return self.exprs(sub, fr, k.w(next=join))
        n = g.node('call', call, fr)
        n.callee = cal
        g.edge(n, k.next)
        g.edge(n, k.exc, 'e')
        if cal.kind in ('unknown',):
            g.unresolved.append(n)
        return self.exprs(sub, fr, k.w(next=n))

    def _alias_candidates(self, name, fr):
        """Lambdas / nested defs assigned to a local name in the same function: [(assign stmt, FunctionInfo)]."""
        fn = fr.fn
        out = []
        if isinstance(fn.node, ast.Lambda):
            return out
        for n in walk_local(fn.node):
            tgt = val = None
            if isinstance(n, ast.Assign) and len(n.targets) == 1:
                tgt, val = n.targets[0], n.value
            elif isinstance(n, ast.AnnAssign) and n.value is not None:
                tgt, val = n.target, n.value
            if isinstance(tgt, ast.Name) and tgt.id == name and isinstance(val, ast.Lambda) and getattr(val, '_fninfo', None):
                out.append((n, val._fninfo))
        if name in fn.nested:
            out.append((fn.nested[name].node, fn.nested[name]))
        return out

    def _inline_call(self, call, fi, fr, k, self_kind=None, yield_hook=None, as_cm=False, args_done=False):
        g = self.g
        cfr = bind_call(self.prog, call, fi, fr, self_kind=self_kind)
        g.frames.append(cfr)
        if yield_hook is not None:
            cfr._yield_hook = yield_hook
        leave = g.node('leave', call, cfr, f'leave {fi.qualname}')
        g.edge(leave, k.next)
        body = self.block(fi.node.body, cfr, K(next=leave, brk=None, cont=None, ret=leave, exc=k.exc))
        enter = g.node('enter', call, fr, f'enter {fi.qualname}')
        enter.callee = Callee('internal', fi)
        enter.info['frame'] = cfr
        g.edge(enter, body)
        if as_cm and not args_done:
            sub = []
            if isinstance(call.func, ast.Attribute):
                sub.append(call.func.value)
            sub += list(call.args) + [kw.value for kw in call.keywords]
            return self.exprs(sub, fr, k.w(next=enter))
        return enter


def _target_exprs(t):
    """Sub-expressions evaluated by an assignment target (subscripts / attributes)."""
    if isinstance(t, ast.Subscript):
        return [t.value] + ([t.slice] if isinstance(t.slice, ast.expr) else [])
    if isinstance(t, ast.Attribute):
        return [t.value]
    if isinstance(t, (ast.Tuple, ast.List)):
        out = []
        for e in t.elts:
            out += _target_exprs(e)
        return out
    return []


def _has_call(es):
    for e in es:
        if e is None:
            continue
        for n in ast.walk(e):
            if isinstance(n, (ast.Call, ast.Yield, ast.YieldFrom)):
                return True
    return False


def prune_alias_edges(g: ICFG):
    """Reaching definitions for local callable aliases: keep an alias-call edge only if its defining assignment
    reaches the call (on normal+exception edges of the specialised graph)."""
    joins = [n for n in g.nodes if n.kind == 'join' and 'alias' in n.info]
    if not joins:
        return
    names = {(n.info['alias'], n.frame.id) for n in joins}
    # forward may-analysis: state = frozenset of (name, frameid, assign id)
    reach = {g.entry.id: frozenset()}
    todo = [g.entry]
    while todo:
        n = todo.pop()
        st = reach[n.id]
        out = st
        if n.kind == 'stmt' and isinstance(n.ast, (ast.Assign, ast.AnnAssign)):
            tgt = n.ast.targets[0] if isinstance(n.ast, ast.Assign) and len(n.ast.targets) == 1 else getattr(n.ast, 'target', None)
            if isinstance(tgt, ast.Name) and (tgt.id, n.frame.id) in names:
                out = frozenset(x for x in st if not (x[0] == tgt.id and x[1] == n.frame.id)) | {(tgt.id, n.frame.id, id(n.ast))}
        elif n.kind == 'def' and (getattr(n.ast, 'name', None), n.frame.id) in names:
            out = frozenset(x for x in st if not (x[0] == n.ast.name and x[1] == n.frame.id)) | {(n.ast.name, n.frame.id, id(n.ast))}
        for e in n.succ:
            old = reach.get(e.dst.id)
            new = out if old is None else (old | out)
            if old is None or new != old:
                reach[e.dst.id] = new
                todo.append(e.dst)
    for j in joins:
        st = reach.get(j.id)
        if st is None:
            continue
        live = {x[2] for x in st if x[0] == j.info['alias'] and x[1] == j.frame.id}
        j.succ = [e for e in j.succ if not (isinstance(e.tag, tuple) and e.tag[0] == 'alias') or e.tag[2] in live]
        j.info['live_defs'] = len(j.succ)
