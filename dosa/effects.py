"""Effect extraction (DESIGN 3.4): map ICFG nodes to abstract effects with operand kinds.

An effect is a tuple whose first element is the effect name:

  ('OPEN', pathkind, mode, site)      ('OPEN_FD', pathkind, site)        ('CLOSE_FD', fdkind)
  ('UNLINK', pathkind)  ('RENAME', src, dst)  ('REPLACE', src, dst)  ('LINK', src, dst)  ('MKDIR', p)  ('RMTREE', p)
  ('LISTDIR', p)  ('STAT', p)  ('EXISTS', p)  ('FSTAT', fdkind)  ('COPY', src, dst)  ('MOVE', src, dst)
  ('H_WRITE', h) ('H_READ', h, sizeexpr) ('H_SEEK', h) ('H_TELL', h) ('H_TRUNCATE', h) ('H_FLUSH', h) ('H_CLOSE', h)
  ('FSYNC', fdkind)  ('FCNTL', fdkind, const)
  ('DB_QUERY', session, info) ('DB_INSERT', session, info) ('DB_UPDATE', session, info) ('DB_DELETE', session, info)
  ('DB_COMMIT', session) ('DB_VACUUM', session) ('DB_CLOSE', session) ('DB_ROLLBACK', session) ('DB_OTHER', session, txt)
  ('SESSION_RESET', which, owner)     -- assignment of None to the cached session attribute
  ('SUBPROCESS', argv-expr)
"""
from __future__ import annotations

import ast

from . import AnalysisError
from .kinds import UNK, alts, kstr
from .loader import dotted, walk_local
from .resolve import UNKNOWN, fold, resolve_dotted_expr

FS_EXTERNAL = {
    'os.remove': 'UNLINK', 'os.unlink': 'UNLINK', 'os.rmdir': 'RMDIR',
    'os.rename': 'RENAME', 'os.replace': 'REPLACE', 'os.link': 'LINK', 'os.symlink': 'LINK',
    'os.mkdir': 'MKDIR', 'os.makedirs': 'MKDIR', 'shutil.rmtree': 'RMTREE', 'os.listdir': 'LISTDIR',
    'os.scandir': 'LISTDIR', 'os.stat': 'STAT', 'os.path.exists': 'EXISTS', 'os.path.isfile': 'EXISTS',
    'os.path.getsize': 'STAT', 'os.truncate': 'TRUNCATE_PATH',
    'shutil.move': 'MOVE', 'shutil.copy': 'COPY', 'shutil.copy2': 'COPY', 'shutil.copyfile': 'COPY',
    'shutil.copytree': 'COPY', 'os.walk': 'LISTDIR',
}
# every fully-qualified external callable that can mutate the file system; a call resolving to one of them must be
# classifiable (closed world for the ownership rules)
FS_MUTATORS = {'os.remove', 'os.unlink', 'os.rmdir', 'os.rename', 'os.replace', 'os.link', 'os.symlink', 'os.mkdir',
               'os.makedirs', 'shutil.rmtree', 'os.truncate', 'shutil.move', 'shutil.copy', 'shutil.copy2',
               'shutil.copyfile', 'shutil.copytree', 'os.removedirs', 'os.renames', 'os.ftruncate', 'os.write',
               'os.pwrite', 'shutil.copyfileobj', 'os.chmod'}
PATH_METHODS = {
    'exists': 'EXISTS', 'is_file': 'EXISTS', 'is_dir': 'EXISTS', 'stat': 'STAT', 'lstat': 'STAT', 'unlink': 'UNLINK',
    'rename': 'RENAME', 'replace': 'REPLACE', 'mkdir': 'MKDIR', 'rmdir': 'RMDIR', 'touch': 'TOUCH',
    'write_bytes': 'WRITE_PATH', 'write_text': 'WRITE_PATH', 'read_bytes': 'READ_PATH', 'read_text': 'READ_PATH',
    'iterdir': 'LISTDIR', 'glob': 'LISTDIR', 'hardlink_to': 'LINK', 'symlink_to': 'LINK', 'link_to': 'LINK',
}
# path-mutating pathlib method names with their plausible argument counts (min, max) -- used for receivers of unknown kind
DESTRUCTIVE_PATH_METHODS = {'unlink': (0, 1), 'rmdir': (0, 0), 'rename': (1, 1), 'replace': (1, 1), 'write_bytes': (1, 1), 'write_text': (1, 4), 'touch': (0, 2),
                            'hardlink_to': (1, 1), 'symlink_to': (1, 2), 'link_to': (1, 1)}
HANDLE_METHODS = {
    'write': 'H_WRITE', 'writelines': 'H_WRITE', 'read': 'H_READ', 'readline': 'H_READ', 'readinto': 'H_READ',
    'seek': 'H_SEEK', 'tell': 'H_TELL', 'truncate': 'H_TRUNCATE', 'flush': 'H_FLUSH', 'close': 'H_CLOSE',
}


def last_assignment(name, fn, before_line):
    """The textually last assignment ``name = value`` in fn before line ``before_line`` (value expr or None)."""
    best = None
    if isinstance(fn.node, ast.Lambda):
        return None
    for n in walk_local(fn.node):
        tgt = val = None
        if isinstance(n, ast.Assign) and len(n.targets) == 1:
            tgt, val = n.targets[0], n.value
        elif isinstance(n, ast.AnnAssign) and n.value is not None:
            tgt, val = n.target, n.value
        if isinstance(tgt, ast.Name) and tgt.id == name and n.lineno <= before_line:
            if best is None or n.lineno > best[0]:
                best = (n.lineno, val)
    return best[1] if best else None


_SWAP_OPS = {ast.Lt: ast.Gt, ast.Gt: ast.Lt, ast.LtE: ast.GtE, ast.GtE: ast.LtE, ast.Eq: ast.Eq, ast.NotEq: ast.NotEq}


def _where_text(x):
    """Text of a WHERE argument with the table column on the left (`pack_id == Obj.pack_id` -> `Obj.pack_id == pack_id`)."""
    if isinstance(x, ast.Compare) and len(x.ops) == 1 and type(x.ops[0]) in _SWAP_OPS:
        l, r = x.left, x.comparators[0]

        def is_col(e):
            return isinstance(e, ast.Attribute) and isinstance(e.value, ast.Name) and e.value.id[:1].isupper()
        if is_col(r) and not is_col(l):
            y = ast.Compare(left=r, ops=[_SWAP_OPS[type(x.ops[0])]()], comparators=[l])
            return ast.unparse(ast.fix_missing_locations(ast.copy_location(y, x)))
    return ast.unparse(x)


def sql_statement(prog, expr, fn, line, depth=0):
    """Classify an SQLAlchemy statement expression -> dict(op=..., cols=[...], text=..., or_ignore=bool, where=[...],
    order_by=[...], limit=expr) or None."""
    if depth > 4 or expr is None:
        return None
    if isinstance(expr, ast.Name):
        v = last_assignment(expr.id, fn, line)
        return sql_statement(prog, v, fn, line, depth + 1) if v is not None else None
    info = {'op': None, 'cols': [], 'where': [], 'order_by': [], 'limit': None, 'or_ignore': False, 'text': None,
            'values': [], 'distinct': False, 'from': None}
    e = expr
    chain = []
    while isinstance(e, ast.Call) and isinstance(e.func, ast.Attribute) and e.func.attr in (
            'where', 'order_by', 'limit', 'execution_options', 'values', 'prefix_with', 'select_from', 'distinct',
            'label', 'offset', 'filter', 'group_by'):
        chain.append(e)
        e = e.func.value
    for c in chain:
        a = c.func.attr
        if a in ('where', 'filter'):
            info['where'] += [_where_text(x) for x in c.args]
        elif a == 'order_by':
            info['order_by'] += [ast.unparse(x) for x in c.args]
        elif a == 'limit':
            info['limit'] = ast.unparse(c.args[0]) if c.args else None
        elif a == 'prefix_with':
            v = [fold(prog, x, fn) for x in c.args]
            if any(isinstance(x, str) and x.upper().replace(' ', '') == 'ORIGNORE' for x in v):
                info['or_ignore'] = True
        elif a == 'values':
            info['values'] += [kw.arg for kw in c.keywords]
        elif a == 'distinct':
            info['distinct'] = True
        elif a == 'select_from':
            info['from'] = ast.unparse(c.args[0]) if c.args else None
    if not isinstance(e, ast.Call):
        return None
    # root
    if isinstance(e.func, ast.Attribute) and e.func.attr == 'insert' and 'table' in ast.unparse(e.func.value):
        info['op'] = 'INSERT'
        info['table'] = ast.unparse(e.func.value)
        return info
    r = resolve_dotted_expr(prog, e.func, fn)
    fq = r[1] if isinstance(r, tuple) and r[0] == 'external' else None
    if fq is None:
        return None
    tail = fq.split('.')[-1]
    if not fq.startswith('sqlalchemy'):
        return None
    if tail == 'select':
        info['op'] = 'SELECT'
        info['cols'] = [ast.unparse(a) for a in e.args]
        return info
    if tail == 'delete':
        info['op'] = 'DELETE'
        info['table'] = ast.unparse(e.args[0]) if e.args else None
        return info
    if tail == 'update':
        info['op'] = 'UPDATE'
        info['table'] = ast.unparse(e.args[0]) if e.args else None
        return info
    if tail == 'insert':
        info['op'] = 'INSERT'
        return info
    if tail == 'text':
        v = fold(prog, e.args[0], fn) if e.args else UNKNOWN
        if isinstance(v, str):
            info['text'] = v
            w = v.strip().split()
            info['op'] = w[0].upper() if w else None
            return info
        return None
    return None


class Effects:
    def __init__(self, prog, kinds):
        self.prog = prog
        self.kinds = kinds
        self._cache = {}

    def of(self, node):
        """List of effects of an ICFG node."""
        c = self._cache.get(node.id, None) if False else None
        k = node.kind
        if k == 'call':
            return self._call(node)
        if k == 'with-exit':
            ck = node.info.get('cm_kind', UNK)
            out = []
            for a in alts(ck):
                if a[0] == 'handle':
                    out.append(('H_CLOSE', a))
            return out
        if k == 'stmt' and isinstance(node.ast, (ast.Assign, ast.AnnAssign)):
            tgt = node.ast.targets[0] if isinstance(node.ast, ast.Assign) and len(node.ast.targets) == 1 else getattr(node.ast, 'target', None)
            val = node.ast.value
            if isinstance(tgt, ast.Attribute) and tgt.attr in ('_operation_session', '_container_session'):
                bk = self.kinds.kind(tgt.value, node.frame)
                if bk[0] == 'self':
                    which = 'op' if tgt.attr == '_operation_session' else 'container'
                    if isinstance(val, ast.Constant) and val.value is None:
                        return [('SESSION_RESET', which, bk[1])]
                    return [('SESSION_NEW', which, bk[1])]
        return []

    def _call(self, node):
        call = node.ast
        fr = node.frame
        cal = node.callee
        K = self.kinds
        prog = self.prog
        if cal is None:
            return []
        if cal.kind == 'external':
            fq = cal.target
            args = call.args
            if fq in ('builtins.open', 'io.open'):
                hk = K.kind(call, fr)
                if hk[0] == 'handle':
                    return [('OPEN', hk[1], hk[2], hk[3])]
                return [('OPEN', UNK, '?', id(call))]
            if fq == 'os.open':
                hk = K.kind(call, fr)
                return [('OPEN_FD', hk[1] if hk[0] == 'fd' else UNK, id(call))]
            if fq == 'os.close':
                return [('CLOSE_FD', K.kind(args[0], fr) if args else UNK)]
            if fq == 'os.fsync' or fq == 'os.fdatasync':
                return [('FSYNC', K.kind(args[0], fr) if args else UNK)]
            if fq == 'os.fstat':
                return [('FSTAT', K.kind(args[0], fr) if args else UNK)]
            if fq == 'fcntl.fcntl':
                c = fold(prog, args[1], fr.fn, fr.consts) if len(args) > 1 else UNKNOWN
                return [('FCNTL', K.kind(args[0], fr) if args else UNK, c)]
            if fq in FS_EXTERNAL:
                name = FS_EXTERNAL[fq]
                ks = [K.kind(a, fr) for a in args[:2]]
                if name in ('RENAME', 'REPLACE', 'LINK', 'MOVE', 'COPY'):
                    while len(ks) < 2:
                        ks.append(UNK)
                    return [(name, ks[0], ks[1])]
                return [(name, ks[0] if ks else UNK)]
            if fq in FS_MUTATORS:
                return [('FS_OTHER', fq, K.kind(args[0], fr) if args else UNK)]
            if fq in ('subprocess.run', 'subprocess.call', 'subprocess.check_call', 'subprocess.check_output', 'subprocess.Popen', 'os.system', 'os.popen',
                      'subprocess.getoutput', 'subprocess.getstatusoutput') or fq.startswith(('os.exec', 'os.spawn', 'os.posix_spawn')):
                return [('SUBPROCESS', args[0] if args else None)]
            if fq == 'sqlite3.connect':
                return [('SQLITE_CONNECT', K.kind(args[0], fr) if args else UNK, id(call))]
            return []
        if cal.kind == 'method':
            rk = K.kind(cal.recv, fr)
            out = []
            for r in alts(rk):
                if r[0] == 'handle' and cal.name in HANDLE_METHODS:
                    eff = HANDLE_METHODS[cal.name]
                    if eff == 'H_READ':
                        out.append((eff, r, call.args[0] if call.args else None))
                    else:
                        out.append((eff, r))
                elif r[0] == 'param' and cal.name in HANDLE_METHODS and cal.name not in ('read', 'readline'):
                    out.append((HANDLE_METHODS[cal.name], r))
                elif r[0] == 'path' and cal.name in PATH_METHODS:
                    eff = PATH_METHODS[cal.name]
                    if eff in ('RENAME', 'REPLACE', 'LINK'):
                        out.append((eff, r, K.kind(call.args[0], fr) if call.args else UNK))
                    else:
                        out.append((eff, r))
                elif r[0] == 'path' and cal.name == 'open':
                    hk = K.kind(call, fr)
                    for h in alts(hk):
                        if h[0] == 'handle':
                            out.append(('OPEN', h[1], h[2], h[3]))
                elif r[0] == 'session':
                    out += self._session(node, r, cal.name)
                elif r[0] == 'sqlite' and cal.name in ('backup',):
                    out.append(('SQLITE_BACKUP', r, K.kind(call.args[0], fr) if call.args else UNK))
                elif r[0] == 'sqlite' and cal.name == 'close':
                    out.append(('SQLITE_CLOSE', r))
            if not out and cal.name in DESTRUCTIVE_PATH_METHODS:
                # a path-mutating method name on a receiver whose kind could not be inferred: closed world -> report it with an unknown
                # path so that the ownership rules see it (str.replace(a, b) and dict/list methods are told apart by arity / known kinds)
                nargs = len(call.args) + len(call.keywords)
                lo, hi = DESTRUCTIVE_PATH_METHODS[cal.name]
                known_other = all(r[0] in ('const', 'str', 'tuple', 'listof', 'coll', 'session', 'handle', 'fd', 'sqlite', 'memstream', 'instance', 'self', 'class', 'function', 'config', 'slice')
                                  for r in alts(rk)) and bool(alts(rk))
                if lo <= nargs <= hi and not known_other:
                    eff = PATH_METHODS[cal.name]
                    # a parameter as receiver keeps its kind: the ownership rules re-evaluate it with the caller's actual argument
                    recv = rk if any(a and a[0] == 'param' for a in alts(rk)) else UNK
                    if eff in ('RENAME', 'REPLACE', 'LINK'):
                        out.append((eff, recv, K.kind(call.args[0], fr) if call.args else UNK))
                    else:
                        out.append((eff, recv))
            return out
        return []

    def _session(self, node, sk, name):
        call = node.ast
        fr = node.frame
        if name in ('execute', 'scalar', 'scalars'):
            info = sql_statement(self.prog, call.args[0] if call.args else None, fr.fn, call.lineno)
            if info is None:
                return [('DB_OTHER', sk, ast.unparse(call.args[0]) if call.args else '')]
            op = info['op']
            info = dict(info)
            info['params'] = ast.unparse(call.args[1]) if len(call.args) > 1 else None
            if op == 'SELECT':
                return [('DB_QUERY', sk, info)]
            if op == 'INSERT':
                return [('DB_INSERT', sk, info)]
            if op == 'UPDATE':
                return [('DB_UPDATE', sk, info)]
            if op == 'DELETE':
                return [('DB_DELETE', sk, info)]
            if op == 'COMMIT':
                return [('DB_COMMIT', sk)]
            if op == 'VACUUM':
                return [('DB_VACUUM', sk)]
            return [('DB_OTHER', sk, info.get('text') or op)]
        if name == 'commit':
            return [('DB_COMMIT', sk)]
        if name == 'rollback':
            return [('DB_ROLLBACK', sk)]
        if name == 'close':
            return [('DB_CLOSE', sk)]
        if name in ('bulk_update_mappings',):
            return [('DB_UPDATE', sk, {'op': 'UPDATE', 'bulk': True, 'params': ast.unparse(call.args[1]) if len(call.args) > 1 else None})]
        if name in ('bulk_insert_mappings', 'add', 'add_all'):
            return [('DB_INSERT', sk, {'op': 'INSERT', 'bulk': True, 'or_ignore': False})]
        if name in ('delete',):
            return [('DB_DELETE', sk, {'op': 'DELETE'})]
        if name in ('flush',):
            return [('DB_OTHER', sk, 'flush')]
        return []


def estr(e):
    parts = [e[0]]
    for x in e[1:]:
        if isinstance(x, tuple) and x and isinstance(x[0], str):
            parts.append(kstr(x))
        elif isinstance(x, dict):
            parts.append(str({k: v for k, v in x.items() if v and k in ('op', 'cols', 'or_ignore', 'text', 'where')}))
        elif isinstance(x, ast.AST):
            parts.append(ast.unparse(x))
        else:
            parts.append(str(x))
    return ' '.join(parts)
