"""Debug helpers: dump an ICFG as text."""
import sys
from .loader import Program
from .kinds import Kinds, kstr
from .cfg import Builder, Policy


def dump(g, kinds=('n',), limit=None, show=('call','enter','stmt','branch','with-enter','with-exit','return','raise','yield','handler')):
    seen=set(); order=[]; todo=[g.entry]
    while todo:
        n=todo.pop()
        if n.id in seen: continue
        seen.add(n.id); order.append(n)
        for e in reversed(n.succ):
            if e.kind in kinds: todo.append(e.dst)
    for n in order[:limit]:
        if n.kind in show or show is None:
            succ=','.join(f"{e.dst.id}{'!' if e.kind=='e' else ''}" for e in n.succ)
            print(f"{n.id:5d} d{n.frame.depth} {n.kind:10s} {n.where.split('/')[-1]:18s} {n.label or n.text(70)}  -> {succ}")

if __name__=='__main__':
    q=sys.argv[1]
    consts=eval(sys.argv[2]) if len(sys.argv)>2 else None
    depth=int(sys.argv[3]) if len(sys.argv)>3 else 3
    p=Program(); K=Kinds(p)
    b=Builder(p,K,Policy(depth=depth, stop={'container:Container.get_total_size','container:Container._get_objects_stream_meta_generator'}))
    g=b.build(p.fn(q), consts=consts)
    print(g.stats(), 'unresolved', [n.text(40) for n in g.unresolved][:10])
    dump(g, kinds=('n',))


def trace_effects(q, consts=None, depth=3, stop=()):
    from .effects import Effects, estr
    p=Program(); K=Kinds(p)
    b=Builder(p,K,Policy(depth=depth, stop=set(stop)|{'container:Container.get_total_size'}))
    g=b.build(p.fn(q), consts=consts)
    E=Effects(p,K)
    r=g.reachable(('n',))
    for n in g.nodes:
        if n.id in r:
            for e in E.of(n):
                print(f'{n.id:5d} {n.where.split("/")[-1]:18s} {estr(e)}')
    return g
