"""Name / call resolution and platform-aware constant folding."""
from __future__ import annotations

import ast
import builtins

from .loader import ClassInfo, FunctionInfo, Program, dotted, walk_local

BUILTINS = set(dir(builtins))


class Callee:
    __slots__ = ('kind', 'target', 'recv', 'name')

    def __init__(self, kind, target=None, recv=None, name=None):
        self.kind = kind  # internal | class | external | method | local | unknown
        self.target = target
        self.recv = recv
        self.name = name

    @property
    def fq(self):
        if self.kind == 'external':
            return self.target
        if self.kind == 'internal':
            return self.target.qualname
        if self.kind == 'class':
            return self.target.qualname
        if self.kind == 'method':
            return f'?.{self.name}'
        return f'{self.kind}:{self.name}'

    def __repr__(self):
        return f'<callee {self.kind} {self.fq}>'


def local_names(fn: FunctionInfo):
    """Names bound in the function's own scope."""
    cached = getattr(fn, '_locals', None)
    if cached is not None:
        return cached
    names = set(fn.all_params)
    a = fn.node.args
    if a.vararg:
        names.add(a.vararg.arg)
    if a.kwarg:
        names.add(a.kwarg.arg)

    def targets(t):
        if isinstance(t, ast.Name):
            names.add(t.id)
        elif isinstance(t, (ast.Tuple, ast.List)):
            for e in t.elts:
                targets(e)
        elif isinstance(t, ast.Starred):
            targets(t.value)

    if not isinstance(fn.node, ast.Lambda):
        for n in walk_local(fn.node):
            if isinstance(n, ast.Assign):
                for t in n.targets:
                    targets(t)
            elif isinstance(n, (ast.AugAssign, ast.AnnAssign)):
                targets(n.target)
            elif isinstance(n, (ast.For, ast.AsyncFor)):
                targets(n.target)
            elif isinstance(n, (ast.With, ast.AsyncWith)):
                for it in n.items:
                    if it.optional_vars is not None:
                        targets(it.optional_vars)
            elif isinstance(n, ast.ExceptHandler) and n.name:
                names.add(n.name)
            elif isinstance(n, ast.NamedExpr):
                targets(n.target)
            elif isinstance(n, (ast.Import, ast.ImportFrom)):
                for al in n.names:
                    names.add((al.asname or al.name).split('.')[0])
        for st in ast.walk(fn.node):
            if isinstance(st, (ast.FunctionDef, ast.AsyncFunctionDef)) and st is not fn.node and getattr(st, '_fninfo', None) is not None and st._fninfo.parent is fn:
                names.add(st.name)
    fn._locals = names
    return names


def scope_chain(fn):
    while fn is not None:
        yield fn
        fn = fn.parent


def resolve_name(prog: Program, name: str, fn: FunctionInfo):
    """Resolve a bare name used inside ``fn``: ('local', fn_scope) | FunctionInfo | ClassInfo | ('const', owner, name)
    | ('external', dotted) | None."""
    if fn is not None:
        # function-local imports (`import subprocess` / `from x import y` inside a body) bind like module-level ones
        for sc in scope_chain(fn):
            if isinstance(sc.node, ast.Lambda):
                continue
            for st in walk_local(sc.node):
                if isinstance(st, ast.Import):
                    for a in st.names:
                        if (a.asname or a.name.split('.')[0]) == name:
                            return ('external', a.name if a.asname else a.name.split('.')[0])
                elif isinstance(st, ast.ImportFrom) and st.level == 0 and st.module:
                    for a in st.names:
                        if (a.asname or a.name) == name:
                            d = f'{st.module}.{a.name}'
                            t = prog.lookup_dotted(d)
                            return t if t is not None else ('external', d)
        for sc in scope_chain(fn):
            if name in local_names(sc):
                if name in sc.nested:
                    return sc.nested[name]
                return ('local', sc)
    mod = fn.module if fn is not None else None
    if mod is None:
        return None
    if name in mod.functions:
        return mod.functions[name]
    if name in mod.classes:
        return mod.classes[name]
    if name in mod.imports:
        d = mod.imports[name]
        t = prog.lookup_dotted(d)
        if t is not None:
            return t
        return ('external', d)
    if name in mod.constants:
        return ('const', mod, name)
    if name in BUILTINS:
        return ('external', 'builtins.' + name)
    return None


def resolve_dotted_expr(prog, expr, fn):
    """For Name/Attribute chains whose head is an imported module or class: return the external dotted name or the
    internal object; else None."""
    d = dotted(expr)
    if d is None:
        return None
    head, _, rest = d.partition('.')
    r = resolve_name(prog, head, fn)
    if r is None or (isinstance(r, tuple) and r[0] == 'local'):
        return None
    if isinstance(r, tuple) and r[0] == 'external':
        return ('external', r[1] + ('.' + rest if rest else ''))
    if isinstance(r, ClassInfo):
        if not rest:
            return r
        parts = rest.split('.')
        if len(parts) == 1:
            m = prog.find_method(r, parts[0])
            if m is not None:
                return m
            c = prog.class_constant(r, parts[0])
            if c is not None:
                return ('const', r, parts[0])
        return ('classattr', r, rest)
    if isinstance(r, FunctionInfo):
        return r if not rest else None
    if isinstance(r, tuple) and r[0] == 'const':
        return r if not rest else ('constattr', r, rest)
    return None


def callee_of(prog: Program, call: ast.Call, fn: FunctionInfo) -> Callee:
    f = call.func
    if isinstance(f, ast.Name):
        r = resolve_name(prog, f.id, fn)
        if isinstance(r, FunctionInfo):
            return Callee('internal', r, name=f.id)
        if isinstance(r, ClassInfo):
            return Callee('class', r, name=f.id)
        if isinstance(r, tuple):
            if r[0] == 'local':
                return Callee('local', r[1], name=f.id)
            if r[0] == 'external':
                return Callee('external', r[1], name=f.id)
        return Callee('unknown', name=f.id)
    if isinstance(f, ast.Attribute):
        # self.method(...) / cls.method(...)
        if isinstance(f.value, ast.Name) and fn is not None and fn.cls is not None:
            owner = None
            for sc in scope_chain(fn):
                if sc.is_method or sc.parent is None:
                    owner = sc
            recv_names = set()
            if owner is not None and owner.cls is not None and owner.all_params and not owner.is_static:
                recv_names.add(owner.all_params[0])
            if f.value.id in recv_names:
                m = prog.find_method(fn.cls, f.attr)
                if m is not None:
                    return Callee('internal', m, recv=f.value, name=f.attr)
                return Callee('method', recv=f.value, name=f.attr)
        r = resolve_dotted_expr(prog, f, fn)
        if isinstance(r, FunctionInfo):
            return Callee('internal', r, recv=f.value, name=f.attr)
        if isinstance(r, ClassInfo):
            return Callee('class', r, name=f.attr)
        if isinstance(r, tuple) and r[0] == 'external':
            return Callee('external', r[1], name=f.attr)
        if isinstance(f.value, ast.Call) and isinstance(f.value.func, ast.Name) and f.value.func.id == 'super' and fn.cls:
            for c in prog.mro(fn.cls)[1:]:
                if f.attr in c.methods:
                    return Callee('internal', c.methods[f.attr], recv=f.value, name=f.attr)
        return Callee('method', recv=f.value, name=f.attr)
    return Callee('unknown')


# --------------------------------------------------------------------------- constant folding

class Unknown:
    def __repr__(self):
        return 'UNKNOWN'


UNKNOWN = Unknown()

_SAFE_STDLIB = ('fcntl', 'os', 'zlib', 'hashlib')

# Platform model: attribute values that override introspection of the running interpreter's stdlib, e.g.
# {'fcntl.F_FULLFSYNC': 51} models macOS.  Empty = the platform the check runs on.
PLATFORM = {}


class platform_model:
    def __init__(self, overrides):
        self.overrides = dict(overrides)

    def __enter__(self):
        self.saved = dict(PLATFORM)
        PLATFORM.update(self.overrides)
        return self

    def __exit__(self, *a):
        PLATFORM.clear()
        PLATFORM.update(self.saved)




def fold(prog: Program, expr, fn: FunctionInfo, env=None, depth=0):
    """Evaluate ``expr`` to a Python constant where possible (module/class constants, literals, platform introspection
    ``getattr/hasattr(<stdlib module>, '<lit>')``, ``os.name``); UNKNOWN otherwise. ``env`` maps local names to values."""
    if depth > 8:
        return UNKNOWN
    env = env or {}
    if isinstance(expr, ast.Constant):
        return expr.value
    if isinstance(expr, ast.Name):
        if expr.id in env:
            return env[expr.id]
        r = resolve_name(prog, expr.id, fn)
        if isinstance(r, tuple) and r[0] == 'const':
            owner, name = r[1], r[2]
            return fold(prog, owner.constants[name], _module_fn(prog, owner), {}, depth + 1)
        if isinstance(r, tuple) and r[0] == 'external':
            m = _stdlib_module(r[1])
            if m is not None:
                return m
            if r[1] in ('builtins.True', 'builtins.False', 'builtins.None'):
                return {'True': True, 'False': False, 'None': None}[r[1].split('.')[1]]
        return UNKNOWN
    if isinstance(expr, ast.Attribute):
        base = expr.value
        if isinstance(base, ast.Name) and fn is not None and fn.cls is not None and base.id in ('self', 'cls'):
            c = prog.class_constant(fn.cls, expr.attr)
            if c is not None:
                return fold(prog, c, fn, {}, depth + 1)
            return UNKNOWN
        r = resolve_dotted_expr(prog, expr, fn) if dotted(expr) else None
        if isinstance(r, tuple) and r[0] == 'const':
            owner, name = r[1], r[2]
            return fold(prog, owner.constants[name], _module_fn(prog, owner), {}, depth + 1)
        if isinstance(r, tuple) and r[0] == 'external':
            parts = r[1].split('.')
            if len(parts) == 2 and f'{parts[0]}.{parts[1]}' in PLATFORM:
                return PLATFORM[f'{parts[0]}.{parts[1]}']
            m = _stdlib_module(parts[0])
            if m is not None:
                obj = m
                try:
                    for p in parts[1:]:
                        obj = getattr(obj, p)
                except AttributeError:
                    return UNKNOWN
                if isinstance(obj, (int, str, bytes, bool, float, type(None))):
                    return obj
            return UNKNOWN
        v = fold(prog, base, fn, env, depth + 1)
        if v is not UNKNOWN and hasattr(v, '__name__') and getattr(v, '__name__', None) in _SAFE_STDLIB:
            try:
                obj = getattr(v, expr.attr)
            except AttributeError:
                return UNKNOWN
            if isinstance(obj, (int, str, bytes, bool, float, type(None))):
                return obj
        return UNKNOWN
    if isinstance(expr, ast.UnaryOp):
        v = fold(prog, expr.operand, fn, env, depth + 1)
        if v is UNKNOWN:
            return UNKNOWN
        try:
            if isinstance(expr.op, ast.Not):
                return not v
            if isinstance(expr.op, ast.USub):
                return -v
            if isinstance(expr.op, ast.UAdd):
                return +v
        except Exception:
            return UNKNOWN
        return UNKNOWN
    if isinstance(expr, ast.BoolOp):
        vals = [fold(prog, v, fn, env, depth + 1) for v in expr.values]
        if isinstance(expr.op, ast.And):
            for v in vals:
                if v is UNKNOWN:
                    # a definitely-false later operand still decides
                    if any((w is not UNKNOWN and not w) for w in vals):
                        return False
                    return UNKNOWN
                if not v:
                    return v
            return vals[-1]
        for v in vals:
            if v is UNKNOWN:
                if any((w is not UNKNOWN and w) for w in vals):
                    return True
                return UNKNOWN
            if v:
                return v
        return vals[-1]
    if isinstance(expr, ast.BinOp):
        l = fold(prog, expr.left, fn, env, depth + 1)
        r = fold(prog, expr.right, fn, env, depth + 1)
        if l is UNKNOWN or r is UNKNOWN:
            return UNKNOWN
        try:
            op = expr.op
            if isinstance(op, ast.Add):
                return l + r
            if isinstance(op, ast.Sub):
                return l - r
            if isinstance(op, ast.Mult):
                return l * r
            if isinstance(op, ast.FloorDiv):
                return l // r
            if isinstance(op, ast.Div):
                return l / r
            if isinstance(op, ast.Mod):
                return l % r
            if isinstance(op, ast.Pow):
                return l ** r
        except Exception:
            return UNKNOWN
        return UNKNOWN
    if isinstance(expr, ast.Compare) and len(expr.ops) == 1:
        l = fold(prog, expr.left, fn, env, depth + 1)
        r = fold(prog, expr.comparators[0], fn, env, depth + 1)
        op = expr.ops[0]
        # `<bool-valued call> is [not] None` is decidable without the value (cross-reference lint, DESIGN 2)
        if isinstance(op, (ast.Is, ast.IsNot)) and r is None and l is UNKNOWN and _is_bool_call(prog, expr.left, fn):
            return isinstance(op, ast.IsNot)
        if l is UNKNOWN or r is UNKNOWN:
            return UNKNOWN
        try:
            if isinstance(op, ast.Eq):
                return l == r
            if isinstance(op, ast.NotEq):
                return l != r
            if isinstance(op, ast.Lt):
                return l < r
            if isinstance(op, ast.LtE):
                return l <= r
            if isinstance(op, ast.Gt):
                return l > r
            if isinstance(op, ast.GtE):
                return l >= r
            if isinstance(op, ast.Is):
                return l is r
            if isinstance(op, ast.IsNot):
                return l is not r
            if isinstance(op, ast.In):
                return l in r
            if isinstance(op, ast.NotIn):
                return l not in r
        except Exception:
            return UNKNOWN
        return UNKNOWN
    if isinstance(expr, (ast.List, ast.Tuple, ast.Set)):
        vals = [fold(prog, e, fn, env, depth + 1) for e in expr.elts]
        if any(v is UNKNOWN for v in vals):
            return UNKNOWN
        return list(vals) if isinstance(expr, ast.List) else tuple(vals) if isinstance(expr, ast.Tuple) else set(vals)
    if isinstance(expr, ast.Call):
        d = dotted(expr.func)
        if d in ('getattr', 'hasattr') and len(expr.args) >= 2:
            obj = fold(prog, expr.args[0], fn, env, depth + 1)
            name = fold(prog, expr.args[1], fn, env, depth + 1)
            if obj is not UNKNOWN and isinstance(name, str) and (obj is None or getattr(obj, '__name__', None) in _SAFE_STDLIB):
                pk = f'{getattr(obj, "__name__", None)}.{name}'
                if pk in PLATFORM:
                    return True if d == 'hasattr' else PLATFORM[pk]
                if d == 'hasattr':
                    return hasattr(obj, name)
                if len(expr.args) == 3:
                    dflt = fold(prog, expr.args[2], fn, env, depth + 1)
                    v = getattr(obj, name, dflt)
                else:
                    try:
                        v = getattr(obj, name)
                    except AttributeError:
                        return UNKNOWN
                if isinstance(v, (int, str, bytes, bool, float, type(None))) or v is UNKNOWN:
                    return v
            return UNKNOWN
        if d == 'isinstance':
            return UNKNOWN
        if d in ('str', 'int') and len(expr.args) == 1:
            v = fold(prog, expr.args[0], fn, env, depth + 1)
            if v is not UNKNOWN:
                try:
                    return str(v) if d == 'str' else int(v)
                except Exception:
                    return UNKNOWN
        return UNKNOWN
    if isinstance(expr, ast.JoinedStr):
        out = ''
        for v in expr.values:
            if isinstance(v, ast.Constant):
                out += str(v.value)
            elif isinstance(v, ast.FormattedValue) and v.format_spec is None and v.conversion == -1:
                x = fold(prog, v.value, fn, env, depth + 1)
                if x is UNKNOWN:
                    return UNKNOWN
                out += str(x)
            else:
                return UNKNOWN
        return out
    return UNKNOWN


def _module_fn(prog, owner):
    """A pseudo function context so that names inside a module/class constant resolve in the owner's module."""
    mod = owner.module if isinstance(owner, ClassInfo) else owner
    ps = getattr(mod, '_pseudo_fn', None)
    if ps is None:
        node = ast.parse('def __module__():\n    pass').body[0]
        ps = FunctionInfo(mod, None, node, None)
        ps._locals = set()
        mod._pseudo_fn = ps
    if isinstance(owner, ClassInfo):
        pc = getattr(owner, '_pseudo_fn', None)
        if pc is None:
            node = ast.parse('def __class__(self):\n    pass').body[0]
            pc = FunctionInfo(mod, owner, node, None)
            pc._locals = {'self'}
            owner._pseudo_fn = pc
        return pc
    return ps


def _stdlib_module(name):
    if name in _SAFE_STDLIB:
        try:
            return __import__(name)
        except ImportError:
            return None
    return None


_BOOL_BUILTINS = {'hasattr', 'isinstance', 'issubclass', 'callable', 'bool', 'all', 'any'}


def _is_bool_call(prog, expr, fn):
    if isinstance(expr, ast.Call):
        d = dotted(expr.func)
        if d in _BOOL_BUILTINS:
            r = resolve_name(prog, d, fn)
            return isinstance(r, tuple) and r[0] == 'external' and r[1] == 'builtins.' + d
    return False
