"""Program model: parse every module of the package under analysis, index functions/classes/imports/constants."""
from __future__ import annotations

import ast
import hashlib
import os

from . import PKG, REPO, AnalysisError


class ModuleInfo:
    def __init__(self, name, path, source, tree):
        self.name = name  # short name, e.g. 'container'
        self.path = path
        self.source = source
        self.tree = tree
        self.imports = {}  # local name -> dotted target
        self.constants = {}  # module-level NAME -> value expr
        self.functions = {}  # top-level name -> FunctionInfo
        self.classes = {}  # name -> ClassInfo

    @property
    def relpath(self):
        return os.path.relpath(self.path, REPO)

    def __repr__(self):
        return f'<module {self.name}>'


class ClassInfo:
    def __init__(self, module, node):
        self.module = module
        self.node = node
        self.name = node.name
        self.methods = {}
        self.constants = {}
        self.bases = []  # dotted names

    @property
    def qualname(self):
        return f'{self.module.name}:{self.name}'

    def __repr__(self):
        return f'<class {self.qualname}>'


class FunctionInfo:
    def __init__(self, module, cls, node, parent=None):
        self.module = module
        self.cls = cls
        self.node = node
        self.parent = parent
        self.name = node.name if not isinstance(node, ast.Lambda) else '<lambda>'
        self.decorators = []
        args = node.args
        allargs = list(args.posonlyargs) + list(args.args)
        self.all_params = [a.arg for a in allargs] + [a.arg for a in args.kwonlyargs]
        self.defaults = {}
        nd = len(args.defaults)
        for a, d in zip(allargs[len(allargs) - nd:], args.defaults):
            self.defaults[a.arg] = d
        for a, d in zip(args.kwonlyargs, args.kw_defaults):
            if d is not None:
                self.defaults[a.arg] = d
        self.annotations = {a.arg: a.annotation for a in allargs + list(args.kwonlyargs) if a.annotation is not None}
        self.nested = {}  # name -> FunctionInfo of nested defs

    @property
    def is_method(self):
        return self.cls is not None and self.parent is None

    @property
    def is_static(self):
        return 'staticmethod' in self.decorators

    @property
    def is_classmethod(self):
        return 'classmethod' in self.decorators

    @property
    def is_property(self):
        return 'property' in self.decorators

    @property
    def is_contextmanager(self):
        return any(d.split('.')[-1] == 'contextmanager' for d in self.decorators)

    @property
    def is_overload(self):
        return any(d.split('.')[-1] == 'overload' for d in self.decorators)

    @property
    def params(self):
        """Formal parameters without the implicit receiver."""
        p = list(self.all_params)
        if self.is_method and not self.is_static and p:
            p = p[1:]
        return p

    @property
    def is_generator(self):
        for n in walk_local(self.node):
            if isinstance(n, (ast.Yield, ast.YieldFrom)):
                return True
        return False

    @property
    def qualname(self):
        if self.parent is not None:
            return f'{self.parent.qualname}.<locals>.{self.name}'
        if self.cls is not None:
            return f'{self.module.name}:{self.cls.name}.{self.name}'
        return f'{self.module.name}:{self.name}'

    @property
    def lineno(self):
        return self.node.lineno

    def __repr__(self):
        return f'<fn {self.qualname}>'


def walk_local(fnode):
    """Walk the body of a function without descending into nested defs/lambdas/classes."""
    body = fnode.body if not isinstance(fnode, ast.Lambda) else [fnode.body]
    stack = list(body)
    while stack:
        n = stack.pop()
        yield n
        for ch in ast.iter_child_nodes(n):
            if isinstance(ch, (ast.FunctionDef, ast.AsyncFunctionDef, ast.Lambda, ast.ClassDef)):
                continue
            stack.append(ch)


def dotted(expr):
    """Return 'a.b.c' for Name/Attribute chains, else None."""
    parts = []
    while isinstance(expr, ast.Attribute):
        parts.append(expr.attr)
        expr = expr.value
    if isinstance(expr, ast.Name):
        parts.append(expr.id)
        return '.'.join(reversed(parts))
    return None


class _Canon(ast.NodeTransformer):
    """Normal form for the rules (behaviour-preserving): a two-armed `if not c: A else: B` (else-arm not an elif chain) is read as
    `if c: B else: A`, so that no rule depends on which of two equivalent spellings the source uses.  Line numbers are kept."""

    def visit_If(self, node):
        self.generic_visit(node)
        t = node.test
        if node.orelse and not (len(node.orelse) == 1 and isinstance(node.orelse[0], ast.If)) \
                and isinstance(t, ast.UnaryOp) and isinstance(t.op, ast.Not):
            node.test, node.body, node.orelse = t.operand, node.orelse, node.body
        elif len(node.orelse) == 1 and isinstance(node.orelse[0], (ast.Break, ast.Continue, ast.Return, ast.Raise)) and isinstance(t, ast.Name) \
                and not isinstance(node.body[-1], (ast.Break, ast.Continue, ast.Return, ast.Raise)):
            # `if x: A else: <jump>`  ->  `if not x: <jump> else: A`  (then de-else'd): the jump-first spelling is the one the package uses
            node.test, node.body, node.orelse = ast.copy_location(ast.UnaryOp(op=ast.Not(), operand=t), t), node.orelse, node.body
        return node


def _simple_expr(e):
    return isinstance(e, (ast.Name, ast.Constant)) or (isinstance(e, ast.Attribute) and _simple_expr(e.value))


class _InlineTemps(ast.NodeTransformer):
    """Normal form for the rules (behaviour-preserving): `t = g(x); f(a, t, ...)` where the local `t` is assigned once, read once
    (as a direct positional argument of the call that forms the very next statement, preceded only by side-effect-free
    arguments, callee a plain dotted name) is read as `f(a, g(x), ...)`.  So no rule depends on whether a nested call is
    written inline or through a single-use temporary."""

    def visit_FunctionDef(self, node):
        self.generic_visit(node)
        stores, loads = {}, {}
        for n in ast.walk(node):
            if isinstance(n, ast.Name):
                d = stores if isinstance(n.ctx, (ast.Store, ast.Del)) else loads
                d[n.id] = d.get(n.id, 0) + 1
            elif isinstance(n, (ast.Global, ast.Nonlocal)):
                for nm in n.names:
                    stores[nm] = stores.get(nm, 0) + 2
        params = {a.arg for a in node.args.posonlyargs + node.args.args + node.args.kwonlyargs}
        self._once = {nm for nm, c in stores.items() if c == 1 and loads.get(nm, 0) == 1 and nm not in params}
        if self._once:
            self._blocks(node)
        return node

    visit_AsyncFunctionDef = visit_FunctionDef

    def _blocks(self, node):
        for ch in ast.walk(node):
            for field in ('body', 'orelse', 'finalbody'):
                v = getattr(ch, field, None)
                if isinstance(v, list) and v and isinstance(v[0], ast.stmt):
                    setattr(ch, field, self._block(v))

    def _block(self, stmts):
        out = []
        i = 0
        while i < len(stmts):
            st = stmts[i]
            nxt = stmts[i + 1] if i + 1 < len(stmts) else None
            if nxt is not None and isinstance(st, ast.Assign) and len(st.targets) == 1 and isinstance(st.targets[0], ast.Name) \
                    and st.targets[0].id in self._once and isinstance(st.value, ast.Call) and self._subst(nxt, st.targets[0].id, st.value):
                i += 1
                continue
            out.append(st)
            i += 1
        return out

    def _subst(self, st, name, value):
        call = None
        if isinstance(st, ast.Expr) and isinstance(st.value, ast.Call):
            call = st.value
        elif isinstance(st, ast.Assign) and isinstance(st.value, ast.Call) and len(st.targets) == 1 and isinstance(st.targets[0], ast.Name):
            call = st.value
        if call is None or not _simple_expr(call.func):
            return False
        for i, a in enumerate(call.args):
            if isinstance(a, ast.Name) and a.id == name:
                call.args[i] = value
                return True
            if not _simple_expr(a):
                return False
        return False


class _DeElse(ast.NodeTransformer):
    """Normal form (behaviour-preserving): when the if-arm always leaves the enclosing block (ends in return / raise / continue / break)
    an else-arm is read as the statements that follow the if:  `if c: A; return  else: B`  ->  `if c: A; return` ; `B`."""
    TERM = (ast.Return, ast.Raise, ast.Continue, ast.Break)

    def _block(self, stmts):
        out = []
        for st in stmts:
            if isinstance(st, ast.If) and st.orelse and st.body and isinstance(st.body[-1], self.TERM):
                rest, st.orelse = st.orelse, []
                out.append(st)
                out.extend(self._block(rest))
            else:
                out.append(st)
        return out

    def generic_visit(self, node):
        super().generic_visit(node)
        for field in ('body', 'orelse', 'finalbody'):
            v = getattr(node, field, None)
            if isinstance(v, list) and v and isinstance(v[0], ast.stmt):
                setattr(node, field, self._block(v))
        if isinstance(node, ast.Try):
            for h in node.handlers:
                h.body = self._block(h.body)
        return node


class _DeWalrus(ast.NodeTransformer):
    """Normal form (behaviour-preserving): `while (x := e): B` is read as `while True: x = e; if not x: break; B` and
    `while (x := e) != c: B` as `while True: x = e; if x == c: break; B` -- the spelling the package uses today for its chunk loops."""

    def visit_While(self, node):
        self.generic_visit(node)
        t = node.test
        ne, brk = None, None
        if isinstance(t, ast.NamedExpr) and isinstance(t.target, ast.Name):
            ne = t
            brk = ast.UnaryOp(op=ast.Not(), operand=ast.Name(t.target.id, ast.Load()))
        elif isinstance(t, ast.Compare) and len(t.ops) == 1 and isinstance(t.ops[0], (ast.NotEq, ast.Eq)) and isinstance(t.left, ast.NamedExpr) \
                and isinstance(t.left.target, ast.Name) and isinstance(t.comparators[0], ast.Constant):
            ne = t.left
            brk = ast.Compare(left=ast.Name(ne.target.id, ast.Load()), ops=[ast.Eq() if isinstance(t.ops[0], ast.NotEq) else ast.NotEq()], comparators=t.comparators)
        if ne is None and not node.orelse:
            # general form: the walrus is the first thing the test evaluates (`(x := e).exists()`, `f(x := e) > 0`, `(x := e) and g(x)` ...):
            #   while T[(x := e)]: B   ==   while True: x = e; if not T[x]: break; B
            cur, parent, field = t, None, None
            while True:
                if isinstance(cur, ast.NamedExpr):
                    break
                nxt = None
                if isinstance(cur, ast.Attribute):
                    nxt, fld = cur.value, 'value'
                elif isinstance(cur, ast.Call):
                    nxt, fld = cur.func, 'func'
                elif isinstance(cur, (ast.Compare, ast.BinOp)):
                    nxt, fld = cur.left, 'left'
                elif isinstance(cur, ast.UnaryOp):
                    nxt, fld = cur.operand, 'operand'
                elif isinstance(cur, ast.BoolOp):
                    nxt, fld = cur.values[0], ('values', 0)
                elif isinstance(cur, ast.Subscript):
                    nxt, fld = cur.value, 'value'
                if nxt is None:
                    cur = None
                    break
                parent, field, cur = cur, fld, nxt
            if cur is not None and parent is not None and isinstance(cur.target, ast.Name) and sum(isinstance(x, ast.NamedExpr) for x in ast.walk(t)) == 1:
                ne = cur
                repl = ast.Name(cur.target.id, ast.Load())
                if isinstance(field, tuple):
                    getattr(parent, field[0])[field[1]] = repl
                else:
                    setattr(parent, field, repl)
                brk = ast.UnaryOp(op=ast.Not(), operand=t)
        if ne is None or node.orelse:
            return node
        asg = ast.copy_location(ast.Assign(targets=[ast.Name(ne.target.id, ast.Store())], value=ne.value), t)
        cond = ast.copy_location(ast.If(test=brk, body=[ast.copy_location(ast.Break(), t)], orelse=[]), t)
        new = ast.copy_location(ast.While(test=ast.copy_location(ast.Constant(True), t), body=[asg, cond] + node.body, orelse=[]), node)
        ast.fix_missing_locations(new)
        return new


class _StatementForms(ast.NodeTransformer):
    """Normal forms of single statements (behaviour-preserving, same evaluation order):
      * `acc.extend(e for t in it if c)` / `acc.extend([e for ...])`  ->  `for t in it: if c: acc.append(e)`
      * `x = a if c else b`  ->  `if c: x = a  else: x = b`
      * `a = b = <constant>`  ->  `a = <constant>; b = <constant>`
      * `with contextlib.suppress(E1, E2): B`  ->  `try: B  except (E1, E2): pass`
      * `row = {'k1': v1, 'k2': v2, ...}` for a dict that has index-row columns among its keys  ->  `row = {}; row['k1'] = v1; row['k2'] = v2; ...`
    so that rules written for the loop / if / item-assignment spelling the package uses today also read the compact spellings."""
    ROW_KEYS = {'hashkey', 'offset', 'length', 'size', 'compressed', 'pack_id'}

    def _block(self, stmts):
        out = []
        for st in stmts:
            new = None
            if isinstance(st, ast.Expr) and isinstance(st.value, ast.Call) and isinstance(st.value.func, ast.Attribute) and st.value.func.attr in ('extend',) \
                    and isinstance(st.value.func.value, ast.Name) and len(st.value.args) == 1 and not st.value.keywords \
                    and isinstance(st.value.args[0], (ast.GeneratorExp, ast.ListComp, ast.SetComp)) and len(st.value.args[0].generators) == 1 and not st.value.args[0].generators[0].is_async:
                comp = st.value.args[0]
                g = comp.generators[0]
                meth = 'append' if st.value.func.attr == 'extend' else 'add'
                acc = st.value.func.value.id
                if not any(isinstance(x, ast.Name) and x.id == acc for x in ast.walk(comp)):
                    body = [ast.Expr(ast.Call(func=ast.Attribute(value=ast.Name(acc, ast.Load()), attr=meth, ctx=ast.Load()), args=[comp.elt], keywords=[]))]
                    for c in reversed(g.ifs):
                        body = [ast.If(test=c, body=body, orelse=[])]
                    new = [ast.For(target=g.target, iter=g.iter, body=body, orelse=[])]
            elif isinstance(st, ast.Assign) and len(st.targets) == 1 and isinstance(st.targets[0], ast.Name) and isinstance(st.value, ast.IfExp):
                v = st.value
                new = [ast.If(test=v.test, body=[ast.Assign(targets=[ast.Name(st.targets[0].id, ast.Store())], value=v.body)],
                              orelse=[ast.Assign(targets=[ast.Name(st.targets[0].id, ast.Store())], value=v.orelse)])]
            elif isinstance(st, (ast.Assign, ast.AnnAssign)) and isinstance(st.value, ast.Dict) and len(st.value.keys) >= 2 \
                    and all(isinstance(k, ast.Constant) and isinstance(k.value, str) for k in st.value.keys) \
                    and len({k.value for k in st.value.keys} & self.ROW_KEYS) >= 3:
                tgt = st.targets[0] if isinstance(st, ast.Assign) and len(st.targets) == 1 else getattr(st, 'target', None)
                if isinstance(tgt, ast.Name) and not any(isinstance(x, ast.Name) and x.id == tgt.id for x in ast.walk(st.value)):
                    first = ast.Assign(targets=[ast.Name(tgt.id, ast.Store())], value=ast.Dict(keys=[], values=[])) if isinstance(st, ast.Assign) else \
                        ast.AnnAssign(target=ast.Name(tgt.id, ast.Store()), annotation=st.annotation, value=ast.Dict(keys=[], values=[]), simple=1)
                    new = [first] + [ast.Assign(targets=[ast.Subscript(value=ast.Name(tgt.id, ast.Load()), slice=k, ctx=ast.Store())], value=v) for k, v in zip(st.value.keys, st.value.values)]
            if new is None and isinstance(st, ast.Expr) and isinstance(st.value, ast.Call) and sum(isinstance(a, ast.IfExp) for a in st.value.args) == 1 and not st.value.keywords \
                    and isinstance(st.value.func, ast.Attribute) and _simple_expr(st.value.func.value) and all(isinstance(a, ast.IfExp) or _simple_expr(a) for a in st.value.args):
                # `h.write(A if c else B)`  ->  `if c: h.write(A) else: h.write(B)` (receiver and other arguments are side-effect free)
                import copy as _copy
                i_ = next(i for i, a in enumerate(st.value.args) if isinstance(a, ast.IfExp))
                ife = st.value.args[i_]
                c1, c2 = _copy.deepcopy(st.value), _copy.deepcopy(st.value)
                c1.args[i_], c2.args[i_] = ife.body, ife.orelse
                new = [ast.If(test=ife.test, body=[ast.Expr(c1)], orelse=[ast.Expr(c2)])]
            if new is None and isinstance(st, ast.Expr) and isinstance(st.value, ast.Call) and isinstance(st.value.func, ast.Attribute) and st.value.func.attr == 'extend' \
                    and isinstance(st.value.func.value, ast.Subscript) and len(st.value.args) == 1 and isinstance(st.value.args[0], ast.Name) and not st.value.keywords:
                # `acc[k].extend(v)`  ->  `acc[k] += v`  (in-place list extension either way)
                tgt_ = st.value.func.value
                new = [ast.AugAssign(target=ast.Subscript(value=tgt_.value, slice=tgt_.slice, ctx=ast.Store()), op=ast.Add(), value=st.value.args[0])]
            if new is None and isinstance(st, ast.Assign) and len(st.targets) > 1 and all(isinstance(t, ast.Name) for t in st.targets) and isinstance(st.value, ast.Constant):
                new = [ast.Assign(targets=[t], value=ast.Constant(st.value.value)) for t in st.targets]
            if new is None and isinstance(st, ast.With) and len(st.items) == 1 and st.items[0].optional_vars is None and isinstance(st.items[0].context_expr, ast.Call) \
                    and dotted(st.items[0].context_expr.func) in ('suppress', 'contextlib.suppress') and st.items[0].context_expr.args and not st.items[0].context_expr.keywords:
                excs = st.items[0].context_expr.args
                typ = excs[0] if len(excs) == 1 else ast.Tuple(elts=list(excs), ctx=ast.Load())
                new = [ast.Try(body=st.body, handlers=[ast.ExceptHandler(type=typ, name=None, body=[ast.Pass()])], orelse=[], finalbody=[])]
            if new is None:
                out.append(st)
            else:
                for n_ in new:
                    ast.copy_location(n_, st)
                    ast.fix_missing_locations(n_)
                    # keep the line of each original sub-expression where possible
                out.extend(new)
        return out

    def generic_visit(self, node):
        super().generic_visit(node)
        for field in ('body', 'orelse', 'finalbody'):
            v = getattr(node, field, None)
            if isinstance(v, list) and v and isinstance(v[0], ast.stmt):
                setattr(node, field, self._block(v))
        if isinstance(node, ast.Try):
            for h in node.handlers:
                h.body = self._block(h.body)
        return node


class _LoopForms(ast.NodeTransformer):
    """Normal forms of loops (behaviour-preserving):
      * `for x in iter(partial(h.read, n), S): B` / `for x in iter(lambda: h.read(n), S): B`  ->  `while True: x = h.read(n); if x == S: break; B`
      * `for v in itertools.count(a[, k]): B` (B without `continue`)  ->  `v = a; while True: B; v += k`"""

    def visit_For(self, node):
        self.generic_visit(node)
        it = node.iter
        if node.orelse or not isinstance(node.target, ast.Name) or not isinstance(it, ast.Call):
            return node
        f = dotted(it.func) or ''
        if f == 'iter' and len(it.args) == 2 and not it.keywords:
            src, sentinel = it.args
            call = None
            if isinstance(src, ast.Lambda) and not src.args.args and isinstance(src.body, ast.Call):
                call = src.body
            elif isinstance(src, ast.Call) and (dotted(src.func) or '').split('.')[-1] == 'partial' and src.args:
                call = ast.Call(func=src.args[0], args=list(src.args[1:]), keywords=list(src.keywords))
            if call is not None:
                x = node.target.id
                asg = ast.Assign(targets=[ast.Name(x, ast.Store())], value=call)
                brk = ast.If(test=ast.Compare(left=ast.Name(x, ast.Load()), ops=[ast.Eq()], comparators=[sentinel]), body=[ast.Break()], orelse=[])
                new = ast.While(test=ast.Constant(True), body=[asg, brk] + node.body, orelse=[])
                ast.copy_location(new, node)
                for n_ in (asg, brk):
                    ast.copy_location(n_, node)
                ast.fix_missing_locations(new)
                return new
        if f in ('itertools.count', 'count') and len(it.args) <= 2 and not it.keywords:
            # a `continue` of this loop would skip the increment that the rewrite puts at the end of the body
            def own_continue(stmts):
                for st in stmts:
                    if isinstance(st, ast.Continue):
                        return True
                    if isinstance(st, (ast.For, ast.While, ast.FunctionDef, ast.AsyncFunctionDef, ast.ClassDef)):
                        continue
                    for field in ('body', 'orelse', 'finalbody'):
                        if own_continue(getattr(st, field, []) or []):
                            return True
                    for h in getattr(st, 'handlers', []) or []:
                        if own_continue(h.body):
                            return True
                return False
            if not own_continue(node.body):
                v = node.target.id
                start = it.args[0] if it.args else ast.Constant(0)
                step = it.args[1] if len(it.args) == 2 else ast.Constant(1)
                init = ast.Assign(targets=[ast.Name(v, ast.Store())], value=start)
                inc = ast.AugAssign(target=ast.Name(v, ast.Store()), op=ast.Add(), value=step)
                loop = ast.While(test=ast.Constant(True), body=node.body + [inc], orelse=[])
                for n_ in (init, loop):
                    ast.copy_location(n_, node)
                ast.copy_location(inc, node.body[-1])
                ast.fix_missing_locations(init)
                ast.fix_missing_locations(loop)
                return [init, loop]
        return node


def _inline_new_constants(trees, known):
    """Normal form (behaviour-preserving): a module- or class-level name that is new with respect to the pinned tree (not in dosa/known_constants.json), is bound exactly
    once to a literal (str / bytes / int / bool / tuple of those) and never rebound, is read as that literal: pulling a magic value up into a named constant changes nothing."""
    import copy
    cands = {}

    def scan(body, owner):
        for st in body:
            if isinstance(st, ast.ClassDef):
                scan(st.body, st.name)
            elif isinstance(st, (ast.Assign, ast.AnnAssign)) and st.value is not None:
                tgts = st.targets if isinstance(st, ast.Assign) else [st.target]
                if len(tgts) == 1 and isinstance(tgts[0], ast.Name) and tgts[0].id not in known and tgts[0].id.strip('_').isupper():
                    v = st.value
                    simple = isinstance(v, ast.Constant) and isinstance(v.value, (str, bytes, int, bool)) or \
                        (isinstance(v, (ast.Tuple, ast.List)) and all(isinstance(e, ast.Constant) for e in v.elts)) or \
                        (isinstance(v, ast.BinOp) and all(isinstance(x, (ast.Constant, ast.BinOp, ast.Mult, ast.Add, ast.Sub, ast.Pow, ast.LShift)) for x in ast.walk(v) if not isinstance(x, (ast.Load,))))
                    if simple:
                        cands[tgts[0].id] = None if tgts[0].id in cands else (v, owner)
    for t in trees:
        scan(t.body, None)
    cands = {k: v for k, v in cands.items() if v is not None}
    # never rebound / mutated anywhere
    for t in trees:
        for n in ast.walk(t):
            if isinstance(n, ast.Name) and n.id in cands and isinstance(n.ctx, (ast.Store, ast.Del)):
                par_ok = False
                # the defining assignment itself is a Store too: count stores, keep only names stored once
                cands[n.id] = (cands[n.id][0], cands[n.id][1], cands[n.id][2] + 1) if len(cands[n.id]) == 3 else (cands[n.id][0], cands[n.id][1], 1)
            elif isinstance(n, ast.Attribute) and n.attr in cands and isinstance(n.ctx, (ast.Store, ast.Del)):
                cands[n.attr] = (cands[n.attr][0], cands[n.attr][1], 99)
    cands = {k: v for k, v in cands.items() if len(v) == 3 and v[2] == 1}
    if not cands:
        return

    class Sub(ast.NodeTransformer):
        def visit_Name(self, node):
            if node.id in cands and isinstance(node.ctx, ast.Load) and cands[node.id][1] is None:
                return ast.copy_location(copy.deepcopy(cands[node.id][0]), node)
            return node

        def visit_Attribute(self, node):
            self.generic_visit(node)
            if node.attr in cands and isinstance(node.ctx, ast.Load) and cands[node.attr][1] is not None and isinstance(node.value, ast.Name) \
                    and node.value.id in ('self', 'cls', cands[node.attr][1]):
                return ast.copy_location(copy.deepcopy(cands[node.attr][0]), node)
            return node

        def visit_ClassDef(self, node):
            # inside the owning class body the constant is also visible as a bare name (other class-level assignments)
            self.generic_visit(node)
            return node
    class FoldF(ast.NodeTransformer):
        # f'{x}{".lock"}' -> f'{x}.lock' after a constant was substituted into a formatted value
        def visit_JoinedStr(self, node):
            self.generic_visit(node)
            vals = []
            for v in node.values:
                if isinstance(v, ast.FormattedValue) and v.conversion == -1 and v.format_spec is None and isinstance(v.value, ast.Constant) and isinstance(v.value.value, str):
                    v = ast.Constant(v.value.value)
                if isinstance(v, ast.Constant) and vals and isinstance(vals[-1], ast.Constant):
                    vals[-1] = ast.Constant(vals[-1].value + v.value)
                else:
                    vals.append(v)
            node.values = vals
            if len(vals) == 1 and isinstance(vals[0], ast.Constant):
                return ast.copy_location(vals[0], node)
            return node
    for t in trees:
        Sub().visit(t)
        FoldF().visit(t)
        ast.fix_missing_locations(t)


class _FlagLoops(ast.NodeTransformer):
    """Normal form (behaviour-preserving): `flag = False` ... `while not flag: B` where `flag` is set (to True) only as the last action of an iteration -- i.e. in tail
    positions of B -- and read nowhere else, is read as `while True: B'` with `break` in place of `flag = True`; a name-only test `if x: A else: <jump>` is then turned so
    that the jump comes first (`if not x: <jump>` ; A)."""

    def visit_FunctionDef(self, node):
        self.generic_visit(node)
        for ch in ast.walk(node):
            for field in ('body', 'orelse', 'finalbody'):
                v = getattr(ch, field, None)
                if isinstance(v, list) and v and isinstance(v[0], ast.stmt):
                    setattr(ch, field, self._block(v, node))
        return node

    visit_AsyncFunctionDef = visit_FunctionDef

    def _block(self, stmts, fn):
        out = []
        for i, st in enumerate(stmts):
            if isinstance(st, ast.While) and not st.orelse and isinstance(st.test, ast.UnaryOp) and isinstance(st.test.op, ast.Not) and isinstance(st.test.operand, ast.Name):
                flag = st.test.operand.id
                prev = out[-1] if out else None
                init_ok = isinstance(prev, ast.Assign) and len(prev.targets) == 1 and isinstance(prev.targets[0], ast.Name) and prev.targets[0].id == flag \
                    and isinstance(prev.value, ast.Constant) and prev.value.value is False
                uses = [n for n in ast.walk(fn) if isinstance(n, ast.Name) and n.id == flag]
                sets = [n for n in ast.walk(st) if isinstance(n, ast.Assign) and len(n.targets) == 1 and isinstance(n.targets[0], ast.Name) and n.targets[0].id == flag]
                # uses: the init, the test, and the sets -- nothing else
                if init_ok and sets and len(uses) == 2 + len(sets) and all(isinstance(x.value, ast.Constant) and x.value.value is True for x in sets) and self._tail_only(st.body, sets):
                    for x in sets:
                        self._replace(st, x, ast.copy_location(ast.Break(), x))
                    st.test = ast.copy_location(ast.Constant(True), st.test)
                    out.pop()   # the initialisation of the flag
            out.append(st)
        return out

    def _tail_only(self, body, sets):
        """every statement of `sets` is the last statement executed in an iteration: last of the body, or last of an if-arm that is last ..."""
        def tails(stmts):
            if not stmts:
                return []
            last = stmts[-1]
            if isinstance(last, ast.If):
                return tails(last.body) + tails(last.orelse)
            return [last]
        t = tails(body)
        inner_loops = [n for s_ in body for n in ast.walk(s_) if isinstance(n, (ast.For, ast.While))]
        return all(any(x is y for y in t) for x in sets) and not any(any(x is y for y in ast.walk(lp)) for lp in inner_loops for x in sets)

    def _replace(self, root, old, new):
        for n in ast.walk(root):
            for field in ('body', 'orelse', 'finalbody'):
                v = getattr(n, field, None)
                if isinstance(v, list) and old in v:
                    v[v.index(old)] = new


class _DropLocalAnnotations(ast.NodeTransformer):
    """Normal form (behaviour-preserving): inside functions `x: T = v` is read as `x = v` and a bare `x: T` as nothing: annotating a local changes no behaviour,
    and no rule should depend on whether a local carries an annotation.  Class-level annotated assignments (dataclass fields) are left alone."""

    def __init__(self):
        self.depth = 0

    def visit_FunctionDef(self, node):
        self.depth += 1
        self.generic_visit(node)
        self.depth -= 1
        return node

    visit_AsyncFunctionDef = visit_FunctionDef

    def visit_ClassDef(self, node):
        d, self.depth = self.depth, 0
        self.generic_visit(node)
        self.depth = d
        return node

    def visit_AnnAssign(self, node):
        self.generic_visit(node)
        if self.depth == 0:
            return node
        if node.value is None:
            return ast.copy_location(ast.Pass(), node)
        return ast.copy_location(ast.Assign(targets=[node.target], value=node.value), node)


class _SplitOrGuards(ast.NodeTransformer):
    """Normal form (behaviour-preserving): `if a or b: S` where S always leaves the block (ends in return / raise / continue / break) and there is no else-arm is
    read as `if a: S` followed by `if b: S` (S a single return / raise / continue / break) -- exactly what short-circuit evaluation does.  Guards merged with `or` and guards written one after the other read alike."""
    TERM = (ast.Return, ast.Raise, ast.Continue, ast.Break)

    def _block(self, stmts):
        import copy
        out = []
        for st in stmts:
            if isinstance(st, ast.If) and not st.orelse and isinstance(st.test, ast.BoolOp) and isinstance(st.test.op, ast.Or) and st.body and isinstance(st.body[-1], self.TERM) \
                    and len(st.body) == 1 and not any(isinstance(x, ast.NamedExpr) for x in ast.walk(st.test)):
                for v in st.test.values:
                    n_ = ast.If(test=v, body=copy.deepcopy(st.body), orelse=[])
                    ast.copy_location(n_, st)
                    ast.fix_missing_locations(n_)
                    out.append(n_)
            else:
                out.append(st)
        return out

    def generic_visit(self, node):
        super().generic_visit(node)
        for field in ('body', 'orelse', 'finalbody'):
            v = getattr(node, field, None)
            if isinstance(v, list) and v and isinstance(v[0], ast.stmt):
                setattr(node, field, self._block(v))
        if isinstance(node, ast.Try):
            for h in node.handlers:
                h.body = self._block(h.body)
        return node


class _Accumulate(ast.NodeTransformer):
    """Normal form (behaviour-preserving): `acc = []` immediately followed by `for t in it: [if c:] acc.append(e)` (likewise `set()`/`.add`,
    `{}`/`acc[k] = v`) is read as the comprehension `acc = [e for t in it if c]`; and `acc = <comprehension>; return acc` with no other use of
    `acc` as `return <comprehension>`.  Only when `acc` does not occur in `it`, `e`, `c` and the loop has no else / break / continue."""

    def visit_FunctionDef(self, node):
        self.generic_visit(node)
        self._uses = {}
        for n in ast.walk(node):
            if isinstance(n, ast.Name):
                self._uses[n.id] = self._uses.get(n.id, 0) + 1
        for ch in ast.walk(node):
            for field in ('body', 'orelse', 'finalbody'):
                v = getattr(ch, field, None)
                if isinstance(v, list) and v and isinstance(v[0], ast.stmt):
                    setattr(ch, field, self._block(v))
        return node

    visit_AsyncFunctionDef = visit_FunctionDef

    @staticmethod
    def _kind(v):
        if isinstance(v, ast.List) and not v.elts:
            return 'list'
        if isinstance(v, ast.Dict) and not v.keys:
            return 'dict'
        if isinstance(v, ast.Call) and isinstance(v.func, ast.Name) and v.func.id in ('set', 'list', 'dict') and not v.args and not v.keywords:
            return v.func.id
        return None

    def _comp(self, init, loop):
        acc = init.targets[0].id
        kind = self._kind(init.value)
        if kind is None or not isinstance(loop, ast.For) or loop.orelse:
            return None
        body, ifs = loop.body, []
        while len(body) == 1 and isinstance(body[0], ast.If) and not body[0].orelse:
            ifs.append(body[0].test)
            body = body[0].body
        if len(body) != 1:
            return None
        st = body[0]
        parts = [loop.iter, loop.target] + ifs
        comp = None
        gen = ast.comprehension(target=loop.target, iter=loop.iter, ifs=ifs, is_async=0)
        if kind in ('list', 'set') and isinstance(st, ast.Expr) and isinstance(st.value, ast.Call) and isinstance(st.value.func, ast.Attribute) \
                and isinstance(st.value.func.value, ast.Name) and st.value.func.value.id == acc and st.value.func.attr == ('append' if kind == 'list' else 'add') \
                and len(st.value.args) == 1 and not st.value.keywords:
            parts.append(st.value.args[0])
            comp = (ast.ListComp if kind == 'list' else ast.SetComp)(elt=st.value.args[0], generators=[gen])
        elif kind == 'dict' and isinstance(st, ast.Assign) and len(st.targets) == 1 and isinstance(st.targets[0], ast.Subscript) \
                and isinstance(st.targets[0].value, ast.Name) and st.targets[0].value.id == acc:
            parts += [st.targets[0].slice, st.value]
            comp = ast.DictComp(key=st.targets[0].slice, value=st.value, generators=[gen])
        if comp is None:
            return None
        for p in parts:
            for x in ast.walk(p):
                if isinstance(x, ast.Name) and x.id == acc:
                    return None
                if isinstance(x, (ast.Yield, ast.YieldFrom, ast.Await, ast.NamedExpr)):
                    return None
        # the loop target must not be used outside the loop (a comprehension does not leak it)
        tnames = [x.id for x in ast.walk(loop.target) if isinstance(x, ast.Name)]
        inner = {}
        for x in ast.walk(loop):
            if isinstance(x, ast.Name):
                inner[x.id] = inner.get(x.id, 0) + 1
        if any(self._uses.get(t, 0) != inner.get(t, 0) for t in tnames):
            return None
        new = ast.copy_location(ast.Assign(targets=init.targets, value=ast.copy_location(comp, loop)), init)
        ast.fix_missing_locations(new)
        return new

    def _block(self, stmts):
        out = []
        i = 0
        while i < len(stmts):
            st = stmts[i]
            nxt = stmts[i + 1] if i + 1 < len(stmts) else None
            if nxt is not None and isinstance(st, ast.Assign) and len(st.targets) == 1 and isinstance(st.targets[0], ast.Name):
                new = self._comp(st, nxt)
                if new is not None:
                    st = new
                    i += 1
                    nxt = stmts[i + 1] if i + 1 < len(stmts) else None
                    acc = st.targets[0].id
                    # acc = <comp>; return acc   (acc: one store in the init, one in ... no: after folding exactly 2 occurrences remain)
                    if isinstance(nxt, ast.Return) and isinstance(nxt.value, ast.Name) and nxt.value.id == acc and self._uses.get(acc, 0) == 3:
                        out.append(ast.copy_location(ast.Return(value=st.value), nxt))
                        i += 2
                        continue
            out.append(st)
            i += 1
        return out


_CMP_SWAP = {ast.Lt: ast.Gt, ast.Gt: ast.Lt, ast.LtE: ast.GtE, ast.GtE: ast.LtE, ast.Eq: ast.Eq, ast.NotEq: ast.NotEq}


def _cmp_rank(e):
    if isinstance(e, ast.Constant):
        return 3
    if isinstance(e, ast.UnaryOp) and isinstance(e.operand, ast.Constant):
        return 3
    if isinstance(e, ast.Attribute) and isinstance(e.value, ast.Name) and e.value.id[:1].isupper() and e.attr.isupper():
        return 2  # Enum member / class constant: Location.BOTH, CompressMode.YES
    return 0


class _CanonCompare(ast.NodeTransformer):
    """Normal form of single comparisons (behaviour-preserving for the side-effect-free operands it touches): the more constant
    operand goes right (`0 < x` -> `x > 0`, `Location.BOTH == where` -> `where == Location.BOTH`); between two equally ranked
    operands the source order is kept (rules treat both orientations alike)."""

    def visit_Compare(self, node):
        self.generic_visit(node)
        if len(node.ops) != 1 or type(node.ops[0]) not in _CMP_SWAP:
            return node
        l, r = node.left, node.comparators[0]
        if any(isinstance(x, (ast.Call, ast.Yield, ast.Await, ast.NamedExpr)) for e in (l, r) for x in ast.walk(e)):
            return node
        rl, rr = _cmp_rank(l), _cmp_rank(r)
        swap = rl > rr
        if swap:
            node.left, node.comparators[0] = r, l
            node.ops = [_CMP_SWAP[type(node.ops[0])]()]
        return node


class _CallConvention(ast.NodeTransformer):
    """Normal form (behaviour-preserving): every call of one of the package's own functions is spelled with as many positional arguments as the pinned tree
    uses for that callee (dosa/callconv.json, generated by tools/gen_callconv.py); missing leading positionals are taken from keywords that name those
    parameters, surplus positionals become keywords -- by the callee's *current* signature.  `f(pack_id=x)` and `f(x)` are the same call."""

    def __init__(self, sigs, conv):
        self.sigs, self.conv = sigs, conv

    def visit_Call(self, node):
        self.generic_visit(node)
        name = node.func.attr if isinstance(node.func, ast.Attribute) else (node.func.id if isinstance(node.func, ast.Name) else None)
        if name not in self.conv or name not in self.sigs:
            return node
        if any(isinstance(a, ast.Starred) for a in node.args) or any(k.arg is None for k in node.keywords):
            return node
        params, n = self.sigs[name], self.conv[name]
        if n > len(params):
            return node
        while len(node.args) < n:
            want = params[len(node.args)]
            kw = next((k for k in node.keywords if k.arg == want), None)
            if kw is None:
                break
            # only the keyword evaluated first may move in front without changing the evaluation order of the remaining keywords
            node.keywords.remove(kw)
            node.args.append(kw.value)
        while len(node.args) > n:
            v = node.args.pop()
            node.keywords.insert(0, ast.keyword(arg=params[len(node.args)], value=v))
        return node


class _Rename(ast.NodeTransformer):
    def __init__(self, mapping, subst):
        self.mapping, self.subst = mapping, subst

    def visit_Name(self, node):
        if node.id in self.subst and isinstance(node.ctx, ast.Load):
            import copy
            return ast.copy_location(copy.deepcopy(self.subst[node.id]), node)
        if node.id in self.mapping:
            return ast.copy_location(ast.Name(self.mapping[node.id], node.ctx), node)
        return node

    def visit_arg(self, node):
        return node


def _prune_constant_ifs(stmts):
    """`if True: A else: B` -> A ; `if False: A else: B` -> B (after a constant argument was substituted for a parameter)."""
    out = []
    for st in stmts:
        for field in ('body', 'orelse', 'finalbody'):
            v = getattr(st, field, None)
            if isinstance(v, list) and v and isinstance(v[0], ast.stmt):
                setattr(st, field, _prune_constant_ifs(v) or ([ast.Pass()] if field == 'body' else []))
        if isinstance(st, ast.Try):
            for h in st.handlers:
                h.body = _prune_constant_ifs(h.body) or [ast.Pass()]
        if isinstance(st, ast.If) and isinstance(st.test, ast.Constant):
            out.extend(st.body if st.test.value else st.orelse)
        elif isinstance(st, ast.If) and isinstance(st.test, ast.UnaryOp) and isinstance(st.test.op, ast.Not) and isinstance(st.test.operand, ast.Constant):
            out.extend(st.orelse if st.test.operand.value else st.body)
        else:
            out.append(st)
    return out


def _merge_self_reassignments(stmts):
    """`x = A` immediately followed by `x = x.m(...)` (x used once, as the receiver)  ->  `x = A.m(...)`: a statement built in two steps reads like the one-step spelling."""
    out = []
    for st in stmts:
        prev = out[-1] if out else None
        if isinstance(st, ast.Assign) and len(st.targets) == 1 and isinstance(st.targets[0], ast.Name) and isinstance(prev, ast.Assign) and len(prev.targets) == 1 \
                and isinstance(prev.targets[0], ast.Name) and prev.targets[0].id == st.targets[0].id and isinstance(st.value, ast.Call) and isinstance(st.value.func, ast.Attribute) \
                and isinstance(st.value.func.value, ast.Name) and st.value.func.value.id == st.targets[0].id \
                and sum(isinstance(x, ast.Name) and x.id == st.targets[0].id for x in ast.walk(st.value)) == 1:
            st.value.func.value = prev.value
            out[-1] = st
            continue
        for field in ('body', 'orelse', 'finalbody'):
            v = getattr(st, field, None)
            if isinstance(v, list) and v and isinstance(v[0], ast.stmt):
                setattr(st, field, _merge_self_reassignments(v))
        out.append(st)
    return out


def _inline_new_helpers(trees, known):
    """Normal form (behaviour-preserving reading): a *private* function that is new with respect to the pinned tree (its name is not in dosa/known_functions.json),
    has a single exit (no `return` except as its last statement), is neither a generator nor recursive nor decorated (staticmethod / classmethod apart), is read
    as part of its callers: each call at statement level -- `h(..)`, `x = h(..)`, `return h(..)` -- is replaced by the helper's body with the parameters bound to
    the arguments, and the helper's definition is dropped once no reference to it is left.  An extracted helper is the same code as before the extraction."""
    import copy
    helpers = {}

    def collect(body, owner):
        for st in body:
            if isinstance(st, ast.ClassDef):
                collect(st.body, st)
            elif isinstance(st, ast.FunctionDef) and st.name not in known and st.name.startswith('_') and not st.name.startswith('__'):
                decos = [dotted(d) for d in st.decorator_list]
                if any(d not in ('staticmethod', 'classmethod') for d in decos):
                    continue
                a = st.args
                if a.vararg or a.kwarg or a.kwonlyargs and any(d is None for d in a.kw_defaults):
                    continue
                inner = [n for n in ast.walk(st) if n is not st]
                if any(isinstance(n, (ast.Await, ast.FunctionDef, ast.AsyncFunctionDef, ast.ClassDef, ast.Global, ast.Nonlocal)) for n in inner):
                    continue
                is_gen = any(isinstance(n, (ast.Yield, ast.YieldFrom)) for n in inner)
                if is_gen and any(isinstance(n, ast.Return) and n.value is not None for n in inner):
                    continue
                body_ = [x for x in st.body if not (isinstance(x, ast.Expr) and isinstance(x.value, ast.Constant) and isinstance(x.value.value, str))]
                rets = [n for n in inner if isinstance(n, ast.Return)]
                if not body_:
                    continue
                single = len(rets) == 0 or (len(rets) == 1 and rets[0] is body_[-1])
                if any(isinstance(n, ast.Call) and ((isinstance(n.func, ast.Attribute) and n.func.attr == st.name) or (isinstance(n.func, ast.Name) and n.func.id == st.name)) for n in inner):
                    continue
                if st.name in helpers:
                    helpers[st.name] = None   # ambiguous name
                else:
                    helpers[st.name] = (st, owner, body_, 'staticmethod' in decos, single, is_gen)
    for t in trees:
        collect(t.body, None)
    helpers = {k: v for k, v in helpers.items() if v is not None}
    if not helpers:
        return trees

    def call_of(e):
        if not isinstance(e, ast.Call):
            return None
        if isinstance(e.func, ast.Attribute) and e.func.attr in helpers and helpers[e.func.attr][1] is not None and isinstance(e.func.value, ast.Name):
            return e.func.attr
        if isinstance(e.func, ast.Name) and e.func.id in helpers and helpers[e.func.id][1] is None:
            return e.func.id
        return None

    def expand(call, hname, caller_names, sink):
        """sink: 'expr' | ('assign', stmt) | 'return'; returns the replacement statements or None."""
        fn, owner, body_, static, single, is_gen = helpers[hname]
        if is_gen != (sink == 'yieldfrom'):
            return None
        if sink == 'whiletest':
            single = False   # go through conv(): every return is delivered as break / fall-through
        if sink == 'yieldfrom':
            sink = 'expr'
        a = fn.args
        params = [x.arg for x in a.posonlyargs + a.args]
        if owner is not None and not static and params:
            params = params[1:]
        if any(isinstance(x, ast.Starred) for x in call.args) or any(k.arg is None for k in call.keywords) or len(call.args) > len(params):
            return None
        binding = dict(zip(params, call.args))
        for k in call.keywords:
            if k.arg not in params or k.arg in binding:
                return None
            binding[k.arg] = k.value
        defaults = dict(zip(params[len(params) - len(a.defaults):], a.defaults)) if a.defaults else {}
        for p_ in params:
            if p_ not in binding:
                if p_ not in defaults:
                    return None
                binding[p_] = defaults[p_]
        stores = {n.id for st in body_ for n in ast.walk(st) if isinstance(n, ast.Name) and isinstance(n.ctx, (ast.Store, ast.Del))}
        pre, subst, mapping = [], {}, {}
        for p_ in params:
            arg = binding[p_]
            if isinstance(arg, ast.Name) and arg.id == p_:
                continue
            if p_ not in stores and (_simple_expr(arg) or isinstance(arg, ast.Constant)):
                subst[p_] = arg
            else:
                new = p_ if p_ not in caller_names else f'{p_}_{hname.strip("_")}'
                mapping[p_] = new
                pre.append(ast.Assign(targets=[ast.Name(new, ast.Store())], value=copy.deepcopy(arg)))
        for loc in stores - set(params):
            if loc in caller_names:
                pass   # an extracted block re-uses the caller's names for the caller's variables: keep them
        body2 = [_Rename(mapping, subst).visit(copy.deepcopy(st)) for st in body_]
        body2 = _prune_constant_ifs(body2)
        body2 = _merge_self_reassignments(body2)
        if sink == 'return':
            # the helper's own returns are the caller's returns
            out = pre + body2
            if not (body2 and isinstance(body2[-1], (ast.Return, ast.Raise))):
                out.append(ast.Return(value=None))
        else:
            def deliver(value):
                if sink == 'whiletest':
                    # the helper is the test of a `while`: False -> leave the loop, True -> go on with the body, anything else -> leave unless it holds
                    if isinstance(value, ast.Constant):
                        return [] if value.value else [ast.Break()]
                    if value is None:
                        return [ast.Break()]
                    flip = {ast.Lt: ast.GtE, ast.GtE: ast.Lt, ast.Gt: ast.LtE, ast.LtE: ast.Gt, ast.Eq: ast.NotEq, ast.NotEq: ast.Eq, ast.Is: ast.IsNot, ast.IsNot: ast.Is, ast.In: ast.NotIn, ast.NotIn: ast.In}
                    if isinstance(value, ast.Compare) and len(value.ops) == 1 and type(value.ops[0]) in flip:
                        neg = ast.Compare(left=value.left, ops=[flip[type(value.ops[0])]()], comparators=value.comparators)
                    elif isinstance(value, ast.UnaryOp) and isinstance(value.op, ast.Not):
                        neg = value.operand
                    else:
                        neg = ast.UnaryOp(op=ast.Not(), operand=value)
                    return [ast.If(test=neg, body=[ast.Break()], orelse=[])]
                if sink == 'expr':
                    return [ast.Expr(value)] if value is not None and not isinstance(value, (ast.Name, ast.Constant)) else []
                new = copy.copy(sink[1])
                new.value = value if value is not None else ast.Constant(None)
                # `x = h(..)` followed by `if x is None: continue` (the helper says "skip" by returning None): on the helper's `return None` paths the jump is taken at once
                tgt = sink[1].targets[0] if isinstance(sink[1], ast.Assign) and len(sink[1].targets) == 1 else getattr(sink[1], 'target', None)
                nxt = sink[2] if len(sink) > 2 else None
                if isinstance(new.value, ast.Constant) and new.value.value is None and isinstance(tgt, ast.Name) and isinstance(nxt, ast.If) and not nxt.orelse and len(nxt.body) == 1 \
                        and isinstance(nxt.body[0], (ast.Continue, ast.Break, ast.Return, ast.Raise)) and isinstance(nxt.test, ast.Compare) and len(nxt.test.ops) == 1 \
                        and isinstance(nxt.test.ops[0], ast.Is) and isinstance(nxt.test.left, ast.Name) and nxt.test.left.id == tgt.id \
                        and isinstance(nxt.test.comparators[0], ast.Constant) and nxt.test.comparators[0].value is None:
                    return [new, copy.deepcopy(nxt.body[0])]
                return [new]

            class NotConvertible(Exception):
                pass

            def has_ret(x):
                return any(isinstance(n, ast.Return) for n in ast.walk(x))

            def conv(stmts):
                # statements with `return` in tail positions -> statements that deliver the value and fall off the end
                for i, st_ in enumerate(stmts):
                    if isinstance(st_, ast.Return):
                        return stmts[:i] + deliver(st_.value)
                    if not has_ret(st_):
                        continue
                    rest = stmts[i + 1:]
                    if isinstance(st_, ast.If):
                        new_if = ast.copy_location(ast.If(test=st_.test, body=conv(st_.body + copy.deepcopy(rest)) or [ast.Pass()], orelse=conv(st_.orelse + copy.deepcopy(rest))), st_)
                        return stmts[:i] + [new_if]
                    if isinstance(st_, ast.Try) and not any(has_ret(x) for x in st_.body + st_.finalbody):
                        new_try = ast.copy_location(ast.Try(body=st_.body, handlers=[ast.copy_location(ast.ExceptHandler(type=h.type, name=h.name, body=conv(h.body) or [ast.Pass()]), h) for h in st_.handlers],
                                                            orelse=conv(st_.orelse + copy.deepcopy(rest)), finalbody=st_.finalbody), st_)
                        return stmts[:i] + [new_try]
                    if isinstance(st_, (ast.While, ast.For)) and not rest and sink == 'expr':
                        # a loop that is the last statement of the helper: a bare `return` inside it (not in an inner loop) is a `break`
                        class R2B(ast.NodeTransformer):
                            ok = True

                            def visit_While(self, n):
                                if n is st_:
                                    return self.generic_visit(n)
                                if has_ret(n):
                                    R2B.ok = False
                                return n
                            visit_For = visit_While

                            def visit_Return(self, n):
                                if n.value is not None and not (isinstance(n.value, ast.Constant) and n.value.value is None):
                                    R2B.ok = False
                                return ast.copy_location(ast.Break(), n)
                        R2B.ok = True
                        new_loop = R2B().visit(st_)
                        if R2B.ok:
                            return stmts[:i] + [new_loop]
                    raise NotConvertible
                return stmts + deliver(None)
            try:
                out = pre + (conv(body2) if not single else (body2[:-1] + deliver(body2[-1].value) if body2 and isinstance(body2[-1], ast.Return) else body2 + deliver(None)))
            except NotConvertible:
                return None
        for n_ in out:
            ast.copy_location(n_, call)
            ast.fix_missing_locations(n_)
        return out

    class Inliner(ast.NodeTransformer):
        def __init__(self):
            self.count = 0

        def visit_FunctionDef(self, node):
            self.generic_visit(node)
            names = {n.id for n in ast.walk(node) if isinstance(n, ast.Name)} | {x.arg for x in ast.walk(node) if isinstance(x, ast.arg)}
            for ch in [node] + [n for n in ast.walk(node) if n is not node]:
                for field in ('body', 'orelse', 'finalbody'):
                    v = getattr(ch, field, None)
                    if isinstance(v, list) and v and isinstance(v[0], ast.stmt):
                        setattr(ch, field, self._block(v, names))
                if isinstance(ch, ast.Try):
                    for h in ch.handlers:
                        h.body = self._block(h.body, names)
            return node

        def _block(self, stmts, names):
            out = []
            for i_, st in enumerate(stmts):
                nxt_ = stmts[i_ + 1] if i_ + 1 < len(stmts) else None
                rep = None
                # `recv.m(h(..))` / `x = f(h(..))` with h a new helper as a direct argument, preceded only by side-effect-free expressions: hoist into a temporary first
                outer = st.value if isinstance(st, (ast.Expr, ast.Assign, ast.Return)) and isinstance(getattr(st, 'value', None), ast.Call) else None
                if outer is not None and call_of(outer) is None and (not isinstance(outer.func, ast.Attribute) or _simple_expr(outer.func.value)):
                    for ai, a_ in enumerate(outer.args):
                        if call_of(a_) and all(_simple_expr(b_) for b_ in outer.args[:ai]):
                            tmp = f'_ret_{call_of(a_).strip("_")}'
                            pre_asg = ast.copy_location(ast.Assign(targets=[ast.Name(tmp, ast.Store())], value=a_), st)
                            ast.fix_missing_locations(pre_asg)
                            rep0 = expand(a_, call_of(a_), names, ('assign', pre_asg, None))
                            if rep0 is not None:
                                outer.args[ai] = ast.copy_location(ast.Name(tmp, ast.Load()), a_)
                                self.count += 1
                                out.extend(rep0)
                            break
                        if not _simple_expr(a_):
                            break
                if isinstance(st, ast.Expr) and isinstance(st.value, ast.YieldFrom):
                    h = call_of(st.value.value)
                    if h:
                        rep = expand(st.value.value, h, names, 'yieldfrom')
                elif isinstance(st, ast.Expr):
                    h = call_of(st.value)
                    if h:
                        rep = expand(st.value, h, names, 'expr')
                elif isinstance(st, (ast.Assign, ast.AnnAssign)) and st.value is not None:
                    h = call_of(st.value)
                    if h:
                        rep = expand(st.value, h, names, ('assign', st, nxt_))
                elif isinstance(st, ast.Return) and st.value is not None:
                    h = call_of(st.value)
                    if h:
                        rep = expand(st.value, h, names, 'return')
                if rep is None and isinstance(st, ast.While) and not st.orelse and call_of(st.test):
                    pre = expand(st.test, call_of(st.test), names, 'whiletest')
                    if pre is not None:
                        st.test = ast.copy_location(ast.Constant(True), st.test)
                        st.body = pre + st.body
                        self.count += 1
                if rep is None:
                    out.append(st)
                else:
                    self.count += 1
                    out.extend(rep)
            return out

    for _ in range(3):
        total = 0
        for t in trees:
            inl = Inliner()
            inl.visit(t)
            if inl.count:
                t._inlined = True
            total += inl.count
        if not total:
            break
    # inlined statements carry the helper's line numbers: renumber the modules in which something was inlined so that source order == line order again
    # (rules compare line numbers to order statements within a function); the original number is kept in `_orig_lineno` for messages
    def renumber(tree):
        counter = [0]

        def visit(node):
            if isinstance(node, (ast.stmt, ast.ExceptHandler)):
                counter[0] += 1
                for sub in ast.walk(node):
                    if hasattr(sub, 'lineno') and not isinstance(sub, (ast.stmt, ast.ExceptHandler)) or sub is node:
                        if not hasattr(sub, '_orig_lineno'):
                            sub._orig_lineno = getattr(sub, 'lineno', None)
                # direct expression children of this statement (not nested statements) share its number
                todo = [node]
                while todo:
                    x = todo.pop()
                    if hasattr(x, 'lineno'):
                        x.lineno = counter[0]
                        x.end_lineno = counter[0]
                    for ch in ast.iter_child_nodes(x):
                        if not isinstance(ch, (ast.stmt, ast.ExceptHandler)):
                            todo.append(ch)
            for ch in ast.iter_child_nodes(node):
                if isinstance(ch, (ast.stmt, ast.ExceptHandler)):
                    visit(ch)
                elif not isinstance(node, (ast.stmt, ast.ExceptHandler)):
                    visit(ch)
        visit(tree)
    for t in trees:
        if getattr(t, '_inlined', False):
            renumber(t)
    # drop helper definitions that nothing refers to any more
    refs = set()
    for t in trees:
        for n in ast.walk(t):
            if isinstance(n, ast.Attribute):
                refs.add(n.attr)
            elif isinstance(n, ast.Name):
                refs.add(n.id)
    dead = {h for h in helpers if h not in refs}

    def prune(body):
        body[:] = [st for st in body if not (isinstance(st, ast.FunctionDef) and st.name in dead)]
        for st in body:
            if isinstance(st, ast.ClassDef):
                prune(st.body)
    for t in trees:
        prune(t.body)
    return trees


class _StarTargets(ast.NodeTransformer):
    """Normal form (behaviour-preserving for sequences): `for a, *rest in rows: B` -> `for _row in rows: a = _row[0]; rest = _row[1:]; B`, and `a, *rest = v` likewise."""

    def __init__(self):
        self.n = 0

    def _split(self, target, src_name, at):
        out = []
        elts = target.elts
        k = next(i for i, e in enumerate(elts) if isinstance(e, ast.Starred))
        if k != len(elts) - 1 or not all(isinstance(e, ast.Name) for e in elts[:k]) or not isinstance(elts[k].value, ast.Name):
            return None
        for i, e in enumerate(elts[:k]):
            out.append(ast.Assign(targets=[ast.Name(e.id, ast.Store())], value=ast.Subscript(value=ast.Name(src_name, ast.Load()), slice=ast.Constant(i), ctx=ast.Load())))
        out.append(ast.Assign(targets=[ast.Name(elts[k].value.id, ast.Store())],
                              value=ast.Subscript(value=ast.Name(src_name, ast.Load()), slice=ast.Slice(lower=ast.Constant(k), upper=None, step=None), ctx=ast.Load())))
        for o in out:
            ast.copy_location(o, at)
            ast.fix_missing_locations(o)
        return out

    def visit_For(self, node):
        self.generic_visit(node)
        t = node.target
        if isinstance(t, ast.Tuple) and sum(isinstance(e, ast.Starred) for e in t.elts) == 1:
            self.n += 1
            name = f'_row{self.n}'
            pre = self._split(t, name, node)
            if pre is not None:
                rest = next(e for e in t.elts if isinstance(e, ast.Starred)).value.id
                k = len(t.elts) - 1
                rebound = any(isinstance(x, ast.Name) and x.id == rest and isinstance(x.ctx, ast.Store) for b in node.body for x in ast.walk(b))
                if not rebound:
                    # `f(*rest)` inside the loop is `f(*_row[k:])`
                    for b in node.body:
                        for x in ast.walk(b):
                            if isinstance(x, ast.Starred) and isinstance(x.value, ast.Name) and x.value.id == rest and isinstance(x.ctx, ast.Load):
                                x.value = ast.copy_location(ast.Subscript(value=ast.Name(name, ast.Load()), slice=ast.Slice(lower=ast.Constant(k), upper=None, step=None), ctx=ast.Load()), x)
                                ast.fix_missing_locations(x)
                node.target = ast.copy_location(ast.Name(name, ast.Store()), t)
                node.body = pre + node.body
        return node


class _StarSliceArgs(ast.NodeTransformer):
    """Normal form (behaviour-preserving): `NT(*row[k:])` where NT is a namedtuple of the package with n fields is read as `NT(row[k], ..., row[k+n-1])`."""

    def __init__(self, arity):
        self.arity = arity
        self.slices = {}

    def visit_FunctionDef(self, node):
        # locals bound exactly once, to a tail slice `X[k:]` of a name
        saved = self.slices
        cnt, val = {}, {}
        for n in ast.walk(node):
            if isinstance(n, ast.Name) and isinstance(n.ctx, ast.Store):
                cnt[n.id] = cnt.get(n.id, 0) + 1
            if isinstance(n, ast.Assign) and len(n.targets) == 1 and isinstance(n.targets[0], ast.Name) and isinstance(n.value, ast.Subscript) and isinstance(n.value.value, ast.Name) \
                    and isinstance(n.value.slice, ast.Slice) and n.value.slice.upper is None and n.value.slice.step is None:
                val[n.targets[0].id] = n.value
        self.slices = {k: v for k, v in val.items() if cnt.get(k) == 1}
        self.generic_visit(node)
        self.slices = saved
        return node

    visit_AsyncFunctionDef = visit_FunctionDef

    def visit_Call(self, node):
        self.generic_visit(node)
        name = node.func.id if isinstance(node.func, ast.Name) else (node.func.attr if isinstance(node.func, ast.Attribute) else None)
        if name in self.arity and len(node.args) == 1 and not node.keywords and isinstance(node.args[0], ast.Starred):
            v = node.args[0].value
            if isinstance(v, ast.Name) and v.id in getattr(self, 'slices', {}):
                v = self.slices[v.id]
            if isinstance(v, ast.Subscript) and isinstance(v.value, ast.Name) and isinstance(v.slice, ast.Slice) and v.slice.upper is None and v.slice.step is None \
                    and (v.slice.lower is None or (isinstance(v.slice.lower, ast.Constant) and isinstance(v.slice.lower.value, int) and v.slice.lower.value >= 0)):
                k = v.slice.lower.value if v.slice.lower is not None else 0
                node.args = [ast.copy_location(ast.Subscript(value=ast.Name(v.value.id, ast.Load()), slice=ast.Constant(k + i), ctx=ast.Load()), node) for i in range(self.arity[name])]
                ast.fix_missing_locations(node)
        return node


def _namedtuple_arities(trees):
    out = {}
    for t in trees:
        for st in t.body:
            if isinstance(st, ast.Assign) and len(st.targets) == 1 and isinstance(st.targets[0], ast.Name) and isinstance(st.value, ast.Call) and dotted(st.value.func) in ('namedtuple', 'collections.namedtuple') \
                    and len(st.value.args) >= 2:
                f = st.value.args[1]
                if isinstance(f, (ast.List, ast.Tuple)) and all(isinstance(e, ast.Constant) for e in f.elts):
                    out[st.targets[0].id] = len(f.elts)
                elif isinstance(f, ast.Constant) and isinstance(f.value, str):
                    out[st.targets[0].id] = len(f.value.replace(',', ' ').split())
            elif isinstance(st, ast.ClassDef) and any((dotted(b) or '').split('.')[-1] == 'NamedTuple' for b in st.bases):
                out[st.name] = len([x for x in st.body if isinstance(x, ast.AnnAssign) and isinstance(x.target, ast.Name)])
    return out


def _signatures(trees):
    defs = {}
    for t in trees:
        for n in ast.walk(t):
            if isinstance(n, (ast.FunctionDef, ast.AsyncFunctionDef)):
                a = n.args
                ps = [x.arg for x in a.posonlyargs + a.args]
                if ps and ps[0] in ('self', 'cls'):
                    ps = ps[1:]
                defs.setdefault(n.name, []).append(ps)
            elif isinstance(n, ast.ClassDef):
                init = next((m for m in n.body if isinstance(m, ast.FunctionDef) and m.name == '__init__'), None)
                if init is not None:
                    defs.setdefault(n.name, []).append([x.arg for x in init.args.posonlyargs + init.args.args][1:])
    return {k: v[0] for k, v in defs.items() if len(v) == 1}


class Program:
    def __init__(self, repo=None, extra_files=()):
        self.repo = repo or REPO
        self.modules = {}
        self.functions = {}
        self.classes = {}
        self.lambdas = []
        pkgdir = os.path.join(self.repo, PKG)
        if not os.path.isdir(pkgdir):
            raise AnalysisError(f'package directory {pkgdir} not found')
        h = hashlib.sha256()
        parsed = []
        for fname in sorted(os.listdir(pkgdir)):
            if not fname.endswith('.py'):
                continue
            path = os.path.join(pkgdir, fname)
            with open(path, encoding='utf8') as fh:
                src = fh.read()
            h.update(fname.encode() + b'\0' + src.encode() + b'\0')
            try:
                tree = ast.parse(src, filename=path)
            except SyntaxError as exc:
                raise AnalysisError(f'cannot parse {path}: {exc}') from exc
            parsed.append((fname, path, src, tree))
        import json as _json
        try:
            with open(os.path.join(os.path.dirname(os.path.abspath(__file__)), 'callconv.json')) as fh:
                conv = _json.load(fh)
        except FileNotFoundError:
            conv = {}
        try:
            with open(os.path.join(os.path.dirname(os.path.abspath(__file__)), 'known_functions.json')) as fh:
                known = set(_json.load(fh))
        except FileNotFoundError:
            known = None
        if known is not None:
            _inline_new_helpers([t for _, _, _, t in parsed], known)
        try:
            with open(os.path.join(os.path.dirname(os.path.abspath(__file__)), 'known_constants.json')) as fh:
                _inline_new_constants([t for _, _, _, t in parsed], set(_json.load(fh)))
        except FileNotFoundError:
            pass
        sigs = _signatures([t for _, _, _, t in parsed])
        arity = _namedtuple_arities([t for _, _, _, t in parsed])
        for fname, path, src, tree in parsed:
            tree = _StarTargets().visit(tree)
            tree = _StarSliceArgs(arity).visit(tree)
            tree = _CallConvention(sigs, conv).visit(tree)
            tree = _DropLocalAnnotations().visit(tree)
            tree = _LoopForms().visit(tree)
            tree = _FlagLoops().visit(tree)
            ast.fix_missing_locations(tree)
            tree = _DeWalrus().visit(tree)
            tree = _StatementForms().visit(tree)
            tree = _StatementForms().visit(tree)   # forms nested in what the first pass produced (e.g. a conditional expression inside a conditional expression)
            tree = _SplitOrGuards().visit(tree)
            tree = _Accumulate().visit(tree)
            tree = _CanonCompare().visit(tree)
            tree = _DeElse().visit(tree)
            tree = _Canon().visit(tree)
            tree = _DeElse().visit(tree)
            tree = _InlineTemps().visit(tree)
            name = fname[:-3]
            mod = ModuleInfo(name, path, src, tree)
            self.modules[name] = mod
        self.digest = h.hexdigest()
        for mod in self.modules.values():
            self._index_module(mod)

    # ------------------------------------------------------------------ indexing
    def _index_module(self, mod):
        for n in ast.walk(mod.tree):
            for ch in ast.iter_child_nodes(n):
                ch._parent = n
        mod.tree._parent = None
        self._collect_imports(mod, mod.tree.body)
        for st in mod.tree.body:
            if isinstance(st, ast.Assign) and len(st.targets) == 1 and isinstance(st.targets[0], ast.Name):
                mod.constants[st.targets[0].id] = st.value
            elif isinstance(st, ast.AnnAssign) and isinstance(st.target, ast.Name) and st.value is not None:
                mod.constants[st.target.id] = st.value
            elif isinstance(st, ast.Try):
                # `try: import fcntl; F_FULLFSYNC = getattr(...)  except ImportError: ...` -- first body wins
                for s2 in st.body:
                    if isinstance(s2, ast.Assign) and len(s2.targets) == 1 and isinstance(s2.targets[0], ast.Name):
                        mod.constants.setdefault(s2.targets[0].id, s2.value)
            elif isinstance(st, (ast.FunctionDef, ast.AsyncFunctionDef)):
                self._index_function(mod, None, st, None)
            elif isinstance(st, ast.ClassDef):
                self._index_class(mod, st)

    def _collect_imports(self, mod, body):
        for st in body:
            if isinstance(st, ast.Import):
                for a in st.names:
                    mod.imports[a.asname or a.name.split('.')[0]] = a.name if a.asname else a.name.split('.')[0]
            elif isinstance(st, ast.ImportFrom):
                base = st.module or ''
                if st.level:
                    base = PKG + ('.' + base if base else '')
                for a in st.names:
                    mod.imports[a.asname or a.name] = f'{base}.{a.name}'
            elif isinstance(st, (ast.If, ast.Try)):
                self._collect_imports(mod, st.body)
                if isinstance(st, ast.Try):
                    pass
                else:
                    self._collect_imports(mod, st.orelse)

    def _index_class(self, mod, node):
        ci = ClassInfo(mod, node)
        for b in node.bases:
            d = dotted(b)
            if d:
                ci.bases.append(d)
        mod.classes[node.name] = ci
        self.classes[ci.qualname] = ci
        for st in node.body:
            if isinstance(st, (ast.FunctionDef, ast.AsyncFunctionDef)):
                self._index_function(mod, ci, st, None)
            elif isinstance(st, ast.Assign) and len(st.targets) == 1 and isinstance(st.targets[0], ast.Name):
                ci.constants[st.targets[0].id] = st.value
            elif isinstance(st, ast.AnnAssign) and isinstance(st.target, ast.Name) and st.value is not None:
                ci.constants[st.target.id] = st.value

    def _index_function(self, mod, cls, node, parent):
        fi = FunctionInfo(mod, cls, node, parent)
        for d in node.decorator_list:
            dn = dotted(d.func) if isinstance(d, ast.Call) else dotted(d)
            if dn:
                fi.decorators.append(dn)
        node._fninfo = fi
        if parent is not None:
            parent.nested[fi.name] = fi
            self.functions[fi.qualname] = fi
        elif cls is not None:
            # keep the last non-overload definition; property setters are not used by the repo
            if fi.is_overload:
                self.functions.setdefault(fi.qualname + '@overload', fi)
            else:
                cls.methods[fi.name] = fi
                self.functions[fi.qualname] = fi
        else:
            if not fi.is_overload:
                mod.functions[fi.name] = fi
                self.functions[fi.qualname] = fi
        for n in walk_local(node):
            n._fn = fi
            if isinstance(n, ast.Lambda):
                pass
        # nested defs and lambdas
        stack = list(node.body)
        while stack:
            n = stack.pop()
            if isinstance(n, (ast.FunctionDef, ast.AsyncFunctionDef)):
                self._index_function(mod, cls, n, fi)
                continue
            if isinstance(n, ast.Lambda):
                li = FunctionInfo(mod, cls, n, fi)
                n._fninfo = li
                n._fn = fi
                self.lambdas.append(li)
                for m in walk_local(n):
                    m._fn = li
                stack.extend(ast.iter_child_nodes(n.body))
                continue
            if isinstance(n, ast.ClassDef):
                continue
            stack.extend(ast.iter_child_nodes(n))
        return fi

    # ------------------------------------------------------------------ lookups
    def fn(self, qualname) -> FunctionInfo:
        try:
            return self.functions[qualname]
        except KeyError:
            raise AnalysisError(f'anchor function {qualname} not found in the current tree') from None

    def cls(self, qualname) -> ClassInfo:
        try:
            return self.classes[qualname]
        except KeyError:
            raise AnalysisError(f'anchor class {qualname} not found in the current tree') from None

    def has_fn(self, qualname):
        return qualname in self.functions

    def lookup_dotted(self, d):
        """'disk_objectstore.utils.safe_flush_to_disk' -> FunctionInfo/ClassInfo/('const', mod, name) or None."""
        if not d or not d.startswith(PKG + '.'):
            return None
        parts = d.split('.')[1:]
        if not parts:
            return None
        mod = self.modules.get(parts[0])
        if mod is None:
            # `from disk_objectstore import LOGGER`
            mod = self.modules.get('__init__')
            rest = parts
        else:
            rest = parts[1:]
        if mod is None or not rest:
            return None
        head = rest[0]
        if head in mod.functions and len(rest) == 1:
            return mod.functions[head]
        if head in mod.classes:
            ci = mod.classes[head]
            if len(rest) == 1:
                return ci
            if len(rest) == 2:
                m = self.find_method(ci, rest[1])
                if m:
                    return m
                if rest[1] in ci.constants:
                    return ('const', ci, rest[1])
            return None
        if head in mod.constants and len(rest) == 1:
            return ('const', mod, head)
        # re-exported name
        if head in mod.imports and len(rest) == 1:
            return self.lookup_dotted(mod.imports[head])
        return None

    def resolve_class(self, mod, dotted_name):
        head = dotted_name.split('.')[0]
        if dotted_name in mod.classes:
            return mod.classes[dotted_name]
        if head in mod.imports:
            t = self.lookup_dotted(mod.imports[head] + dotted_name[len(head):])
            if isinstance(t, ClassInfo):
                return t
        return None

    def mro(self, ci):
        out, seen, todo = [], set(), [ci]
        while todo:
            c = todo.pop(0)
            if c.qualname in seen:
                continue
            seen.add(c.qualname)
            out.append(c)
            for b in c.bases:
                bc = self.resolve_class(c.module, b)
                if bc:
                    todo.append(bc)
        return out

    def find_method(self, ci, name):
        for c in self.mro(ci):
            if name in c.methods:
                return c.methods[name]
        return None

    def class_constant(self, ci, name):
        for c in self.mro(ci):
            if name in c.constants:
                return c.constants[name]
        return None

    def subclasses(self, ci):
        return [c for c in self.classes.values() if ci in self.mro(c) and c is not ci]

    def all_functions(self):
        return [f for k, f in self.functions.items() if not k.endswith('@overload')]

    def stats(self):
        nlines = sum(m.source.count('\n') + 1 for m in self.modules.values())
        return {
            'modules': len(self.modules),
            'lines': nlines,
            'functions': len(self.all_functions()),
            'lambdas': len(self.lambdas),
            'classes': len(self.classes),
        }


def loc(node, mod=None):
    fn = getattr(node, '_fn', None)
    m = mod or (fn.module if fn is not None else None)
    p = m.relpath if m is not None else '?'
    return f'{p}:{getattr(node, "lineno", "?")}'


def norm(node):
    """Normalised source text of a construct (formatting-independent key)."""
    try:
        return ast.unparse(node)
    except Exception:  # pragma: no cover
        return ast.dump(node)


def ancestors(node):
    """Enclosing AST nodes of `node`, innermost first (uses the `_parent` links set by the loader)."""
    n = getattr(node, '_parent', None)
    while n is not None:
        yield n
        n = getattr(n, '_parent', None)
