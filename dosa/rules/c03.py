"""C03 -- index and pack files stay mutually consistent and self-describing (DESIGN 5, C03)."""
from __future__ import annotations

import ast
import os
import re

from ..effects import last_assignment
from ..kinds import alts
from ..loader import norm, walk_local
from ..report import Check
from ..resolve import fold
from ..solver import Machine, Violation, dominates_all_paths
from ..solver import run as solve
from .c09 import AppendHandleMachine
from .common import Summaries, specialisations, write_policy
from .machines import PackSites, _enclosing_loop, is_pack_write_handle

WRITERS = ('container:Container.pack_all_loose', 'container:Container.add_streamed_objects_to_pack', 'container:Container.repack_pack')


class RangeMachine(Machine):
    """R1: for the object processed in an iteration, row['offset'] is the handle's tell() taken before the object's first
    write (no write/seek in between), row['length'] is tell() - row['offset'] taken after its last write, and the row is
    staged with both.  State = (off, wrote, length, key source, fresh)  off in unset/fresh/used/stale; length in unset/ok/stale;
    fresh = local names that hold a tell() of the pack handle not invalidated by a later write/seek/truncate (carried across
    iterations and along exception edges: a write interrupted by an exception that a handler swallows invalidates them too)."""
    edge_kinds = ('n', 'e')

    def __init__(self, ctx, g, rule):
        self.ctx = ctx
        self.K, self.E = ctx.kinds, ctx.effects
        self.rule = rule
        self.top = g.top
        S = PackSites(ctx, g)
        self.stage = {nid for nid, key in S.stage_nodes.items() if key[0] == g.top.id}
        self.heads = {nid for nid, fid in S.loop_heads.items() if fid == g.top.id}
        self.offsets = 0
        self.lengths = 0

    def initial(self, g):
        return [('unset', False, 'unset', 'unset', frozenset())]

    def _is_tell(self, e, fr):
        if isinstance(e, ast.Call) and isinstance(e.func, ast.Attribute) and e.func.attr == 'tell':
            return any(is_pack_write_handle(self.K, a) for a in alts(self.K.kind(e.func.value, fr)))
        return False

    def _key_source(self, v, node, cur, depth=0):
        """'writer' (digest returned by the call that appended the bytes, with the configured hash type), 'prepass' (a separate
        pass over the stream), 'copied' (taken from elsewhere, e.g. the source row in repack).  Mixed expressions (`a or b`,
        `a if c else b`) are 'prepass' as soon as one operand is."""
        fn = node.frame.fn
        a = node.ast
        if depth > 6 or v is None:
            return 'copied'
        if isinstance(v, ast.Call):
            fname = norm(v.func)
            if fname.endswith('_write_data_to_packfile'):
                ht = next((k.value for k in v.keywords if k.arg == 'hash_type'), None)
                if ht is not None and not (isinstance(ht, ast.Attribute) and ht.attr == 'hash_type') and not isinstance(ht, ast.Name):
                    return 'prepass'  # the writer is (sometimes) told not to hash: its digest is not the key of the written bytes
                if isinstance(ht, ast.Name):
                    hv = last_assignment(ht.id, fn, a.lineno)
                    if hv is not None and not (isinstance(hv, ast.Attribute) and hv.attr == 'hash_type'):
                        return 'prepass'
                return 'writer'
            if fname.endswith('compute_hash_and_size'):
                return 'prepass'
            if isinstance(v.func, ast.Attribute) and v.func.attr == 'get' and v.args and isinstance(v.args[0], ast.Constant) and v.args[0].value == 'hashkey':
                return cur  # re-reading the row's own earlier key keeps its source
            return 'copied'
        if isinstance(v, ast.Subscript) and isinstance(v.slice, ast.Constant) and v.slice.value == 'hashkey':
            return cur
        if isinstance(v, (ast.BoolOp, ast.IfExp)):
            ops = v.values if isinstance(v, ast.BoolOp) else [v.body, v.orelse]
            kinds_ = [self._key_source(o, node, cur, depth + 1) for o in ops]
            if 'prepass' in kinds_:
                return 'prepass'
            if all(k == 'writer' for k in kinds_):
                return 'writer'
            return 'copied'
        if isinstance(v, ast.Name):
            src = last_assignment(v.id, fn, a.lineno)
            if src is not None:
                return self._key_source(src, node, cur, depth + 1)
            # a name unpacked from a call's result in this function?
            for x in walk_local(fn.node):
                if isinstance(x, ast.Assign) and isinstance(x.targets[0], ast.Tuple) and isinstance(x.value, ast.Call) \
                        and any(isinstance(e2, ast.Name) and e2.id == v.id for e2 in x.targets[0].elts):
                    return self._key_source(x.value, node, cur, depth + 1)
            return 'copied'
        return 'copied'

    def transfer(self, node, st, g):
        off, wrote, ln, ksrc, fresh = st
        viol = []
        if node.id in self.heads:
            return [('unset', False, 'unset', 'unset', fresh)]
        a = node.ast
        if node.frame is self.top and node.kind == 'stmt' and isinstance(a, (ast.Assign, ast.AnnAssign, ast.AugAssign)):
            tgt0 = a.targets[0] if isinstance(a, ast.Assign) and len(a.targets) == 1 else getattr(a, 'target', None)
            if isinstance(tgt0, ast.Name):
                if isinstance(a, (ast.Assign, ast.AnnAssign)) and a.value is not None and self._is_tell(a.value, node.frame):
                    fresh = fresh | {tgt0.id}
                else:
                    fresh = fresh - {tgt0.id}
        # provenance of row['hashkey']
        if node.frame is self.top and node.kind == 'stmt' and isinstance(a, ast.Assign):
            tg = a.targets[0]
            elts = tg.elts if isinstance(tg, ast.Tuple) else [tg]
            if any(isinstance(t, ast.Subscript) and isinstance(t.slice, ast.Constant) and t.slice.value == 'hashkey' for t in elts):
                ksrc = self._key_source(a.value, node, ksrc)
        if node.frame is self.top and node.kind == 'stmt' and isinstance(a, ast.Assign) and isinstance(a.targets[0], ast.Subscript) \
                and isinstance(a.targets[0].slice, ast.Constant):
            key = a.targets[0].slice.value
            if key == 'offset':
                self.offsets += 1
                if self._is_tell(a.value, node.frame):
                    if wrote:
                        viol.append(Violation(self.rule, node, st, "row['offset'] is taken from tell() after bytes of this object were already written: the recorded range starts inside the object"))
                    off = 'fresh'
                elif isinstance(a.value, ast.Name):
                    # a local that holds a tell() with no write/seek/truncate on the handle since (on this path) is equivalent
                    if a.value.id in fresh and not wrote:
                        off = 'fresh'
                    else:
                        viol.append(Violation(self.rule, node, st, f"row['offset'] = `{norm(a.value)}` is not the pack handle's position right before this object is written: "
                                              "the handle was written/moved since that value was taken (e.g. by an earlier object whose write was interrupted by a tolerated exception), "
                                              "or it is not a tell() of the handle at all"))
                        off = 'fresh'
                else:
                    viol.append(Violation(self.rule, node, st, f"row['offset'] = `{norm(a.value)}` is not the pack handle's tell()"))
                    off = 'fresh'
            elif key == 'length':
                self.lengths += 1
                v = a.value
                shape = isinstance(v, ast.BinOp) and isinstance(v.op, ast.Sub) and (self._is_tell(v.left, node.frame) or (isinstance(v.left, ast.Name) and v.left.id in fresh)) \
                    and isinstance(v.right, ast.Subscript) and isinstance(v.right.slice, ast.Constant) and v.right.slice.value == 'offset' and norm(v.right.value) == norm(a.targets[0].value)
                if not shape:
                    viol.append(Violation(self.rule, node, st, f"row['length'] = `{norm(v)}` is not tell() - row['offset'] on the pack handle"))
                if off not in ('fresh', 'used'):
                    viol.append(Violation(self.rule, node, st, "row['length'] is computed although row['offset'] was not taken from the handle in this iteration"))
                ln = 'ok'
        for e in self.E.of(node):
            if e[0] in ('H_WRITE', 'H_SEEK', 'H_TRUNCATE') and is_pack_write_handle(self.K, e[1]):
                fresh = frozenset()
            if e[0] == 'H_WRITE' and is_pack_write_handle(self.K, e[1]):
                wrote = True
                if off == 'fresh':
                    off = 'used'
                if ln == 'ok':
                    ln = 'stale'
            elif e[0] in ('H_SEEK', 'H_TRUNCATE') and is_pack_write_handle(self.K, e[1]):
                if off == 'fresh':
                    off = 'stale'
        if node.id in self.stage:
            if off == 'unset':
                viol.append(Violation(self.rule, node, st, 'a row is staged without an offset taken in this iteration'))
            elif off == 'stale':
                viol.append(Violation(self.rule, node, st, 'a row is staged whose offset was taken before the handle was moved (seek/truncate) and before the object was written'))
            if ln == 'unset':
                viol.append(Violation(self.rule, node, st, "a row is staged without row['length'] computed in this iteration"))
            elif ln == 'stale':
                viol.append(Violation(self.rule, node, st, "a row is staged whose length was computed before the object's last write (e.g. before the compressor flush)"))
            if wrote and ksrc == 'prepass':
                viol.append(Violation(self.rule, node, st, "a row is staged whose key was computed in a separate pass over the stream (compute_hash_and_size) and not by the writer that "
                                      "appended the bytes: if the two passes do not read the same bytes (stream not at position 0, short read) the indexed range does not hash to its key"))
            if ksrc == 'unset':
                viol.append(Violation(self.rule, node, st, "a row is staged without row['hashkey'] assigned in this iteration"))
        return [(off, wrote, ln, ksrc, fresh)] + viol


def run(ctx, host=None):
    chk = host.sub('C03') if host is not None else Check('C03', ctx)
    prog, K, E = ctx.prog, ctx.kinds, ctx.effects
    R1 = chk.rule('C03.R1', "offset = tell() before the object's first write, length = tell() - offset after its last write, staged with both; pack_id = the locked pack", 5)
    R2 = chk.rule('C03.R2', 'tell() of the append handle is the real end of file (no tell/write between seek and truncate)', 3)
    R3 = chk.rule('C03.R3', 'uniqueness: unique hashkey column; OR IGNORE or a dominating already-indexed filter before every INSERT; repack updates by primary key', 4)
    R4 = chk.rule('C03.R4', 'the documented manual-recovery script agrees with the code: table/column names, index file, pack folder, boolean encoding, raw zlib streams', 6)
    pol = write_policy(depth=5)
    S = Summaries(ctx)

    # ---------------------------------------------------------------- R1 / R2
    for q in WRITERS:
        fn = prog.fn(q)
        combos = [{}]
        if q.endswith('add_streamed_objects_to_pack'):
            combos = list(specialisations(fn, {}, free={'do_fsync', 'do_commit', 'open_streams', 'compress'})) if not ctx.thorough else list(specialisations(fn, {}))
        elif ctx.thorough:
            combos = list(specialisations(fn, {}))
        bad1 = bad2 = False
        for consts in combos:
            g = ctx.icfg(q, consts, pol, key='wp5')
            m = RangeMachine(ctx, g, 'C03.R1')
            chk.require(m.stage and m.heads, f'{q}: staging site / per-object loop not found')
            viols, st = solve(g, m)
            chk.crash_points += st['pairs']
            chk.specialisations += 1
            chk.require(m.offsets >= 1 and m.lengths >= 1 or viols, f"{q}: row['offset'] / row['length'] assignments not found")
            for v in viols:
                bad1 = True
                chk.bad(R1, q, v.node.text(120), v.msg + f' [flags {consts}]', where=v.node.where, witness=v.witness)
            m2 = AppendHandleMachine(ctx, rule='C03.R2')
            viols, st = solve(g, m2)
            chk.crash_points += st['pairs']
            for v in viols:
                bad2 = True
                chk.bad(R2, v.node.frame.fn.qualname, v.node.text(120), v.msg + f' [flags {consts}]', where=v.node.where, witness=v.witness)
        if not bad1:
            chk.ok(R1, q, f'{len(combos)} flag combination(s)', detail='tell-before / tell-after pairing holds on every path and iteration', evals=len(combos))
        if not bad2:
            chk.ok(R2, q, f'{len(combos)} flag combination(s)', detail='append handle never rewound without truncate', evals=len(combos))
        # pack_id of the row = the locked pack
        pid = [n for n in walk_local(fn.node) if isinstance(n, ast.Assign) and isinstance(n.targets[0], ast.Subscript) and isinstance(n.targets[0].slice, ast.Constant) and n.targets[0].slice.value == 'pack_id']
        locks = [n for n in walk_local(fn.node) if isinstance(n, ast.Call) and isinstance(n.func, ast.Attribute) and n.func.attr == 'lock_pack' and n.args]
        chk.require(pid and locks, f"{q}: row['pack_id'] / lock_pack call not found")
        lock_names = {x.id for x in ast.walk(locks[0].args[0]) if isinstance(x, ast.Name)} | {x.attr for x in ast.walk(locks[0].args[0]) if isinstance(x, ast.Attribute)}
        val_names = {x.id for x in ast.walk(pid[0].value) if isinstance(x, ast.Name)} | {x.attr for x in ast.walk(pid[0].value) if isinstance(x, ast.Attribute)}
        if (val_names & lock_names) - {'self', 'str'}:
            chk.ok(R1, q, f'{norm(pid[0])} ; {norm(locks[0])[:50]}', detail='the row points to the pack that is locked and written (re-lock guard: C13.R2)', nontrivial=False)
        else:
            chk.bad(R1, q, norm(pid[0]), f"row['pack_id'] = `{norm(pid[0].value)}` is not the id the pack was locked with (`{norm(locks[0].args[0])}`)", where=f'{fn.module.relpath}:{pid[0].lineno}')

    # ---------------------------------------------------------------- R5: index <-> pack file across the repack steps
    R5 = chk.rule('C03.R5', 'repack: committed index rows always designate a pack file that exists with those bytes (or the temporary pack)', 1)
    from .machines import explore, report_violations
    from .repack import RepackMachine
    q = WRITERS[2]
    found, m = explore(ctx, chk, q, {}, lambda g, c: RepackMachine(ctx, g, require_durable=False, rule='C03.R5'), pol, 'wp5')
    report_violations(chk, q, found)
    if not found:
        chk.ok(R5, q, 'repack state machine', detail=f'effects visited: {sorted(m.seen_effects)}')

    # ---------------------------------------------------------------- R6: a committed row designates bytes that are already in the pack file
    R6 = chk.rule('C03.R6', 'pack writers: an index row is committed only after its bytes left the user-space buffer (flush/close): committed ranges lie inside the file at every point', 2)
    from .machines import PackMachine
    for q in WRITERS[:2]:
        def mk(g, consts, _q=q):
            ce = ('do_commit' not in prog.fn(_q).params) or consts.get('do_commit') is True
            return PackMachine(ctx, g, require_durable=False, commit_expected=ce, rule_flush='C03.R6', rule_unlink='C03.R6x', rule_durable='C03.R6x', rule_exc='C03.R6x')
        fixed = {'do_commit': True} if 'do_commit' in prog.fn(q).params and not ctx.thorough else {}
        found, m6 = explore(ctx, chk, q, fixed, mk, pol, 'wp5')
        found = [(v, c) for v, c in found if v.rule == 'C03.R6']
        report_violations(chk, q, found)
        if not found:
            chk.ok(R6, q, f'{len(m6.sites.insert_nodes)} insert site(s)', detail='COMMIT only with the pack bytes flushed or the handle closed')

    # loose files are named by the digest under the *current* configuration: no memoised configuration accessor
    from .common import no_memoised_configuration
    no_memoised_configuration(ctx, chk, R3, S)
    # ---------------------------------------------------------------- R3
    obj = prog.cls('database:Obj')
    col = obj.constants.get('hashkey')
    if isinstance(col, ast.Call) and any(kw.arg == 'unique' and isinstance(kw.value, ast.Constant) and kw.value.value is True for kw in col.keywords):
        chk.ok(R3, obj.qualname, 'hashkey unique=True', detail='no key can be indexed twice', nontrivial=False)
    else:
        chk.bad(R3, obj.qualname, 'hashkey column', 'the hashkey column is not declared unique', where=f'{obj.module.relpath}:{obj.node.lineno}')
    for q in WRITERS[:2]:
        fn = prog.fn(q)
        ins = [(n, e) for n, cal, effs in S.calls(fn) for e in effs if e[0] == 'DB_INSERT']
        chk.require(ins, f'{q}: INSERT not found')
        for n, e in ins:
            if e[2].get('or_ignore'):
                chk.ok(R3, q, 'INSERT OR IGNORE', detail='a key already indexed is ignored')
            else:
                # must be dominated by the already-indexed filter
                g = ctx.icfg(q, {}, pol, key='wp5')
                diffs = {x.id for x in g.nodes if x.frame is g.top and x.kind == 'call' and x.callee is not None and x.callee.kind == 'method' and x.callee.name == 'difference_update'}
                inserts = {x.id for x in g.nodes if any(e2[0] == 'DB_INSERT' for e2 in E.of(x))}
                if diffs and dominates_all_paths(g, g.entry, inserts, diffs):
                    chk.ok(R3, q, 'plain INSERT after difference_update(existing)', detail='keys already indexed are removed from the work set on every path before the INSERT')
                else:
                    chk.bad(R3, q, norm(n)[:100], 'a plain INSERT is not preceded on every path by the removal of already-indexed keys: the commit raises IntegrityError or a key is indexed twice',
                            where=f'{fn.module.relpath}:{n.lineno}')
    rp = prog.fn(WRITERS[2])
    idk = [n for n in walk_local(rp.node) if isinstance(n, ast.Assign) and isinstance(n.targets[0], ast.Subscript) and isinstance(n.targets[0].slice, ast.Constant) and n.targets[0].slice.value == 'id']
    bulk = [n for n in walk_local(rp.node) if isinstance(n, ast.Call) and isinstance(n.func, ast.Attribute) and n.func.attr == 'bulk_update_mappings']
    if idk and bulk and isinstance(idk[0].value, ast.Name):
        chk.ok(R3, rp.qualname, f'{norm(idk[0])} ; bulk_update_mappings', detail='rows are updated in place by primary key (no new rows)')
    else:
        chk.bad(R3, rp.qualname, 'bulk update by primary key', 'repack no longer updates the existing rows by primary key', where=f'{rp.module.relpath}:{rp.lineno}')

    # ---------------------------------------------------------------- R4
    doc = os.path.join(prog.repo, 'docs', 'pages', 'design.md')
    chk.require(os.path.exists(doc), 'docs/pages/design.md not found (anchor of the documented recovery script)')
    text = open(doc, encoding='utf8').read()
    mm = re.search(r'## Long-term support of the data(.*?)```bash(.*?)```', text, re.S)
    chk.require(mm is not None, 'design.md: the "Long-term support of the data" bash script was not found')
    script = mm.group(2)
    sql = re.search(r"SELECT\s+(.*?)\s+FROM\s+(\w+)\s+WHERE\s+(\w+)\s*=", script)
    chk.require(sql is not None, 'design.md: SQL of the recovery script not recognised')
    cols = [c.strip() for c in sql.group(1).split(',')]
    table = sql.group(2)
    keycol = sql.group(3)
    tname = fold(prog, obj.constants.get('__tablename__'), None) if obj.constants.get('__tablename__') is not None else None
    ocols = {k for k, v in obj.constants.items() if isinstance(v, ast.Call) and norm(v.func) == 'Column'}
    if table == tname:
        chk.ok(R4, 'docs/pages/design.md', f'table {table}', detail='= Obj.__tablename__')
    else:
        chk.bad(R4, 'docs/pages/design.md', f'table {table}', f'the documented recovery script queries table `{table}` but the index table is `{tname}`', where='docs/pages/design.md')
    missing = [c for c in cols + [keycol] if c not in ocols]
    if not missing and set(cols) >= {'offset', 'length', 'pack_id', 'compressed'}:
        chk.ok(R4, 'docs/pages/design.md', f'columns {cols} WHERE {keycol}', detail='all exist in database.Obj')
    else:
        chk.bad(R4, 'docs/pages/design.md', f'columns {cols}', f'the documented recovery script uses column(s) {missing or cols} that do not (all) exist in the index table {sorted(ocols)}', where='docs/pages/design.md')
    dirs = K.dirs()
    idxname = dirs['index'][0]
    packdir = dirs['packs'][0]
    if f'/{idxname}' in script:
        chk.ok(R4, 'docs/pages/design.md', f'index file {idxname}', detail='= Container._get_pack_index_path()')
    else:
        chk.bad(R4, 'docs/pages/design.md', 'index file name', f'the script does not open `{idxname}`, the name built by _get_pack_index_path()', where='docs/pages/design.md')
    if f'/{packdir}/${{PACK_ID}}' in script:
        chk.ok(R4, 'docs/pages/design.md', f'pack path {packdir}/<pack_id>', detail='= Container._get_pack_path_from_pack_id()')
    else:
        chk.bad(R4, 'docs/pages/design.md', 'pack path', f'the script does not read `{packdir}/${{PACK_ID}}`', where='docs/pages/design.md')
    ccol = obj.constants.get('compressed')
    if isinstance(ccol, ast.Call) and ccol.args and norm(ccol.args[0]) == 'Boolean' and '"0"' in script and '"1"' in script:
        chk.ok(R4, 'docs/pages/design.md', 'compressed: Boolean <-> "0"/"1"', detail='SQLite stores booleans as 0/1')
    else:
        chk.bad(R4, 'docs/pages/design.md', 'compressed encoding', 'the compressed column is no longer a Boolean stored as 0/1 as the script assumes', where='docs/pages/design.md')
    info = prog.fn('utils:_get_compression_algorithm_info')
    known = next((n for n in walk_local(info.node) if isinstance(n, ast.Dict) and any(isinstance(k, ast.Constant) and k.value == 'zlib' for k in n.keys)), None)
    okz = False
    if known is not None:
        z = known.values[[k.value for k in known.keys].index('zlib')]
        zd = {k.value: norm(v) for k, v in zip(z.keys, z.values) if isinstance(k, ast.Constant)}
        okz = zd.get('compressobj') == 'zlib.compressobj' and zd.get('variant_name') in ("'level'", '"level"')
    dec = prog.fn('utils:ZlibStreamDecompresser.decompressobj_class')
    okz = okz and 'return zlib.decompressobj' in norm(dec.node)
    calls = [c for c in walk_local(info.node) if isinstance(c, ast.Call) and isinstance(c.func, ast.Subscript) and isinstance(c.func.slice, ast.Constant) and c.func.slice.value == 'compressobj']
    only_level = bool(calls) and all(not c.args and len(c.keywords) == 1 for c in calls)
    if okz and only_level and 'zlib-flate -uncompress' in script:
        chk.ok(R4, 'utils:_get_compression_algorithm_info', 'zlib.compressobj(level=N) / zlib.decompressobj()', detail='default wbits: a raw zlib stream, what `zlib-flate -uncompress` expects')
    else:
        chk.bad(R4, 'utils:_get_compression_algorithm_info', 'zlib codec', 'compressed objects are no longer plain zlib streams (zlib.compressobj(level) / zlib.decompressobj with default wbits) as the documented recovery assumes',
                where=f'{info.module.relpath}:{info.lineno}')

    # rules of other properties that are necessary conditions of this one too: no key indexed twice (C09) and ranges that never move or shrink (C13) are part of index/pack consistency
    if host is None:
        from ..report import host_modules
        host_modules(chk, ctx, ['C09', 'C13', 'C10'])

    return chk.finish(
        explanation=("Static analysis of what ends up in the index: a per-iteration typestate on the three pack-writing loops (offset = tell() before the object's first write, "
                     "length = tell() - offset after its last write, both present when the row is staged, for every flag combination), the append-handle typestate that makes "
                     "tell() the real end of file, uniqueness (unique column, OR IGNORE or a dominating filter, update by primary key), and term agreement between the "
                     "documented manual-recovery script and the schema / path helpers / codec of the code."),
        rule_text='obligation = (rule, writer, flag combination) / documentation term; non-trivial = path query or term comparison',
        assumptions=['O_APPEND: tell() of an append handle that was not rewound is the offset of the next write', 'SQLite enforces the unique index and stores booleans as 0/1'],
        not_decided='that ranges never overlap / lie inside the file for all histories as values; recoverability is decided only as schema/script/codec agreement.')
