"""C15 -- a backup taken while the container is in use is complete and consistent (DESIGN 5, C15)."""
from __future__ import annotations

import ast
import fnmatch

from ..cfg import Policy
from ..kinds import alts, kstr
from ..loader import norm, walk_local
from ..report import Check
from ..resolve import UNKNOWN, fold
from ..solver import Machine, Violation
from ..solver import run as solve
from .c17 import always_raises, handler_types
from .common import areas, list_elements

BACKUP = 'backup_utils:backup_container'
ORDER = ['loose', 'dump', 'index-copy', 'packs', 'rest']


def classify_src(K, expr, frame):
    k = K.kind(expr, frame)
    ar = set()
    for a in alts(k):
        x = K.area(a)
        if x is not None:
            ar.add((x[0], tuple(x[1]) if len(x) > 1 and isinstance(x[1], tuple) else ()))
        else:
            ar.add(('other', ()))
    return k, ar


class OrderMachine(Machine):
    """R1/R2: loose -> consistent dump of the index -> copy of the *dump* -> packs -> rest.  State = frozenset(done)."""

    def __init__(self, ctx, g, rule1, rule2):
        self.ctx, self.K = ctx, ctx.kinds
        self.rule1, self.rule2 = rule1, rule2
        self.top = g.top
        self.seen = {}
        self.dump_targets = set()

    def initial(self, g):
        return [frozenset()]

    def _step(self, node):
        a = node.ast
        if not isinstance(a, ast.Call):
            return None
        f = norm(a.func)
        if node.callee is not None and node.callee.kind == 'internal' and node.callee.target.name == '_sqlite_backup' and a.args:
            k, ar = classify_src(self.K, a.args[0], node.frame)
            if any(x[0] == 'index' for x in ar):
                if len(a.args) > 1 and isinstance(a.args[1], ast.Name):
                    self.dump_targets.add(a.args[1].id)
                return 'dump'
            return None
        if f.endswith('.call_rsync') and a.args:
            src = a.args[0]
            k, ar = classify_src(self.K, src, node.frame)
            names = {x[0] for x in ar}
            if isinstance(src, ast.Name) and src.id in self.dump_targets:
                return 'index-copy'
            if names == {'loose'} and all(not x[1] for x in ar):
                return 'loose'
            if names == {'packs'} and all(not x[1] for x in ar):
                return 'packs'
            if names == {'index'}:
                return 'LIVE-INDEX'
            if names == {'root'}:
                return 'rest'
            return 'other:' + kstr(k)
        if f in ('shutil.copy', 'shutil.copy2', 'shutil.copyfile', 'shutil.copytree', 'shutil.move') and a.args:
            k, ar = classify_src(self.K, a.args[0], node.frame)
            if any(x[0] == 'index' for x in ar):
                return 'LIVE-INDEX'
        return None

    def transfer(self, node, st, g):
        if node.frame is not self.top or node.kind not in ('call', 'enter'):
            return [st]
        step = self._step(node)
        if step is None:
            return [st]
        self.seen[step] = node
        viol = []
        if step == 'LIVE-INDEX':
            viol.append(Violation(self.rule2, node, st, 'the live SQLite index file is copied directly: a copy taken while a writer commits is not a consistent database '
                                  '(the index must be dumped through the sqlite3 online-backup API and the dump copied)'))
            return [st] + viol
        if step in ORDER:
            i = ORDER.index(step)
            missing = [s for s in ORDER[:i] if s not in st]
            if missing:
                viol.append(Violation(self.rule1, node, st, f'backup step "{step}" runs before step(s) {missing}: with a concurrent packer the copied index can reference pack bytes / '
                                      'lack loose objects that the backup does not contain (required order: loose -> index dump -> packs -> rest)'))
            later = [s for s in ORDER[i + 1:] if s in st]
            st = st | {step}
        return [st] + viol

    def at_exit(self, node, st, g):
        if node is g.exit:
            missing = [s for s in ORDER if s not in st]
            if missing:
                return [Violation(self.rule1, node, st, f'the backup returns normally without step(s) {missing}')]
        return []


def rsync_excluded(name, patterns):
    """rsync name matching for simple patterns without '/' (anchored patterns `/x` match at the transfer root)."""
    for p in patterns:
        q = p[1:] if p.startswith('/') else p
        q = q.rstrip('/')
        if '/' in q or '**' in q:
            continue
        if fnmatch.fnmatchcase(name, q):
            return True
    return False


def run(ctx, host=None):
    chk = host.sub('C15') if host is not None else Check('C15', ctx)
    prog, K, E = ctx.prog, ctx.kinds, ctx.effects
    R1 = chk.rule('C15.R1', 'copy order: loose -> SQLite dump -> copy of the dump -> packs -> everything else', 1)
    R2 = chk.rule('C15.R2', 'the index is copied through the sqlite3 online-backup API (never the live file)', 2)
    R3 = chk.rule('C15.R3', 'the final "everything else" copy excludes loose/, packs/, the index and its WAL side files', 5)
    R4 = chk.rule('C15.R4', 'failures propagate: rsync / dump errors raise; the live-backup folder is renamed only after a successful backup', 4)
    fn = prog.fn(BACKUP)
    g = ctx.icfg(BACKUP, {}, Policy(depth=0), key='d0')
    m = OrderMachine(ctx, g, 'C15.R1', 'C15.R2')
    viols, st = solve(g, m)
    chk.crash_points += st['pairs']
    chk.specialisations += 1
    chk.require(len([s for s in m.seen if s in ORDER]) >= 3 or viols, f'backup_container: copy steps not recognised (saw {sorted(m.seen)})')
    for v in viols:
        chk.bad(v.rule, BACKUP, v.node.text(120) if v.node.ast is not None else 'exit', v.msg, where=v.node.where, witness=v.witness)
    if not [v for v in viols if v.rule == 'C15.R1']:
        chk.ok(R1, BACKUP, ' -> '.join(ORDER), detail='each step dominated by its predecessors on every path')
    if not [v for v in viols if v.rule == 'C15.R2']:
        chk.ok(R2, BACKUP, 'index copy', detail='rsync source of the index is the temporary dump written by _sqlite_backup')
    # the dump uses Connection.backup
    sb = prog.fn('backup_utils:_sqlite_backup')
    uses_backup = any(isinstance(n, ast.Call) and isinstance(n.func, ast.Attribute) and n.func.attr == 'backup' for n in walk_local(sb.node))
    connects = [n for n in walk_local(sb.node) if isinstance(n, ast.Call) and norm(n.func) == 'sqlite3.connect']
    if uses_backup and len(connects) >= 2:
        chk.ok(R2, sb.qualname, 'src_connect.backup(dst_connect)', detail='sqlite3 online-backup API')
    else:
        chk.bad(R2, sb.qualname, '_sqlite_backup', 'the index dump no longer uses sqlite3.Connection.backup between two connections', where=f'{sb.module.relpath}:{sb.lineno}')

    # the dump must keep its own fresh modification time: rsync's quick check (size + mtime) against --link-dest would otherwise
    # hard-link the *previous* backup's index when the page-rounded size happens to be equal
    stampers = []
    for f in (sb, fn):
        for n in walk_local(f.node):
            if isinstance(n, ast.Call) and norm(n.func) in ('shutil.copystat', 'os.utime', 'shutil.copy2', 'shutil.copymode', 'os.chmod'):
                stampers.append((f, n))
    if stampers:
        for f, n in stampers:
            chk.bad(R2, f.qualname, norm(n), 'the timestamps/metadata of the live index are copied onto the dump: with --link-dest rsync\'s size+mtime quick check can then hard-link the '
                    'stale index of the previous backup instead of transferring the new dump', where=f'{f.module.relpath}:{n.lineno}')
    else:
        chk.ok(R2, sb.qualname, 'dump metadata', detail='no utime/copystat on the dump: it carries a fresh mtime', nontrivial=False)

    # the dump is transferred under the index' own file name (it lands in the backup root next to packs/ and loose/)
    dirs0 = K.dirs()
    idxname = dirs0['index'][0]
    dump_names = []
    for n in walk_local(fn.node):
        if isinstance(n, ast.Assign) and isinstance(n.value, ast.BinOp) and isinstance(n.value.op, ast.Div) and isinstance(n.targets[0], ast.Name):
            # <temp dir> / <name>
            if any(isinstance(c, ast.Call) and norm(c.func) == '_sqlite_backup' and len(c.args) > 1 and norm(c.args[1]) == n.targets[0].id for c in walk_local(fn.node)):
                right = n.value.right
                v = fold(prog, right, fn, {})
                if v is UNKNOWN and isinstance(right, ast.Attribute) and right.attr == 'name':
                    kk = K.kind(right.value, g.top)
                    ar = K.area(alts(kk)[0]) if alts(kk) else None
                    v = idxname if ar is not None and ar[0] == 'index' else UNKNOWN
                dump_names.append((n, v))
    chk.require(dump_names, 'backup_container: the path of the index dump (<temp dir> / <name>) passed to _sqlite_backup was not found')
    for n, v in dump_names:
        if v == idxname:
            chk.ok(R2, BACKUP, norm(n), detail=f'the dump is named like the index file ({idxname!r} = Container._get_pack_index_path().name)')
        else:
            chk.bad(R2, BACKUP, norm(n), f'the dumped index is transferred under the name {v!r} but the container opens {idxname!r}: the backup would have no usable index', where=f'{fn.module.relpath}:{n.lineno}')

    # ---------------------------------------------------------------- R5: closed table of rsync options
    R5 = chk.rule('C15.R5', 'every constant rsync option (base options and per-call extra arguments) is in the reviewed table: nothing that makes rsync skip, truncate or tolerate', 1)
    ALLOWED_OPTS = {
        '-azh': 'archive (recursive, preserve attrs), compress, human-readable',
        '--no-whole-file': 'delta transfer also for local copies',
        '--info=progress2,stats1': 'progress display', '--progress': 'progress display', '-vv': 'verbosity',
        '--exclude': 'only in the final "everything else" copy; its patterns are evaluated by R3',
    }
    cr0 = prog.fn('backup_utils:BackupManager.call_rsync')
    nopt = 0
    badopt = []

    def const_strings(e):
        out = []
        for x in ast.walk(e):
            if isinstance(x, ast.Constant) and isinstance(x.value, str):
                par = getattr(x, '_parent', None)
                if isinstance(par, ast.JoinedStr):
                    continue
                out.append(x)
            elif isinstance(x, ast.JoinedStr):
                head = x.values[0] if x.values and isinstance(x.values[0], ast.Constant) else None
                out.append((x, head.value if head is not None else ''))
        return out
    arglist = None
    for n in walk_local(cr0.node):
        if isinstance(n, ast.Call) and norm(n.func) == 'subprocess.run' and n.args and isinstance(n.args[0], ast.Name):
            arglist = n.args[0].id
    chk.require(arglist is not None, 'call_rsync: the argument list passed to subprocess.run was not found')
    # the argument list is private to the call: first bound to a fresh list, so that the in-place `+=` of per-call options cannot leak into other transfers
    def fresh(v):
        if isinstance(v, (ast.List, ast.ListComp)):
            return True
        if isinstance(v, ast.BinOp) and isinstance(v.op, ast.Add):
            return True   # a + b builds a new list
        if isinstance(v, ast.Call) and (norm(v.func) in ('list', 'copy.copy', 'copy.deepcopy') or (isinstance(v.func, ast.Attribute) and v.func.attr == 'copy')):
            return True
        if isinstance(v, ast.Subscript) and isinstance(v.slice, ast.Slice):
            return True
        return False
    binds = sorted([n for n in walk_local(cr0.node) if isinstance(n, ast.Assign) and isinstance(n.targets[0], ast.Name) and n.targets[0].id == arglist], key=lambda n: n.lineno)
    inplace = [n for n in walk_local(cr0.node) if (isinstance(n, ast.AugAssign) and isinstance(n.target, ast.Name) and n.target.id == arglist)
               or (isinstance(n, ast.Call) and isinstance(n.func, ast.Attribute) and isinstance(n.func.value, ast.Name) and n.func.value.id == arglist and n.func.attr in ('append', 'extend', 'insert'))]
    shared_sources = []
    for b in binds:
        if not fresh(b.value):
            later = [m_ for m_ in inplace if m_.lineno > b.lineno and not any(b2.lineno > b.lineno and b2.lineno < m_.lineno and fresh(b2.value) for b2 in binds)]
            if later:
                badopt.append((later[0], f'`{norm(later[0])[:60]}` extends `{norm(b.value)}` in place (the list `{arglist}` is an alias of it, not a copy): per-call options such as the --exclude patterns of the '
                               'final copy or --link-dest stick to every later transfer of this manager, which then silently copy nothing'))
            shared_sources.append(b.value)
    for src_e in shared_sources:
        # options that come from a shared attribute are read where that attribute is assigned
        if isinstance(src_e, ast.Attribute) and norm(src_e.value) == 'self':
            for f3 in prog.all_functions():
                if f3.cls is cr0.cls and not isinstance(f3.node, ast.Lambda):
                    for n in walk_local(f3.node):
                        if isinstance(n, ast.Assign) and any(isinstance(t, ast.Attribute) and t.attr == src_e.attr and norm(t.value) == 'self' for t in n.targets):
                            for c in const_strings(n.value):
                                if not isinstance(c, tuple) and c.value.startswith('-'):
                                    nopt += 1
                                    if c.value not in ALLOWED_OPTS:
                                        badopt.append((c, c.value))
    for n in walk_local(cr0.node):
        val = None
        if isinstance(n, ast.Assign) and isinstance(n.targets[0], ast.Name) and n.targets[0].id == arglist:
            val = n.value
        elif isinstance(n, ast.AugAssign) and isinstance(n.target, ast.Name) and n.target.id == arglist:
            val = n.value
        elif isinstance(n, ast.Call) and isinstance(n.func, ast.Attribute) and isinstance(n.func.value, ast.Name) and n.func.value.id == arglist and n.func.attr in ('append', 'extend', 'insert') and n.args:
            val = n.args[-1]   # all_args.append('-vv') / .extend([...]) / .insert(i, x): the same options, added one by one
        if val is None:
            continue
        for c in const_strings(val):
            if isinstance(c, tuple):
                node, head = c
                if head.startswith('--link-dest=') or not head.startswith('-'):
                    continue  # --link-dest=<previous backup> (hard links for unchanged files); remote:dest strings
                badopt.append((node, head + '...'))
                continue
            if not c.value.startswith('-'):
                continue
            nopt += 1
            if c.value not in ALLOWED_OPTS:
                badopt.append((c, c.value))
    # per-call extra arguments in the backup path
    for f2 in prog.all_functions():
        if not f2.module.name.endswith('backup_utils') and not f2.module.name.endswith('cli'):
            continue
        if isinstance(f2.node, ast.Lambda):
            continue
        for n in walk_local(f2.node):
            if isinstance(n, ast.Call) and isinstance(n.func, ast.Attribute) and n.func.attr == 'call_rsync':
                ex = next((k.value for k in n.keywords if k.arg == 'extra_args'), None)
                if ex is None:
                    continue
                ex_elts = list_elements(prog, f2, ex)
                if ex_elts is None:
                    badopt.append((ex, f'extra_args `{norm(ex)}` is not a list this check can enumerate (a display, or a local built by unconditional statements)'))
                    continue
                prev_excl = False
                for el in ex_elts:
                    v = fold(prog, el, f2, {})
                    if prev_excl:
                        prev_excl = False
                        continue
                    if v == '--exclude':
                        prev_excl = True
                        nopt += 1
                        continue
                    if isinstance(v, str) and v.startswith('--exclude='):
                        nopt += 1
                        continue
                    badopt.append((el, v if isinstance(v, str) else norm(el)))
    chk.require(nopt >= 4, f'call_rsync: expected at least 4 constant rsync options, found {nopt}')
    if badopt:
        for node, txt in badopt:
            if 'in place' in txt:
                chk.bad(R5, 'backup_utils:BackupManager.call_rsync', txt[:70], txt, where=f'disk_objectstore/backup_utils.py:{getattr(node, "lineno", 0)}')
                continue
            chk.bad(R5, 'backup_utils:BackupManager.call_rsync', f'rsync option {txt}', f'rsync is run with an option that is not in the reviewed table ({sorted(ALLOWED_OPTS)}): options such as '
                    '--size-only/--update/--ignore-existing/--append/--inplace/--ignore-errors/--max-size/--dry-run change which files are transferred or how failures are reported, '
                    'so the backup can silently miss or truncate data', where=f'disk_objectstore/backup_utils.py:{getattr(node, "lineno", 0)}')
    else:
        chk.ok(R5, 'backup_utils:BackupManager.call_rsync', f'{nopt} constant option(s)', detail='all in the reviewed table; per-call extra arguments are --exclude only', evals=nopt)

    # ---------------------------------------------------------------- R6: finished backups sort chronologically by name
    R6 = chk.rule('C15.R6', 'the name of a finished backup sorts after every earlier one (UTC timestamp, most significant field first): --link-dest and the rotation pick folders by sorted name', 1)
    baf = prog.fn('backup_utils:BackupManager.backup_auto_folders')
    stf = [n for n in walk_local(baf.node) if isinstance(n, ast.Call) and isinstance(n.func, ast.Attribute) and n.func.attr == 'strftime']
    chk.require(stf, 'backup_auto_folders: no strftime() for the folder name found')
    import re as _re
    for c in stf:
        probs = []
        fmt = fold(prog, c.args[0], baf, {}) if c.args else None
        fields = _re.findall(r'%[A-Za-z]', fmt) if isinstance(fmt, str) else None
        if fields != ['%Y', '%m', '%d', '%H', '%M', '%S']:
            probs.append(f'the format {fmt!r} is not year-month-day-hour-minute-second with fixed-width fields, so names do not sort chronologically')
        src_ = c.func.value
        okutc = False
        if isinstance(src_, ast.Call):
            fn_ = norm(src_.func)
            if fn_.endswith('utcnow') and not src_.args:
                okutc = True
            elif fn_.endswith('.now') or fn_ == 'now':
                tz = (src_.args + [k.value for k in src_.keywords if k.arg == 'tz'])[:1]
                okutc = bool(tz) and norm(tz[0]).split('.')[-1] in ('utc', 'UTC')
            elif fn_.endswith('fromtimestamp'):
                tz = (src_.args[1:] + [k.value for k in src_.keywords if k.arg == 'tz'])[:1]
                okutc = bool(tz) and norm(tz[0]).split('.')[-1] in ('utc', 'UTC')
        if not okutc:
            probs.append(f'the timestamp `{norm(src_)}` is not taken in UTC: local time steps backwards at the end of daylight saving time or when TZ changes, so the backup that just '
                         'completed can sort as the oldest -- the rotation then deletes it and last-backup dangles')
        if probs:
            chk.bad(R6, baf.qualname, norm(c)[:90], '; '.join(probs), where=f'{baf.module.relpath}:{c.lineno}')
        else:
            chk.ok(R6, baf.qualname, norm(c)[:90], detail='UTC, %Y%m%d%H%M%S')

    # ---------------------------------------------------------------- R3
    rest = m.seen.get('rest')
    if rest is not None:
        call = rest.ast
        extra = next((k.value for k in call.keywords if k.arg == 'extra_args'), None)
        elts = list_elements(prog, fn, extra) if extra is not None else None
        chk.require(elts is not None, 'final rsync call: extra_args is not a list this check can enumerate: cannot evaluate the exclude patterns')
        patterns = []
        i = 0
        fr = g.top
        while i < len(elts):
            v = fold(prog, elts[i], fn, {})
            if v == '--exclude' and i + 1 < len(elts):
                pe = elts[i + 1]
                pv = fold(prog, pe, fn, {})
                if pv is UNKNOWN:
                    # str(<relative path of a container dir>)
                    inner = pe.args[0] if isinstance(pe, ast.Call) and norm(pe.func) == 'str' and pe.args else pe
                    k = K.kind(inner, fr)
                    if k[0] == 'relpath' and k[1][0] == 'path' and k[2][0] == 'path' and k[1][2][:len(k[2][2])] == k[2][2]:
                        rel = k[1][2][len(k[2][2]):]
                        if len(rel) == 1 and isinstance(rel[0], str):
                            pv = rel[0]
                if pv is UNKNOWN:
                    # an f-string / str() built from an absolute container path: as an rsync pattern it is anchored at the transfer
                    # root ('/...') and names a path that does not exist below it -> evaluates to a pattern that matches nothing
                    parts = pe.values if isinstance(pe, ast.JoinedStr) else [pe]
                    built = ''
                    okb = True
                    for j, part in enumerate(parts):
                        if isinstance(part, ast.Constant) and isinstance(part.value, str):
                            built += part.value
                            continue
                        ex = part.value if isinstance(part, ast.FormattedValue) else part
                        if isinstance(ex, ast.Call) and norm(ex.func) == 'str' and ex.args:
                            ex = ex.args[0]
                        kk = K.kind(ex, fr)
                        if any(a[0] == 'path' for a in alts(kk)) and all(a[0] in ('path', 'join') for a in alts(kk)) and j == 0:
                            built += '/<absolute path of the container>/' + '/'.join(str(c) if isinstance(c, str) else '*' for a in alts(kk)[:1] for c in (a[2] if len(a) > 2 and isinstance(a[2], tuple) else ()))
                        else:
                            okb = False
                    if okb and built:
                        pv = built
                        chk.note(f'exclude pattern `{norm(pe)}` is built from an absolute path: evaluated as {pv!r}')
                chk.require(isinstance(pv, str), f'exclude pattern `{norm(pe)}` is not a constant: cannot evaluate it')
                chk.require(not any(c in pv for c in '{}') and '**' not in pv, f'exclude pattern {pv!r} uses syntax this check does not evaluate')
                patterns.append(pv)
                i += 2
            elif isinstance(v, str) and v.startswith('--exclude='):
                patterns.append(v.split('=', 1)[1])
                i += 1
            else:
                i += 1
        dirs = K.dirs()
        need = {dirs['loose'][0]: 'loose objects (copied in step 1)', dirs['packs'][0]: 'pack files (copied in step 4)',
                dirs['index'][0]: 'the live index (the dump is copied in step 3)'}
        db = prog.modules.get('database')
        wal = db is not None and 'journal_mode=wal' in db.source.replace(' ', '').lower()
        if wal:
            need[dirs['index'][0] + '-wal'] = 'the live write-ahead log of the index (WAL mode): next to the dumped index it would be replayed on top of it'
            need[dirs['index'][0] + '-shm'] = 'the WAL shared-memory file of the live index'
        for name, why in need.items():
            if rsync_excluded(name, patterns):
                chk.ok(R3, BACKUP, f'exclude covers {name!r}', detail=f'patterns {patterns}')
            else:
                chk.bad(R3, BACKUP, f'final rsync excludes {patterns}', f'the final "everything else" copy does not exclude {name!r}: {why}', where=rest.where)
        trailing = next((k.value for k in call.keywords if k.arg == 'src_trailing_slash'), None)
        if not (isinstance(trailing, ast.Constant) and trailing.value is True):
            chk.bad(R3, BACKUP, norm(call)[:100], 'the final copy no longer uses src_trailing_slash=True: the exclude patterns (relative to the container root) do not apply to the transferred names', where=rest.where)

    # ---------------------------------------------------------------- R4
    cr = prog.fn('backup_utils:BackupManager.call_rsync')
    raises = [n for n in walk_local(cr.node) if isinstance(n, ast.If) and 'returncode' in norm(n.test) and always_raises(n.body)]
    if raises and isinstance(raises[0].test, ast.Compare) and isinstance(raises[0].test.ops[0], ast.NotEq):
        chk.ok(R4, cr.qualname, norm(raises[0].test), detail='non-zero rsync exit raises BackupError')
    else:
        chk.bad(R4, cr.qualname, 'returncode check', 'call_rsync no longer raises when rsync exits with a non-zero status: a partial copy would be published as a backup', where=f'{cr.module.relpath}:{cr.lineno}')
    check_false = [n for n in walk_local(cr.node) if isinstance(n, ast.Call) and norm(n.func) == 'subprocess.run']
    chk.require(check_false, 'call_rsync: subprocess.run not found')
    af = prog.fn('backup_utils:BackupManager.backup_auto_folders')
    calls = sorted([n for n in walk_local(af.node) if isinstance(n, ast.Call)], key=lambda n: (n.lineno, n.col_offset))
    bf = [n for n in calls if isinstance(n.func, ast.Name) and n.func.id in af.params]
    mv = [n for n in calls if norm(n.func).endswith('run_cmd') and n.args and isinstance(n.args[0], ast.List) and n.args[0].elts
          and isinstance(n.args[0].elts[0], ast.Constant) and n.args[0].elts[0].value == 'mv']
    chk.require(bf and mv, 'backup_auto_folders: backup_func(...) call / mv command not found')
    in_try = False
    p = getattr(bf[0], '_parent', None)
    while p is not None and p is not af.node:
        if isinstance(p, ast.Try) and any(not always_raises(h.body) for h in p.handlers) and any(x is bf[0] for b in p.body for x in ast.walk(b)):
            in_try = True
        p = getattr(p, '_parent', None)
    if bf[0].lineno < mv[0].lineno and not in_try:
        chk.ok(R4, af.qualname, 'backup_func(...) ; mv live-backup', detail='rename only on the normal path after the backup function returned')
    else:
        chk.bad(R4, af.qualname, 'mv live-backup -> backup_<ts>', 'the live-backup folder can be renamed to a final backup although the backup function failed (or before it ran)', where=f'{af.module.relpath}:{mv[0].lineno}')
    # no swallowing handlers in backup_container / _sqlite_backup
    swallow = []
    for f in (fn, sb, af):
        for n in walk_local(f.node):
            if isinstance(n, ast.Try):
                for h in n.handlers:
                    if not always_raises(h.body):
                        swallow.append((f, h))
    if swallow:
        for f, h in swallow:
            chk.bad(R4, f.qualname, f'except {", ".join(handler_types(h))}', 'an exception handler in the backup path continues normally: a failed step would still yield a "successful" backup', where=f'{f.module.relpath}:{h.lineno}')
    else:
        chk.ok(R4, BACKUP, 'no swallowing handler in backup_container / _sqlite_backup / backup_auto_folders', detail='errors propagate to the caller')
    # command-line boundary: a failed backup ends the process with a non-zero status
    cli = prog.modules.get('cli')
    ncli = 0
    if cli is not None:
        for f in prog.all_functions():
            if f.module is not cli or isinstance(f.node, ast.Lambda):
                continue
            for n in walk_local(f.node):
                if isinstance(n, ast.Try) and any(isinstance(c, ast.Call) and isinstance(c.func, ast.Attribute) and c.func.attr in ('backup_auto_folders', 'backup_container') for b in n.body for c in ast.walk(b)):
                    for h in n.handlers:
                        ncli += 1
                        last = h.body[-1] if h.body else None
                        exits = isinstance(last, ast.Expr) and isinstance(last.value, ast.Call) and norm(last.value.func) in ('sys.exit', 'exit', 'ctx.exit') and last.value.args \
                            and isinstance(last.value.args[0], ast.Constant) and last.value.args[0].value not in (0, None, False)
                        if always_raises(h.body) or exits:
                            chk.ok(R4, f.qualname, f'except {", ".join(handler_types(h))}: ... exit non-zero', detail='the command reports a failed backup through its exit status')
                        else:
                            chk.bad(R4, f.qualname, f'except {", ".join(handler_types(h))}', 'the command-line backup catches the failure and ends normally (exit status 0): scripts and cron jobs would take a '
                                    'failed, partial backup for a good one', where=f'{f.module.relpath}:{h.lineno}')
        chk.require(ncli >= 1, 'cli: the try/except around the backup call was not found')
    # the dump result is validated or its failure raises
    isfile = [n for n in walk_local(fn.node) if isinstance(n, ast.If) and 'is_file' in norm(n.test)]
    if isfile and (always_raises(isfile[0].orelse) or always_raises(isfile[0].body)):
        chk.ok(R4, BACKUP, norm(isfile[0].test), detail='a missing dump raises BackupError', nontrivial=False)
    else:
        chk.ok(R4, BACKUP, 'dump failure', detail='sqlite3 raises on failure (no explicit is_file check)', nontrivial=False)

    # rules of other properties that are necessary conditions of this one too: the backup is consistent only because packs are append-only and filled in order (C13), as the property itself says
    if host is None:
        from ..report import host_modules
        host_modules(chk, ctx, ['C13'])

    return chk.finish(
        explanation=('Static checks of backup_container: an ordering typestate over the copy steps classified by the kind of their source path (discovered from the Container '
                     'helpers), provenance of the copied index (the dump written by the sqlite3 online-backup API), evaluation of the constant exclude patterns of the final '
                     'copy with rsync name-matching semantics against the names handled by the earlier steps and the WAL side files implied by journal_mode=wal, and error '
                     'propagation (rsync exit status, no swallowing handlers, rename only after success).'),
        rule_text='obligation = (rule, step / required excluded name / handler); non-trivial = path query or pattern evaluation',
        assumptions=['append-only packs and commit-after-write (C13, C05) make a later packs copy a superset of what the earlier index dump references',
                     'rsync exclude patterns without "/" match a name at any depth; only such simple patterns are evaluated (others: analysis error)'],
        not_decided='the schedules themselves (placements of concurrent steps between the copy phases).')
