"""C02 -- any history of operations is equivalent to a key->bytes map (DESIGN 5, C02).

Decided (structural necessary conditions, all paths):
  R1  every public key view of Container answers through the single read funnel (no second implementation of "exists");
      negative answers are derived from the funnel's MISSING outcome only
  R2  the funnel partitions the request: packed | loose | packed-on-retry | missing, in that order, each set derived from the
      previous one (provenance of the four sets) -- plus the order machine shared with C04/C08
  R3  the listing/count views are unions of the two stores (index rows U loose files not in the index)
  R4  closed-world destruction table: every unlink/rename/replace/link/rmtree/DELETE/UPDATE/truncate site of the package is
      in the table with its owner function, area and key provenance
  R5  init_container refuses to overwrite: both raising tests dominate the first write, rmtree only under `clear`, caches reset
  R6  maintenance keeps keys: repack carries id/hashkey/size of each row unchanged and stages every row; loosen_object
      writes through the loose writer and compares the key
"""
from __future__ import annotations

import ast

from ..effects import last_assignment, sql_statement
from ..kinds import alts
from ..loader import norm, walk_local
from ..report import Check
from ..solver import Machine, Violation, dominates_all_paths
from ..solver import run as solve
from .c01 import body_paths
from .common import MUTATING, Summaries, areas, in_area, is_lock_path, is_tmp_pack, origin, root_name, strip_not, write_policy
from .funnel import FUNNEL, FunnelMachine, funnel_policy, yield_meta_type

LOOKUP = {'OPEN', 'STAT', 'EXISTS', 'LISTDIR', 'DB_QUERY', 'READ_PATH', 'FSTAT', 'OPEN_FD'}

# Public pure views of Container that do their own store access, with the rule that covers them (one line of reason each)
VIEW_TABLE = {
    'container:Container.list_all_objects': 'listing view: union rule R3 (freshness: C08.R2)',
    'container:Container.count_objects': 'count view: R3',
    'container:Container.get_total_size': 'size statistics (C10.R4 maps the sums); not a key view',
    'container:Container.validate': 'maintenance scan (C12)',
    'container:Container.is_initialised': 'reads the configuration file and folder layout only, no object access',
}
# helpers a key view may reach that touch the file system / index without looking up objects
NON_OBJECT_HELPERS = {
    'container:Container._get_repository_config': 'reads config.json (cached)',
    'container:Container._get_operation_session': 'creates the cached session',
    'container:Container._get_container_session': 'creates the container session',
    'database:get_session': 'opens the SQLite index',
}

# ---------------------------------------------------------------------------------------------- R4 destruction table
# (function, effect, area) -> reason.  area = container area of the path that loses / changes content.
DESTRUCTION = {
    ('container:Container.init_container', 'RMTREE', 'root'): 'clearing on request; only under `if clear:` (R5)',
    ('container:Container.lock_pack', 'UNLINK', 'packs:lock'): 'releases the lock file',
    ('container:Container._clean_loose_objects', 'UNLINK', 'loose'): 'keys = parameter; called only by pack_all_loose with keys committed to the index (C05.R2)',
    ('container:Container.add_streamed_objects_to_pack', 'H_TRUNCATE', 'packs'): 'no_holes: tail rewind of the locked pack (C13.R3, C09.R3)',
    ('container:Container.clean_storage', 'UNLINK', 'loose'): 'keys found in the index by a query after a session refresh (C05.R3)',
    ('container:Container.clean_storage', 'UNLINK', 'duplicates'): 'duplicate copies (never the primary copy)',
    ('container:Container.clean_storage', 'REPLACE', 'duplicates->loose'): 'restores a verified duplicate over a corrupt loose file',
    ('container:Container.delete_objects', 'UNLINK', 'loose'): 'requested keys only',
    ('container:Container.delete_objects', 'UNLINK', 'duplicates'): 'duplicates of requested keys',
    ('container:Container.delete_objects', 'DB_DELETE', 'index'): 'requested keys only',
    ('container:Container.repack_pack', 'UNLINK', 'packs'): 'old pack after its rows moved (C05.R4) / empty pack',
    ('container:Container.repack_pack', 'UNLINK', 'packs:tmp'): 'temporary pack after the final commit',
    ('container:Container.repack_pack', 'LINK', 'packs:tmp->packs'): 'temporary pack published under the old id',
    ('container:Container.repack_pack', 'DB_UPDATE', 'index'): 'moves rows between pack ids; never changes key or size (R6)',
    ('utils:ObjectWriter.__exit__', 'UNLINK', 'sandbox'): 'removes the temporary file',
    ('utils:ObjectWriter.__exit__', 'RENAME', 'sandbox->loose'): 'publish',
    ('utils:ObjectWriter.__exit__', 'REPLACE', 'sandbox->loose'): 'publish over a corrupt copy (checksum mismatch verified, C09.R1)',
    ('utils:ObjectWriter.__exit__', 'RENAME', 'sandbox->duplicates'): 'Windows: keep a duplicate instead of overwriting an open file (through _store_duplicate_copy)',
}
DESTRUCTIVE = ('DB_ROLLBACK', 'SUBPROCESS', 'UNLINK', 'RENAME', 'REPLACE', 'LINK', 'RMTREE', 'RMDIR', 'DB_DELETE', 'DB_UPDATE', 'H_TRUNCATE', 'TRUNCATE_PATH', 'MOVE', 'COPY',
               'WRITE_PATH', 'TOUCH', 'FS_OTHER', 'DB_OTHER')


def _area_label(K, prog, pk):
    ar = sorted(areas(K, pk))
    if ar == ['packs']:
        if is_lock_path(K, pk):
            return 'packs:lock'
        try:
            if is_tmp_pack(K, pk, prog):
                return 'packs:tmp'
        except Exception:
            pass
    return '|'.join(ar)


def site_label(K, prog, e):
    name = e[0]
    if name.startswith('DB_'):
        return 'index'
    ops = []
    for x in e[1:3]:
        if isinstance(x, tuple) and x and isinstance(x[0], str) and x[0] in ('path', 'join', 'handle', 'fd', 'param', 'unknown', 'self'):
            pk = x[1] if x[0] in ('handle', 'fd') else x
            ops.append(_area_label(K, prog, pk))
    if name in ('RENAME', 'REPLACE', 'LINK', 'MOVE', 'COPY'):
        return '->'.join(ops[:2])
    return ops[0] if ops else 'unknown'


# ---------------------------------------------------------------------------------------------- R5 init machine

class InitMachine(Machine):
    """State = (cleared, not_init, empty): facts established on the path.  First write (config / sub-folders) requires both
    raising tests passed after any rmtree; rmtree requires `clear` to be true on the path."""

    def __init__(self, ctx, g, rule):
        self.K, self.E = ctx.kinds, ctx.effects
        self.rule = rule
        self.top = g.top
        self.writes = 0
        self.rmtrees = 0

    def initial(self, g):
        return [(None, False, False)]

    def edge_state(self, edge, st, node, g):
        c = edge.cond
        if c is None:
            return st
        expr, pol = strip_not(c[0], c[2])
        fr = c[1]
        if fr is not self.top:
            return st
        clear, ni, em = st
        if isinstance(expr, ast.Name) and expr.id == 'clear':
            if clear is not None and clear != pol:
                return None
            return (pol, ni, em)
        if isinstance(expr, ast.Name):
            v = last_assignment(expr.id, self.top.fn, getattr(expr, 'lineno', 10 ** 9))
            if v is not None:
                expr = v
        if isinstance(expr, ast.Attribute) and expr.attr == 'is_initialised' and not pol:
            return (clear, True, em)
        if isinstance(expr, ast.Call) and norm(expr.func) in ('os.listdir', 'listdir') and not pol:
            pk = self.K.kind(expr.args[0], fr) if expr.args else None
            if pk is not None and in_area(self.K, pk, 'root'):
                return (clear, ni, True)
        return st

    def transfer(self, node, st, g):
        clear, ni, em = st
        viol = []
        for e in self.E.of(node):
            if e[0] == 'RMTREE':
                self.rmtrees += 1
                if clear is not True:
                    viol.append(Violation(self.rule, node, st, 'the container folder can be removed on a path where `clear` is not known to be true'))
                ni = em = False
            elif (e[0] == 'OPEN' and any(ch in (e[2] or '') for ch in 'wax+')) or (e[0] == 'MKDIR' and not in_area(self.K, e[1], 'root')):
                self.writes += 1
                if not (ni and em):
                    what = 'the is_initialised test' if not ni else 'the empty-folder test'
                    viol.append(Violation(self.rule, node, st, f'the configuration / folder layout is written on a path that did not pass {what}: an existing container '
                                          '(or the remains of one) would be re-initialised with a new configuration and its objects become unreadable'))
        return [(clear, ni, em)] + viol


# ---------------------------------------------------------------------------------------------- R4d duplicates machine

class DupMachine(Machine):
    """clean_storage: a duplicate copy is removed only when the primary copy was just verified (its recomputed digest equals the
    key) or after a verified duplicate replaced the primary copy; the replacement itself requires the duplicate to be verified.
    State = (eq, ok): eq = the most recently computed digest is known to equal the key on this path; ok = removal authorised."""

    def __init__(self, ctx, g, rule):
        self.K, self.E = ctx.kinds, ctx.effects
        self.rule = rule
        self.top = g.top
        self.hashvars = set()
        for n in walk_local(g.top.fn.node):
            if isinstance(n, ast.Assign) and isinstance(n.value, ast.Call) and norm(n.value.func) == 'compute_hash_and_size':
                t = n.targets[0]
                first = t.elts[0] if isinstance(t, ast.Tuple) and t.elts else t
                if isinstance(first, ast.Name):
                    self.hashvars.add(first.id)
        self.unlinks = 0
        self.replaces = 0

    def initial(self, g):
        return [(False, False)]

    def edge_state(self, edge, st, node, g):
        c = edge.cond
        if c is None or c[1] is not self.top:
            return st
        e, pol = strip_not(c[0], c[2])
        if isinstance(e, ast.Compare) and len(e.ops) == 1 and isinstance(e.ops[0], (ast.Eq, ast.NotEq)):
            names = {x.id for x in ast.walk(e) if isinstance(x, ast.Name)}
            if names & self.hashvars and len(names) == 2:
                equal = pol if isinstance(e.ops[0], ast.Eq) else (not pol)
                return (equal, st[1])
        return st

    def transfer(self, node, st, g):
        eq, ok = st
        viol = []
        if node.frame is self.top:
            if node.kind == 'loop' and isinstance(node.ast, ast.For) and isinstance(node.ast.iter, ast.Name) and not isinstance(getattr(node.ast, '_parent', None), (ast.For, ast.While, ast.If)):
                # a new reference object of the outer loop: nothing verified yet
                eq, ok = False, False
            if node.kind == 'stmt' and isinstance(node.ast, ast.Assign):
                t = node.ast.targets[0]
                tn = {x.id for x in ast.walk(t) if isinstance(x, ast.Name)}
                if tn & self.hashvars:
                    eq = False
                    # a fresh digest of something else does not withdraw an authorisation already earned by a replacement
        for e in self.E.of(node):
            if e[0] in ('REPLACE', 'RENAME', 'MOVE') and in_area(self.K, e[1], 'duplicates') and in_area(self.K, e[2], 'loose'):
                self.replaces += 1
                if not eq:
                    viol.append(Violation(self.rule, node, st, 'a duplicate copy replaces the primary loose object on a path where the duplicate\'s recomputed digest is not known to equal the key'))
                ok = True
            elif e[0] == 'UNLINK' and in_area(self.K, e[1], 'duplicates'):
                self.unlinks += 1
                if not (ok or eq):
                    viol.append(Violation(self.rule, node, st, 'a duplicate copy is removed on a path where neither the primary copy was verified (recomputed digest == key) nor a verified duplicate '
                                          'replaced it: if the primary copy is corrupt the last good copy of the object is destroyed'))
        return [(eq, ok)] + viol


# ---------------------------------------------------------------------------------------------- helpers

def _calls_in(fn):
    return [n for n in walk_local(fn.node) if isinstance(n, ast.Call)]


def _for_loops(fn):
    return [n for n in walk_local(fn.node) if isinstance(n, ast.For)]


def _names(expr):
    return {x.id for x in ast.walk(expr) if isinstance(x, ast.Name)}


def _yields(stmts):
    out = []
    for st in stmts:
        for x in ast.walk(st):
            if isinstance(x, ast.Yield):
                out.append(x)
    return out


def _kwarg(call, name, pos=None):
    for k in call.keywords:
        if k.arg == name:
            return k.value
    if pos is not None and len(call.args) > pos:
        return call.args[pos]
    return None


def key_views_funnel_only(ctx, chk, R1, S):
    """Call-graph rule shared by C02.R1, C04.Pr0 and C08.R3: every public pure key view of Container reaches object files and the index only
    through the read funnel (which carries the loose-probe -> refresh -> re-query fallback); returns the list of key views."""
    prog, K = ctx.prog, ctx.kinds
    cont = K.container
    def reach_fns(f, depth=8, seen=None):
        seen = seen if seen is not None else {}
        if f.qualname in seen or depth < 0:
            return seen
        seen[f.qualname] = f
        for n, cal, effs in S.calls(f):
            if cal is None:
                continue
            tgt = cal.target if cal.kind == 'internal' else (prog.find_method(cal.target, '__init__') if cal.kind == 'class' else None)
            if tgt is not None:
                reach_fns(tgt, depth - 1, seen)
        return seen

    nviews = 0
    key_views = []
    for name, f in sorted(cont.methods.items()):
        if name.startswith('_') or f.is_overload:
            continue
        params = [p for p in f.params if p not in ('self', 'cls')]
        is_key_view = any(p in ('hashkey', 'hashkeys') for p in params)
        tr = S.trans(f, depth=6)
        if any(e[0] in MUTATING and e[0] != 'H_FLUSH' for e in tr):
            continue  # writers / maintenance: R4, R6 and C05
        own = {e[0] for n, cal, effs in S.calls(f) for e in effs}
        if f.qualname in VIEW_TABLE:
            chk.ok(R1, f.qualname, 'tabled view', detail=VIEW_TABLE[f.qualname], nontrivial=False)
            nviews += 1
            continue
        if not is_key_view:
            if own & LOOKUP:
                chk.bad(R1, f.qualname, f'own effects {sorted(own & LOOKUP)}', 'a public pure view that takes no key accesses the stores itself and is not in the view table '
                        '(an unreviewed second implementation of listing/existence)', where=f'{f.module.relpath}:{f.lineno}')
            continue
        nviews += 1
        key_views.append(f)
        if own & LOOKUP:
            chk.bad(R1, f.qualname, f'own effects {sorted(own & LOOKUP)}', 'a public key view looks objects up by itself (file/stat/index access outside the read funnel): '
                    'a second implementation of "exists" can disagree with the other views', where=f'{f.module.relpath}:{f.lineno}')
            continue
        rf = reach_fns(f)
        offenders = []
        for q, g2 in rf.items():
            if q == FUNNEL or q in NON_OBJECT_HELPERS or q == f.qualname:
                continue
            if g2.cls is not cont and not q.startswith('container:'):
                # stream classes (readers) operate on handles the funnel opened; LazyLooseStream re-enters the public API
                continue
            o2 = {e[0] for n, cal, effs in S.calls(g2) for e in effs}
            if o2 & LOOKUP and not any(p in ('hashkey', 'hashkeys') for p in g2.params) and g2.qualname not in VIEW_TABLE:
                # path helpers have no effects; anything else doing lookups on the way is an offender
                offenders.append(q)
            elif o2 & LOOKUP and g2.qualname != FUNNEL and g2 is not f and not g2.name.startswith('get_') and not g2.name.startswith('has_'):
                offenders.append(q)
        any_lookup = any({e[0] for n, cal, effs in S.calls(g2) for e in effs} & LOOKUP for g2 in rf.values())
        if FUNNEL not in rf and not any_lookup:
            chk.ok(R1, f.qualname, 'call graph', detail='no store access at all (constructs a lazy stream object)', nontrivial=False)
        elif FUNNEL not in rf:
            chk.bad(R1, f.qualname, 'call graph', 'this key view does not reach the read funnel at all', where=f'{f.module.relpath}:{f.lineno}')
        elif offenders:
            chk.bad(R1, f.qualname, f'reaches {offenders}', 'this key view reaches a function other than the read funnel that accesses object files / the index',
                    where=f'{f.module.relpath}:{f.lineno}')
        else:
            chk.ok(R1, f.qualname, 'call graph', detail=f'store access only via {FUNNEL.split(".")[-1]} ({len(rf)} reachable functions)')
    chk.require(len(key_views) >= 8, f'expected >= 8 public key views on Container, found {[f.name for f in key_views]}')

    return key_views


def funnel_partition(ctx, chk, R2, rule_id='C02.R2'):
    """The read funnel partitions the request: index -> loose (not found in index) -> refreshed index (loose probe failed) -> MISSING (still not found).
    Shared: C02.R2, and C08 (the fallback pass is what makes a long-open handle see what other handles acknowledged)."""
    prog, K, E = ctx.prog, ctx.kinds, ctx.effects
    S = Summaries(ctx)
    cont = K.container
    funnel = prog.fn(FUNNEL)
    # ================================================================ R2 (funnel partition)
    for ws in (True, False):
        g = ctx.icfg(FUNNEL, {'with_streams': ws, 'skip_if_missing': False}, funnel_policy(), key='funnel')
        m = FunnelMachine(ctx, g, rule_id)
        viols, st = solve(g, m)
        chk.crash_points += st['pairs']
        chk.specialisations += 1
        chk.require(m.probe_sites and m.missing_sites, f'funnel(with_streams={ws}): probe / MISSING sites not found')
        for v in viols:
            chk.bad(R2, FUNNEL, v.node.text(100), v.msg + f' [with_streams={ws}]', where=v.node.where, witness=v.witness)
        if not viols:
            chk.ok(R2, FUNNEL, f'order machine, with_streams={ws}', detail=f'{len(m.missing_sites)} MISSING yield(s) after probe -> refresh -> query')
    fn = funnel
    # request set
    reqs = [n for n in walk_local(fn.node) if isinstance(n, ast.Assign) and isinstance(n.value, ast.Call) and norm(n.value.func) == 'set'
            and n.value.args and isinstance(n.value.args[0], ast.Name) and n.value.args[0].id in fn.params]
    chk.require(len(reqs) == 1, 'funnel: request set not found')
    REQ = reqs[0].targets[0].id
    # loops that yield, classified by the type of the yielded metadata
    def yield_types(stmts):
        ts = set()
        for st in stmts:
            for x in ast.walk(st):
                if isinstance(x, ast.Yield) and x.value is not None:
                    for nm in _names(x.value):
                        v = last_assignment(nm, fn, x.lineno)
                        if isinstance(v, ast.Dict):
                            for k, val in zip(v.keys, v.values):
                                if isinstance(k, ast.Constant) and k.value == 'type' and isinstance(val, ast.Attribute):
                                    ts.add(val.attr)
        return ts
    top_loops = [l for l in _for_loops(fn)]
    loose_loops = [l for l in top_loops if 'LOOSE' in yield_types(l.body)]
    missing_loops = [l for l in top_loops if yield_types(l.body) == {'MISSING'}]
    packed_loops = [l for l in top_loops if yield_types(l.body) == {'PACKED'} and isinstance(l.target, ast.Tuple)]  # for pack_id, pack_metadata in packs.items()
    chk.require(len(loose_loops) == 1 and len(missing_loops) == 1 and len(packed_loops) == 2,
                f'funnel: expected 1 loose, 1 missing and 2 packed outcome loops, found {len(loose_loops)}/{len(missing_loops)}/{len(packed_loops)}')
    LL, ML = loose_loops[0], missing_loops[0]
    packed_loops.sort(key=lambda l: l.lineno)
    P1, P2 = packed_loops
    chk.require(P1.lineno < LL.lineno < P2.lineno < ML.lineno, 'funnel: outcome loops are not in the order packed, loose, packed-retry, missing')

    def inner_yield_all(ploop):
        """In a `for pack_id, metas in packs.items()` loop: the inner loop over the metas yields every element on all its paths; returns (ok, metas name, inner loop)."""
        metas = ploop.target.elts[1].id if isinstance(ploop.target.elts[1], ast.Name) else None
        inner = [l for l in ast.walk(ploop) if isinstance(l, ast.For) and l is not ploop and isinstance(l.iter, ast.Name) and l.iter.id == metas]
        if len(inner) != 1 or not isinstance(inner[0].target, ast.Name):
            return False, metas, None
        el = inner[0].target.id
        ok = True
        for path in body_paths(inner[0].body):
            ys = [y for s in path if isinstance(s, ast.AST) for y in ast.walk(s) if isinstance(y, ast.Yield)]
            if len(ys) != 1:
                ok = False
                continue
            first = ys[0].value.elts[0] if isinstance(ys[0].value, ast.Tuple) and ys[0].value.elts else None
            if first is None or norm(first) != f'{el}.hashkey':
                ok = False
        # the inner loop must not be skippable: every path through the outer body reaches it (try/finally allowed)
        return ok, metas, inner[0]

    def found_update(ploop, metas):
        """`S.update(obj.hashkey for obj in metas)` / difference_update in the outer loop body (unconditional)."""
        out = []
        for st in ploop.body:
            if isinstance(st, ast.Expr) and isinstance(st.value, ast.Call) and isinstance(st.value.func, ast.Attribute) and st.value.func.attr in ('update', 'difference_update') \
                    and isinstance(st.value.func.value, ast.Name) and st.value.args and isinstance(st.value.args[0], (ast.GeneratorExp, ast.ListComp, ast.SetComp)):
                ge = st.value.args[0]
                if len(ge.generators) == 1 and not ge.generators[0].ifs and isinstance(ge.generators[0].iter, ast.Name) and ge.generators[0].iter.id == metas \
                        and isinstance(ge.generators[0].target, ast.Name) and norm(ge.elt) == f'{ge.generators[0].target.id}.hashkey':
                    out.append((st.value.func.value.id, st.value.func.attr))
        return out

    # (1) first packed pass: yields every found row, records exactly those keys as found
    ok1, metas1, _ = inner_yield_all(P1)
    upd1 = found_update(P1, metas1)
    FOUND = upd1[0][0] if len(upd1) == 1 and upd1[0][1] == 'update' else None
    if ok1 and FOUND:
        chk.ok(R2, FUNNEL, f'{FOUND}.update(...) / yield per row', detail='first pass: every row found in the index is yielded once and recorded as found')
    else:
        chk.bad(R2, FUNNEL, 'first packed pass', 'the first index pass does not yield every found row exactly once on every path and record exactly the yielded keys as found',
                where=f'{fn.module.relpath}:{P1.lineno}')
    # other mutations of FOUND?
    if FOUND:
        others = [c for c in _calls_in(fn) if isinstance(c.func, ast.Attribute) and isinstance(c.func.value, ast.Name) and c.func.value.id == FOUND
                  and c.func.attr in ('add', 'update', 'discard', 'remove', 'clear', 'difference_update', 'pop', 'intersection_update', 'symmetric_difference_update')]
        if len(others) != 1:
            chk.bad(R2, FUNNEL, f'{FOUND} mutated {len(others)} times', 'the found-in-index set is modified at a site other than the first pass', where=f'{fn.module.relpath}:{P1.lineno}')
    # (2) loose loop iterates REQ - FOUND (C16.R2 checks the same expression; here it anchors the partition)
    it = LL.iter
    ok2 = isinstance(it, ast.Call) and isinstance(it.func, ast.Attribute) and it.func.attr == 'difference' and norm(it.func.value) == REQ and it.args and norm(it.args[0]) == FOUND
    ok2 = ok2 or (isinstance(it, ast.BinOp) and isinstance(it.op, ast.Sub) and norm(it.left) == REQ and norm(it.right) == FOUND)
    lk = LL.target.id if isinstance(LL.target, ast.Name) else None
    if ok2 and lk:
        chk.ok(R2, FUNNEL, norm(it), detail='loose probes for exactly the requested keys not found in the index')
    else:
        chk.bad(R2, FUNNEL, norm(it), 'the loose pass does not iterate over (request - found in index)', where=f'{fn.module.relpath}:{LL.lineno}')
    # (3) each loose key: yielded as LOOSE under its own key, or (FileNotFoundError) recorded for the retry -- nothing else
    trys = [s for s in LL.body if isinstance(s, ast.Try)]
    ok3 = len(trys) == 1
    NF = None
    if ok3:
        tr = trys[0]
        for path in body_paths(tr.body):
            ys = [y for s in path if isinstance(s, ast.AST) for y in ast.walk(s) if isinstance(y, ast.Yield)]
            if len(ys) != 1 or not (isinstance(ys[0].value, ast.Tuple) and norm(ys[0].value.elts[0]) == lk):
                ok3 = False
        hs = tr.handlers
        if len(hs) != 1 or hs[0].type is None or norm(hs[0].type) != 'FileNotFoundError':
            ok3 = False
        else:
            adds = [c for s in hs[0].body for c in ast.walk(s) if isinstance(c, ast.Call) and isinstance(c.func, ast.Attribute) and c.func.attr == 'add' and isinstance(c.func.value, ast.Name)]
            if len(adds) == 1 and adds[0].args and norm(adds[0].args[0]) == lk and isinstance(hs[0].body[0], ast.Expr) and hs[0].body[0].value is adds[0]:
                NF = adds[0].func.value.id
            else:
                ok3 = False
        # no other statement of the loop body may skip the probe (continue/break before the try)
        for s in LL.body:
            if s is tr:
                break
            if any(isinstance(x, (ast.Continue, ast.Break, ast.Return)) for x in ast.walk(s)):
                ok3 = False
    if ok3 and NF:
        chk.ok(R2, FUNNEL, f'loose probe of {lk}', detail=f'each probed key is yielded as LOOSE or, on FileNotFoundError only, added to {NF}')
    else:
        chk.bad(R2, FUNNEL, 'loose probe loop', 'a key probed in loose/ is neither yielded under its own key nor recorded for the index retry on some path '
                '(or a different exception / condition routes keys to the retry set)', where=f'{fn.module.relpath}:{LL.lineno}')
    if NF:
        muts = [c for c in _calls_in(fn) if isinstance(c.func, ast.Attribute) and isinstance(c.func.value, ast.Name) and c.func.value.id == NF
                and c.func.attr in ('add', 'update', 'discard', 'remove', 'clear', 'difference_update', 'pop', 'intersection_update')]
        if len(muts) != 1:
            chk.bad(R2, FUNNEL, f'{NF} mutated {len(muts)} times', 'the retry set is modified outside the FileNotFoundError handler', where=f'{fn.module.relpath}:{LL.lineno}')
    # (4) retry pass: really-missing = copy of the retry set minus exactly the keys yielded by the second packed pass
    ok4m, metas2, _ = inner_yield_all(P2)
    upd2 = found_update(P2, metas2)
    RNF = upd2[0][0] if len(upd2) == 1 and upd2[0][1] == 'difference_update' else None
    ok4 = ok4m and RNF is not None
    if ok4:
        src = [n for n in walk_local(fn.node) if isinstance(n, ast.Assign) and isinstance(n.targets[0], ast.Name) and n.targets[0].id == RNF]
        ok4 = len(src) == 1 and norm(src[0].value) in (f'{NF}.copy()', f'set({NF})') and src[0].lineno < P2.lineno
        muts = [c for c in _calls_in(fn) if isinstance(c.func, ast.Attribute) and isinstance(c.func.value, ast.Name) and c.func.value.id == RNF
                and c.func.attr in ('add', 'update', 'discard', 'remove', 'clear', 'difference_update', 'pop', 'intersection_update')]
        ok4 = ok4 and len(muts) == 1
    if ok4:
        chk.ok(R2, FUNNEL, f'{RNF} = {NF}.copy(); {RNF}.difference_update(...)', detail='retry pass: every row found is yielded; missing = retry set minus exactly those keys')
    else:
        chk.bad(R2, FUNNEL, 'retry pass', 'the set reported MISSING is not (keys whose loose probe failed) minus (keys yielded by the second index pass)', where=f'{fn.module.relpath}:{P2.lineno}')
    # (5) the MISSING loop iterates that set and yields each key
    ok5 = isinstance(ML.iter, ast.Name) and ML.iter.id == RNF and isinstance(ML.target, ast.Name)
    if ok5:
        for path in body_paths(ML.body):
            ys = [y for s in path if isinstance(s, ast.AST) for y in ast.walk(s) if isinstance(y, ast.Yield)]
            if len(ys) != 1 or not (isinstance(ys[0].value, ast.Tuple) and norm(ys[0].value.elts[0]) == ML.target.id):
                ok5 = False
    if ok5:
        chk.ok(R2, FUNNEL, f'for {ML.target.id} in {RNF}', detail='every still-missing key is reported MISSING under its own key')
    else:
        chk.bad(R2, FUNNEL, 'MISSING loop', 'the MISSING outcomes are not exactly the keys left after the retry pass', where=f'{fn.module.relpath}:{ML.lineno}')
    # (6) the retry lookup is keyed by the retry set (both strategies) -- the sets compared in the second `len(...)` test and fed to the queries
    second_if = [n for n in walk_local(fn.node) if isinstance(n, ast.If) and isinstance(n.test, ast.Compare) and isinstance(n.test.left, ast.Call)
                 and norm(n.test.left.func) == 'len' and n.lineno > LL.lineno]
    if NF and len(second_if) == 1:
        used = {norm(c.args[0]) for c in ast.walk(second_if[0]) if isinstance(c, ast.Call) and norm(c.func) in ('chunk_iterator', 'sorted') and c.args}
        if used == {NF} and norm(second_if[0].test.left.args[0]) == NF:
            chk.ok(R2, FUNNEL, f'retry lookup over {NF}', detail='both strategies of the retry query are keyed by the retry set')
        else:
            chk.bad(R2, FUNNEL, f'retry lookup over {sorted(used)}', 'the retry query is not keyed by exactly the keys whose loose probe failed', where=f'{fn.module.relpath}:{second_if[0].lineno}')
    else:
        chk.bad(R2, FUNNEL, 'retry lookup', 'retry lookup (two-strategy query after the loose pass) not found', where=f'{fn.module.relpath}:{LL.lineno}')



def run(ctx, host=None):
    chk = host.sub('C02') if host is not None else Check('C02', ctx)
    prog, K, E = ctx.prog, ctx.kinds, ctx.effects
    R1 = chk.rule('C02.R1', 'every public key view answers through the single read funnel; negative answers come from its MISSING outcome only', 9)
    R2 = chk.rule('C02.R2', 'funnel partitions the request: index -> loose (not found in index) -> refreshed index (loose probe failed) -> MISSING (still not found)', 6)
    R3 = chk.rule('C02.R3', 'listing and counts are unions of the two stores: every index row, plus loose files not in the index', 5)
    R4 = chk.rule('C02.R4', 'closed-world destruction table: every unlink/rename/replace/link/rmtree/DELETE/UPDATE/truncate site has a tabled owner, area and key provenance', 20)
    R5 = chk.rule('C02.R5', 'init_container refuses to overwrite: both raising tests dominate the first write; rmtree only under clear; caches and sessions reset', 4)
    R6 = chk.rule('C02.R6', 'maintenance keeps keys: repack stages every row with its own id/hashkey/size; loosen_object re-adds through the loose writer and compares the key', 4)
    S = Summaries(ctx)
    cont = K.container
    funnel = prog.fn(FUNNEL)

    key_views = key_views_funnel_only(ctx, chk, R1, S)
    # negative answers: NotExistent / False / None derive from the MISSING outcome
    def calls_to(f, method):
        return [c for c in _calls_in(f) if isinstance(c.func, ast.Attribute) and c.func.attr == method]

    # (a) single-object views pass skip_if_missing=False and raise NotExistent exactly on the missing marker
    for vname, inner, marker in (('get_object_stream_and_meta', 'get_objects_stream_and_meta', 'stream'), ('get_object_meta', 'get_objects_meta', 'meta')):
        f = cont.methods.get(vname)
        chk.require(f is not None, f'Container.{vname} not found')
        cs = calls_to(f, inner)
        chk.require(len(cs) == 1, f'{vname}: expected one call of {inner}')
        sk = _kwarg(cs[0], 'skip_if_missing', 1)
        raises = [n for n in walk_local(f.node) if isinstance(n, ast.Raise) and n.exc is not None and 'NotExistent' in norm(n.exc)]
        okv = isinstance(sk, ast.Constant) and sk.value is False and bool(raises)
        msg = None
        if not (isinstance(sk, ast.Constant) and sk.value is False):
            msg = 'the bulk reader is not asked to report missing keys (skip_if_missing is not the constant False): a missing object would produce no answer instead of NotExistent'
        elif not raises:
            msg = 'NotExistent is never raised'
        else:
            # the raise must be guarded by a test of the missing marker of the funnel (stream is None / type MISSING)
            guarded = False
            for n in walk_local(f.node):
                if isinstance(n, ast.If):
                    t = norm(n.test)
                    in_body = any(r in list(ast.walk(n)) for r in raises)
                    if ('is None' in t and in_body and any(r in [y for s in n.body for y in ast.walk(s)] for r in raises)) or \
                            ('MISSING' in t and ((('!=' in t) and any(isinstance(y, ast.Return) for s in n.body for y in ast.walk(s))) or
                                                 (('==' in t) and any(r in [y for s in n.body for y in ast.walk(s)] for r in raises)))):
                        guarded = True
            if not guarded:
                msg = 'NotExistent is not decided by the funnel\'s missing marker (None stream / ObjectType.MISSING)'
        if msg:
            chk.bad(R1, f.qualname, norm(cs[0])[:120], msg, where=f'{f.module.relpath}:{cs[0].lineno}')
        else:
            chk.ok(R1, f.qualname, norm(cs[0])[:120], detail='skip_if_missing=False; NotExistent iff the funnel reports the key missing')
    # (b) has_objects: only existing keys enter the answer set
    ho = cont.methods.get('has_objects')
    chk.require(ho is not None, 'Container.has_objects not found')
    cs = calls_to(ho, 'get_objects_meta') + calls_to(ho, 'get_objects_stream_and_meta') + calls_to(ho, '_get_objects_stream_meta_generator')
    chk.require(len(cs) == 1, 'has_objects: expected one bulk lookup call')
    sk = _kwarg(cs[0], 'skip_if_missing', 1)
    hk = _kwarg(cs[0], 'hashkeys', 0)
    if isinstance(sk, ast.Constant) and sk.value is True or (sk is None):
        okh = True
    else:
        okh = any('MISSING' in norm(n.test) for n in walk_local(ho.node) if isinstance(n, ast.If))
    if okh and isinstance(hk, ast.Name) and hk.id in ho.params:
        chk.ok(R1, ho.qualname, norm(cs[0])[:120], detail='existence = the funnel yields the key as LOOSE/PACKED (missing keys skipped)')
    else:
        chk.bad(R1, ho.qualname, norm(cs[0])[:120], 'has_objects would count keys the funnel reports as MISSING as existing (skip_if_missing is not True and the type is not tested), '
                'or does not look up the requested keys', where=f'{ho.module.relpath}:{cs[0].lineno}')
    # (c) bulk views forward the caller's skip_if_missing and key list unchanged
    for vname in ('get_objects_stream_and_meta', 'get_objects_meta', 'get_objects_content'):
        f = cont.methods.get(vname)
        chk.require(f is not None, f'Container.{vname} not found')
        cs = [c for c in _calls_in(f) if isinstance(c.func, ast.Attribute) and c.func.attr in ('_get_objects_stream_meta_generator', 'get_objects_stream_and_meta', 'get_objects_meta')]
        chk.require(len(cs) == 1, f'{vname}: expected one call into the funnel')
        sk, hk = _kwarg(cs[0], 'skip_if_missing', 1), _kwarg(cs[0], 'hashkeys', 0)
        if isinstance(sk, ast.Name) and sk.id == 'skip_if_missing' and isinstance(hk, ast.Name) and hk.id == 'hashkeys':
            chk.ok(R1, f.qualname, norm(cs[0])[:120], detail='request and skip_if_missing forwarded unchanged', nontrivial=False)
        else:
            chk.bad(R1, f.qualname, norm(cs[0])[:120], 'the bulk view does not forward the caller\'s key list / skip_if_missing unchanged to the funnel', where=f'{f.module.relpath}:{cs[0].lineno}')
    # get_objects_content: every yielded key is stored, value = stream.read() or None for the missing marker
    goc = cont.methods['get_objects_content']
    loops = [l for l in _for_loops(goc) if isinstance(l.target, ast.Tuple) and len(l.target.elts) == 3]
    chk.require(len(loops) == 1, 'get_objects_content: triplet loop not found')
    lp = loops[0]
    kname = lp.target.elts[0].id if isinstance(lp.target.elts[0], ast.Name) else None
    sname = lp.target.elts[1].id if isinstance(lp.target.elts[1], ast.Name) else None
    okc = True
    for path in body_paths(lp.body):
        stores = [s for s in path if isinstance(s, ast.Assign) and isinstance(s.targets[0], ast.Subscript) and norm(s.targets[0].slice) == kname]
        if len(stores) != 1:
            okc = False
            continue
        v = norm(stores[0].value)
        tests = [(norm(t[1]), t[2]) for t in path if isinstance(t, tuple)]
        none_path = any((tx == f'{sname} is None' and pol) or (tx == f'{sname} is not None' and not pol) for tx, pol in tests)
        if none_path and v != 'None':
            okc = False
        if not none_path and v != f'{sname}.read()':
            okc = False
    if okc:
        chk.ok(R1, goc.qualname, norm(lp.target), detail='every triplet stored under its own key; bytes = stream.read(), None only for the missing marker')
    else:
        chk.bad(R1, goc.qualname, norm(lp.target), 'get_objects_content does not store exactly one entry per yielded key with the whole content of its stream', where=f'{goc.module.relpath}:{lp.lineno}')

    funnel_partition(ctx, chk, R2)

    # ================================================================ R3 (listing / counts)
    la = cont.methods.get('list_all_objects')
    chk.require(la is not None, 'Container.list_all_objects not found')
    lset = [n for n in walk_local(la.node) if isinstance(n, ast.Assign) and isinstance(n.value, ast.Call) and norm(n.value.func) == 'set' and n.value.args
            and isinstance(n.value.args[0], ast.Call) and norm(n.value.args[0].func).endswith('_list_loose')]
    chk.require(len(lset) == 1, 'list_all_objects: `set(self._list_loose())` not found')
    LS = lset[0].targets[0].id
    # the page loop: for <row unpack> in results: yield key; LS -= {key}
    execs = [n for n in walk_local(la.node) if isinstance(n, ast.Assign) and isinstance(n.value, ast.Call) and 'execute' in norm(n.value.func)]
    chk.require(execs, 'list_all_objects: page query not found')
    page = execs[0].targets[0].id
    stmt_info = None
    for c in _calls_in(la):
        if isinstance(c.func, ast.Attribute) and c.func.attr == 'execute' and c.args:
            stmt_info = sql_statement(prog, c.args[0], la, c.lineno)
    chk.require(stmt_info is not None and stmt_info['op'] == 'SELECT', 'list_all_objects: SELECT not recognised')
    cols = [c.split('.')[-1] for c in stmt_info['cols']]
    row_loops = [l for l in _for_loops(la) if isinstance(l.iter, ast.Name) and l.iter.id == page]
    chk.require(len(row_loops) == 1, 'list_all_objects: loop over the page not found')
    rl = row_loops[0]
    okl = isinstance(rl.target, ast.Tuple) and len(rl.target.elts) == len(cols) and 'hashkey' in cols
    keyvar = None
    if okl:
        kv = rl.target.elts[cols.index('hashkey')]
        keyvar = kv.id if isinstance(kv, ast.Name) else None
        okl = keyvar is not None
    if okl:
        for path in body_paths(rl.body):
            ys = [y for s in path if isinstance(s, ast.AST) for y in ast.walk(s) if isinstance(y, ast.Yield)]
            if len(ys) != 1 or norm(ys[0].value) != keyvar:
                okl = False
    if okl and not stmt_info['where'] == [w for w in stmt_info['where'] if 'id' in w and '>' in w]:
        okl = False
    if okl:
        chk.ok(R3, la.qualname, f'for {norm(rl.target)} in {page}: yield {keyvar}', detail='every index row is listed under its hashkey column (filter: paging on id only)')
    else:
        chk.bad(R3, la.qualname, 'index page loop', 'list_all_objects does not yield the hashkey of every index row (row filter other than paging, conditional yield, or wrong column)',
                where=f'{la.module.relpath}:{rl.lineno}')
    # removals from the loose set: only keys just yielded from the index
    muts = [c for c in _calls_in(la) if isinstance(c.func, ast.Attribute) and isinstance(c.func.value, ast.Name) and c.func.value.id == LS
            and c.func.attr in ('difference_update', 'discard', 'remove', 'clear', 'pop', 'intersection_update', 'add', 'update')]
    okm = True
    for c in muts:
        inside = any(c is x for s in rl.body for x in ast.walk(s))
        argn = _names(c.args[0]) if c.args else set()
        if not (inside and c.func.attr in ('difference_update', 'discard') and argn == {keyvar}):
            okm = False
    reass = [n for n in walk_local(la.node) if isinstance(n, (ast.Assign, ast.AugAssign)) and LS in _names(n.targets[0] if isinstance(n, ast.Assign) else n.target)]
    if okm and len(reass) == 1:
        chk.ok(R3, la.qualname, f'{LS} only loses keys listed from the index', detail=f'{len(muts)} removal site(s)')
    else:
        chk.bad(R3, la.qualname, f'{LS} mutations', 'the loose listing is reduced by something other than the keys just listed from the index (loose-only objects could disappear from the listing)',
                where=f'{la.module.relpath}:{lset[0].lineno}')
    # final loop yields every remaining loose key, unconditionally, after the page loop
    fl = [l for l in _for_loops(la) if isinstance(l.iter, ast.Name) and l.iter.id == LS and l.lineno > rl.lineno]
    okf = len(fl) == 1 and isinstance(fl[0].target, ast.Name) and fl[0] in la.node.body
    if okf:
        for path in body_paths(fl[0].body):
            ys = [y for s in path if isinstance(s, ast.AST) for y in ast.walk(s) if isinstance(y, ast.Yield)]
            if len(ys) != 1 or norm(ys[0].value) != fl[0].target.id:
                okf = False
    if okf:
        chk.ok(R3, la.qualname, f'for {fl[0].target.id} in {LS}: yield', detail='every loose object not in the index is listed, on every path')
    else:
        chk.bad(R3, la.qualname, 'loose remainder loop', 'loose objects that are not in the index are not all listed (missing, conditional or nested final loop)',
                where=f'{la.module.relpath}:{la.lineno}')
    # _list_loose: the only filters are the validity predicates; the key is the concatenation of the path components
    ll = cont.methods.get('_list_loose')
    chk.require(ll is not None, 'Container._list_loose not found')
    okll = True
    nfilters = 0
    for n in walk_local(ll.node):
        if isinstance(n, ast.If) and any(isinstance(x, (ast.Continue, ast.Break, ast.Return)) for x in n.body):
            nfilters += 1
            t = n.test
            config_branch = {x.attr for x in ast.walk(t) if isinstance(x, ast.Attribute)} <= {'loose_prefix_len'} and not any(isinstance(x, ast.Call) for x in ast.walk(t)) \
                and {x.id for x in ast.walk(t) if isinstance(x, ast.Name)} <= {'self'}
            if config_branch:
                nfilters -= 1   # `if not self.loose_prefix_len: <flat case>; continue` selects the layout, it filters nothing
            elif not (isinstance(t, ast.UnaryOp) and isinstance(t.op, ast.Not) and isinstance(t.operand, ast.Call) and norm(t.operand.func) in ('self._is_valid_loose_prefix', 'self._is_valid_hashkey')):
                okll = False
    lds = [e for n, cal, effs in S.calls(ll) for e in effs if e[0] == 'LISTDIR']
    if not lds or not all(in_area(K, e[1], 'loose') for e in lds):
        okll = False
    if okll:
        chk.ok(R3, ll.qualname, f'{nfilters} skip filter(s), {len(lds)} listdir site(s)', detail='loose listing enumerates loose/ and skips only names that are not valid prefixes / keys')
    else:
        chk.bad(R3, ll.qualname, 'filters', '_list_loose skips entries for a reason other than the name-validity predicates, or lists another directory', where=f'{ll.module.relpath}:{ll.lineno}')
    # the name-validity predicates themselves: they depend on the configuration only through self.loose_prefix_len, never on a literal key length, and
    # accept every lowercase hex digit (a key of any supported hash algorithm must be listed)
    for pname in ('_is_valid_hashkey', '_is_valid_loose_prefix'):
        pf = cont.methods.get(pname)
        chk.require(pf is not None, f'Container.{pname} not found')
        badp = None
        for n in walk_local(pf.node):
            if isinstance(n, ast.Compare) and len(n.ops) == 1:
                sides = [n.left, n.comparators[0]]
                lens = [x for x in sides if isinstance(x, ast.Call) and norm(x.func) == 'len']
                consts = [x for x in sides if isinstance(x, ast.Constant) and isinstance(x.value, int) and not isinstance(x.value, bool)]
                if lens and consts:
                    badp = (n, f'the length of the name is compared with the literal {consts[0].value}: keys of another supported hash algorithm (or prefix length) would be treated as foreign files and silently left out of every listing')
                if isinstance(n.ops[0], (ast.In, ast.NotIn)) and isinstance(n.comparators[0], ast.Constant) and isinstance(n.comparators[0].value, str):
                    if not set('0123456789abcdef') <= set(n.comparators[0].value):
                        badp = (n, f'the accepted alphabet {n.comparators[0].value!r} lacks hexadecimal digits: valid keys would be left out of every listing')
        if badp:
            chk.bad(R3, pf.qualname, norm(badp[0]), badp[1], where=f'{pf.module.relpath}:{badp[0].lineno}')
        else:
            chk.ok(R3, pf.qualname, 'name validity', detail='hex alphabet complete; length only compared with the configured prefix length', nontrivial=False)
    # count_objects
    co = cont.methods.get('count_objects')
    chk.require(co is not None, 'Container.count_objects not found')
    ctor = [c for c in _calls_in(co) if norm(c.func) == 'ObjectCount']
    chk.require(len(ctor) == 1, 'count_objects: ObjectCount(...) not found')
    kw = {k.arg: k.value for k in ctor[0].keywords}

    def resolve(v):
        if isinstance(v, ast.Name):
            r = last_assignment(v.id, co, ctor[0].lineno)
            return r if r is not None else v
        return v
    def counts_all(v, lister):
        """sum(1 for _ in self.<lister>()) / len(list(self.<lister>())) without a filter"""
        if isinstance(v, ast.Call) and norm(v.func) == 'sum' and len(v.args) == 1 and isinstance(v.args[0], ast.GeneratorExp):
            ge = v.args[0]
            return isinstance(ge.elt, ast.Constant) and ge.elt.value == 1 and len(ge.generators) == 1 and not ge.generators[0].ifs \
                and norm(ge.generators[0].iter) == f'self.{lister}()'
        if isinstance(v, ast.Call) and norm(v.func) == 'len' and len(v.args) == 1:
            a = v.args[0]
            return isinstance(a, ast.Call) and norm(a.func) in ('list', 'set', 'tuple') and a.args and norm(a.args[0]) == f'self.{lister}()'
        return False
    okco = set(kw) == {'packed', 'loose', 'pack_files'}
    if okco:
        pk = resolve(kw['packed'])
        info = None
        if isinstance(pk, ast.Call) and pk.args:
            info = sql_statement(prog, pk.args[0], co, pk.lineno)
        okco = bool(info) and info['op'] == 'SELECT' and [c.replace(' ', '') for c in info['cols']] == ['func.count()'] and not info['where'] and info.get('from') == 'Obj' \
            and counts_all(resolve(kw['loose']), '_list_loose') and counts_all(resolve(kw['pack_files']), '_list_packs')
    if okco:
        chk.ok(R3, co.qualname, norm(ctor[0])[:140], detail='packed = COUNT(*) of the index without filter; loose / pack_files count every listed entry')
    else:
        chk.bad(R3, co.qualname, norm(ctor[0])[:140], 'count_objects does not report COUNT(*) of the index, the number of listed loose files and of listed packs under the right labels', where=f'{co.module.relpath}:{ctor[0].lineno}')

    # ================================================================ R4 (destruction table)
    nsites = 0
    seen_keys = set()
    from .common import CallGraph
    cgraph = CallGraph(ctx, S)
    from .common import resolved_effect_sites
    for f, n, e in resolved_effect_sites(ctx, S, cgraph, set(DESTRUCTIVE)):
        if True:
            if True:
                if e[0] == 'DB_OTHER':
                    txt = str(e[2]).upper()
                    if not any(w in txt for w in ('DELETE', 'DROP', 'UPDATE', 'REPLACE', 'INSERT', 'ALTER', 'TRUNCATE')):
                        continue
                if e[0] == 'H_TRUNCATE' and not (e[1][0] == 'handle' and areas(K, e[1][1]) & {'packs', 'loose', 'root', 'unknown', 'param', 'duplicates'}):
                    continue
                lab = site_label(K, prog, e)
                if f.module.name.endswith('backup_utils'):
                    # backup works on the destination through rsync/ssh; its local effects are checked by C15
                    continue
                if e[0] == 'DB_ROLLBACK':
                    chk.bad(R4, f.qualname, f'rollback: {norm(n)[:80]}', 'a rollback of the operation session discards index rows that were inserted but are not committed yet (the documented do_commit=False '
                            'bulk mode relies on them staying pending until the caller commits)', where=f'{f.module.relpath}:{n.lineno}')
                    continue
                if e[0] == 'SUBPROCESS':
                    chk.bad(R4, f.qualname, f'external command: {norm(n)[:100]}', 'an external command is run from the object-store code (outside backup_utils): what it does to the container cannot be classified, '
                            'so it counts as an untabled destructive site', where=f'{f.module.relpath}:{n.lineno}')
                    continue
                nsites += 1
                key = (f.qualname, e[0], lab)
                if key not in DESTRUCTION:
                    # a private helper: the effect belongs to the tabled functions that (transitively) call it -- if all its roots are tabled owners
                    roots = cgraph.owners(f.qualname, lambda q, _e=e[0], _l=lab: (q, _e, _l) in DESTRUCTION)
                    if roots and all((q, e[0], lab) in DESTRUCTION for q in roots):
                        for q in roots:
                            seen_keys.add((q, e[0], lab))
                        chk.ok(R4, f.qualname, f'{e[0]} {lab} (helper of {sorted(roots)})', detail='; '.join(DESTRUCTION[(q, e[0], lab)] for q in sorted(roots)), nontrivial=True)
                        continue
                if key in DESTRUCTION:
                    seen_keys.add(key)
                    chk.ok(R4, f.qualname, f'{e[0]} {lab}', detail=DESTRUCTION[key], nontrivial=True)
                else:
                    chk.bad(R4, f.qualname, f'{e[0]} {lab}: {norm(n)[:100]}', f'{e[0]} on {lab} in {f.qualname} is not in the destruction table: only the tabled owners may remove, replace or rewrite '
                            'object files, pack files or index rows (a new site can make keys disappear or change what they read back as)', where=f'{f.module.relpath}:{n.lineno}')
    missing_owner = [k for k in DESTRUCTION if k not in seen_keys]
    chk.extra['destruction_sites'] = nsites
    chk.extra['destruction_table_entries_unused'] = [' '.join(k) for k in missing_owner]
    # key provenance of the loose unlinks and the DELETE
    do = cont.methods['delete_objects']
    for n, cal, effs in S.calls(do):
        for e in effs:
            if e[0] == 'UNLINK' and in_area(K, e[1], 'loose'):
                from .machines import loose_key_expr
                ke = loose_key_expr(K, n.args[0] if n.args else (n.func.value if isinstance(n.func, ast.Attribute) else None), K.top_frame(do))
                srcs = [root_name(o) for o in origin(K, ke[0], ke[1])] if ke else []
                if ke and srcs and all(r and r[0] == 'param' and r[2] == 'hashkeys' for r in srcs):
                    chk.ok(R4, do.qualname, norm(n), detail='unlinked loose key is an element of the request parameter')
                else:
                    chk.bad(R4, do.qualname, norm(n), 'delete_objects unlinks a loose file whose key is not an element of the request', where=f'{do.module.relpath}:{n.lineno}')
            if e[0] == 'DB_DELETE':
                wh = ' '.join(e[2].get('where') or [])
                cvars = [nm for nm in _names(ast.parse(wh, mode='eval')) if nm not in ('Obj',)] if wh else []
                okd = bool(cvars)
                for cv in cvars:
                    srcs = [root_name(o) for o in origin(K, ast.Name(id=cv, ctx=ast.Load()), K.top_frame(do))]
                    if not (srcs and all(r and r[0] == 'param' and r[2] == 'hashkeys' for r in srcs)):
                        okd = False
                if okd and 'hashkey.in_' in wh.replace(' ', ''):
                    chk.ok(R4, do.qualname, wh, detail='DELETE keyed by chunks of the request parameter')
                else:
                    chk.bad(R4, do.qualname, wh or 'DELETE', 'the DELETE statement is not restricted to keys of the request (missing or different WHERE clause)', where=f'{do.module.relpath}:{n.lineno}')
    # callers of _clean_loose_objects
    clo = cont.methods.get('_clean_loose_objects')
    if clo is not None:
        callers = sorted({f.qualname for f in prog.all_functions() for n, cal, effs in S.calls(f) if cal is not None and cal.kind == 'internal' and cal.target is clo})
        if callers == ['container:Container.pack_all_loose']:
            chk.ok(R4, clo.qualname, 'callers', detail='only pack_all_loose (keys tracked after staging, unlinked after commit: C05.R2)', nontrivial=False)
        else:
            chk.bad(R4, clo.qualname, f'callers {callers}', '_clean_loose_objects (unlinks loose files by key) is called from a function other than pack_all_loose', where=f'{clo.module.relpath}:{clo.lineno}')
    # pack_all_loose: loose files are unlinked only for keys this call staged and committed (same machine as C05.R2; only its unlink rule is used here)
    from .machines import PackMachine, explore, report_violations
    q = 'container:Container.pack_all_loose'
    found, m = explore(ctx, chk, q, {}, lambda g, c: PackMachine(ctx, g, require_durable=False, rule_flush='C02.R4x', rule_durable='C02.R4x', rule_unlink='C02.R4', rule_exc='C02.R4x'),
                       write_policy(depth=5), 'wp5')
    found = [(v, c) for v, c in found if v.rule == 'C02.R4']
    report_violations(chk, q, found)
    chk.require(m.sites.tracked_unlinks, f'{q}: no tracked unlink of loose files found')
    if not found:
        chk.ok(R4, q, f'{len(m.sites.tracked_unlinks)} tracked-unlink site(s)', detail='the unlinked keys are exactly those staged in this call (fed next to the staging site) and already committed')
    # clean_storage: duplicates are removed only next to a verified primary copy / after a verified replacement
    gcd = ctx.icfg('container:Container.clean_storage', {}, write_policy(depth=2), key='wp2')
    dm = DupMachine(ctx, gcd, 'C02.R4')
    viols, st = solve(gcd, dm)
    chk.crash_points += st['pairs']
    chk.require(dm.unlinks >= 2 and dm.replaces >= 1, f'clean_storage: duplicate handling not found (unlinks={dm.unlinks}, replaces={dm.replaces})')
    for v in viols:
        chk.bad(R4, 'container:Container.clean_storage', v.node.text(120), v.msg, where=v.node.where, witness=v.witness)
    if not viols:
        chk.ok(R4, 'container:Container.clean_storage', f'{dm.unlinks} duplicate-unlink / {dm.replaces} replace visit(s)', detail='duplicates removed only with a verified primary copy or after a verified duplicate replaced it')
    # clean_storage: loose unlinks keyed by query results only (after refresh: C05.R3)
    from .c04 import clean_sites
    gcs = ctx.icfg('container:Container.clean_storage', {}, write_policy(depth=5), key='wp5')
    unl, feeding = clean_sites(ctx, chk, gcs)
    chk.ok(R4, 'container:Container.clean_storage', f'{len(unl)} unlink site(s) fed by {len(feeding)} index queries', detail='loose files are removed only for keys returned by an index query')

    # ================================================================ R5 (init refuses to overwrite)
    ic = cont.methods.get('init_container')
    chk.require(ic is not None, 'Container.init_container not found')
    for cl in (True, False):
        g = ctx.icfg(ic.qualname, {'clear': cl}, write_policy(depth=2), key='wp2')
        m = InitMachine(ctx, g, 'C02.R5')
        viols, st = solve(g, m)
        chk.crash_points += st['pairs']
        chk.specialisations += 1
        chk.require(m.writes >= 2, f'init_container(clear={cl}): configuration / folder writes not found')
        for v in viols:
            chk.bad(R5, ic.qualname, v.node.text(100), v.msg + f' [clear={cl}]', where=v.node.where, witness=v.witness)
        if not viols:
            chk.ok(R5, ic.qualname, f'clear={cl}', detail=f'{m.writes} write visit(s) all after `not is_initialised` and `not os.listdir(root)`; {m.rmtrees} rmtree visit(s)')
    # is_initialised: True only if the configuration parses and every sub-folder exists
    isi = cont.methods.get('is_initialised')
    chk.require(isi is not None, 'Container.is_initialised not found')
    rets_true = [n for n in walk_local(isi.node) if isinstance(n, ast.Return) and isinstance(n.value, ast.Constant) and n.value.value is True]
    opens = [e for n, cal, effs in S.calls(isi) for e in effs if e[0] == 'OPEN' and in_area(K, e[1], 'config')] if True else []
    exists = [n for n in _calls_in(isi) if isinstance(n.func, ast.Attribute) and n.func.attr in ('exists', 'is_dir')]
    if len(rets_true) == 1 and isi.node.body[-1] is rets_true[0] and opens and exists:
        chk.ok(R5, isi.qualname, 'return True', detail='only as the last statement, after reading the configuration and testing the sub-folders', nontrivial=False)
    else:
        chk.bad(R5, isi.qualname, 'return True', 'is_initialised can answer True without having read the configuration and tested the sub-folders (or never does)', where=f'{isi.module.relpath}:{isi.lineno}')
    from .common import no_memoised_configuration
    no_memoised_configuration(ctx, chk, R5, S)
    # cache reset completeness
    init = cont.methods.get('__init__')
    chk.require(init is not None, 'Container.__init__ not found')
    none_attrs = []
    for n in walk_local(init.node):
        tgt = val = None
        if isinstance(n, ast.Assign) and len(n.targets) == 1:
            tgt, val = n.targets[0], n.value
        elif isinstance(n, ast.AnnAssign):
            tgt, val = n.target, n.value
        if isinstance(tgt, ast.Attribute) and isinstance(tgt.value, ast.Name) and tgt.value.id == 'self' and isinstance(val, ast.Constant) and val.value is None:
            none_attrs.append(tgt.attr)
    sessions = [a for a in none_attrs if a.endswith('_session')]
    caches = [a for a in none_attrs if not a.endswith('_session')]
    chk.require(len(caches) >= 2 and len(sessions) == 2, f'Container.__init__: expected two sessions and >= 2 caches initialised to None, found {none_attrs}')
    clear_ifs = [n for n in walk_local(ic.node) if isinstance(n, ast.If) and norm(n.test) == 'clear']
    chk.require(len(clear_ifs) == 1, 'init_container: `if clear:` not found')
    cb = clear_ifs[0]
    reset = set()
    for s in cb.body:
        for n in ast.walk(s):
            if isinstance(n, ast.Assign) and isinstance(n.value, ast.Constant) and n.value.value is None:
                for t in n.targets:
                    if isinstance(t, ast.Attribute) and norm(t.value) == 'self':
                        reset.add(t.attr)
    closes = [c for s in cb.body for c in ast.walk(s) if isinstance(c, ast.Call) and norm(c.func) == 'self.close']
    rmt = [c for s in cb.body for c in ast.walk(s) if isinstance(c, ast.Call) and norm(c.func).endswith('rmtree')]
    notreset = [a for a in caches if a not in reset]
    if notreset:
        chk.bad(R5, ic.qualname, f'caches not reset: {notreset}', f'clearing the container does not reset the cached attribute(s) {notreset} that __init__ initialises to None: '
                'the cleared container would keep using values of the old one (configuration, pack id)', where=f'{ic.module.relpath}:{cb.lineno}')
    else:
        chk.ok(R5, ic.qualname, f'caches reset: {sorted(caches)}', detail='every cache attribute of __init__ is reset in the clear branch')
    if closes and rmt and closes[0].lineno < rmt[0].lineno:
        chk.ok(R5, ic.qualname, 'self.close() before rmtree', detail='sessions closed before the folder is removed', nontrivial=False)
    else:
        chk.bad(R5, ic.qualname, 'self.close()', 'the sessions are not closed before the container folder is removed (a stale session would keep answering from the deleted index)',
                where=f'{ic.module.relpath}:{cb.lineno}')
    # close() resets both sessions
    cl = cont.methods.get('close')
    tr = S.trans(cl, depth=2)
    resets = set()
    for q in ('close', '_close_operation_session'):
        f2 = cont.methods.get(q)
        for n in walk_local(f2.node):
            if isinstance(n, ast.Assign) and isinstance(n.value, ast.Constant) and n.value.value is None:
                for t in n.targets:
                    if isinstance(t, ast.Attribute):
                        resets.add(t.attr)
    if set(sessions) <= resets:
        chk.ok(R5, cl.qualname, f'sessions reset: {sorted(sessions)}', detail='close() drops both cached sessions', nontrivial=False)
    else:
        chk.bad(R5, cl.qualname, 'sessions', 'close() does not reset both cached sessions', where=f'{cl.module.relpath}:{cl.lineno}')

    # ================================================================ R6 (maintenance keeps keys)
    rp = cont.methods.get('repack_pack')
    chk.require(rp is not None, 'Container.repack_pack not found')
    # the copy loop: for (cols...) in session.execute(stmt)
    cl_loops = [l for l in _for_loops(rp) if isinstance(l.iter, ast.Call) and isinstance(l.iter.func, ast.Attribute) and l.iter.func.attr == 'execute' and isinstance(l.target, ast.Tuple)]
    chk.require(len(cl_loops) == 1, 'repack_pack: copy loop over the rows of the pack not found')
    rl2 = cl_loops[0]
    info = sql_statement(prog, rl2.iter.args[0], rp, rl2.lineno)
    chk.require(info is not None and info['op'] == 'SELECT', 'repack_pack: SELECT of the copy loop not recognised')
    cols = [c.split('.')[-1] for c in info['cols']]
    tnames = [t.id if isinstance(t, ast.Name) else None for t in rl2.target.elts]
    chk.require(len(cols) == len(tnames), 'repack_pack: row unpacking does not match the SELECT list')
    col_of = dict(zip(tnames, cols))
    # staged mapping
    sub_assigns = [n for n in ast.walk(rl2) if isinstance(n, ast.Assign) and isinstance(n.targets[0], ast.Subscript) and isinstance(n.targets[0].slice, ast.Constant)]
    staged = {}
    for a in sub_assigns:
        staged.setdefault(a.targets[0].slice.value, []).append(a)
    okk = True
    why = []
    for field in ('id', 'hashkey', 'size'):
        if field not in staged:
            if field == 'id':
                okk = False
                why.append('the primary key is not part of the update mapping')
            continue
        for a in staged[field]:
            v = a.value
            if not (isinstance(v, ast.Name) and col_of.get(v.id) == field):
                okk = False
                why.append(f"mapping['{field}'] is `{norm(v)}`, not the `{field}` column of the same row")
    if 'id' in staged and okk:
        chk.ok(R6, rp.qualname, 'update mapping id/hashkey/size', detail=f'row unpacking {tnames} <- {cols}; key, size and primary key are carried over from the same row')
    else:
        chk.bad(R6, rp.qualname, 'update mapping', 'repack would change which key (or size) an index row stands for: ' + '; '.join(why), where=f'{rp.module.relpath}:{rl2.lineno}')
    # every row is staged on every path through the loop body (no continue/break that drops a row)
    dname = sub_assigns[0].targets[0].value.id if sub_assigns and isinstance(sub_assigns[0].targets[0].value, ast.Name) else None
    oks = dname is not None
    if oks:
        for path in body_paths(rl2.body):
            apps = [s for s in path if isinstance(s, ast.Expr) and isinstance(s.value, ast.Call) and isinstance(s.value.func, ast.Attribute) and s.value.func.attr == 'append'
                    and s.value.args and norm(s.value.args[0]) == dname]
            ended = path and isinstance(path[-1], (ast.Continue, ast.Break, ast.Return))
            if len(apps) != 1 or ended and not apps:
                oks = False
    # nested loops' breaks are inside While: body_paths treats While as a simple statement, so only top-level control flow is seen
    if oks:
        chk.ok(R6, rp.qualname, f'{dname} appended once per row', detail='no path through the copy loop drops a row of the pack')
    else:
        chk.bad(R6, rp.qualname, 'copy loop', 'some path through the copy loop does not stage the row: its object would stay referenced in the old pack that is then deleted', where=f'{rp.module.relpath}:{rl2.lineno}')
    # WHERE pack_id == the repacked id and nothing else (no row left behind); the final UPDATE moves every temporary row
    wh = [w.replace(' ', '') for w in info['where']]
    if wh == ['Obj.pack_id==pack_id']:
        chk.ok(R6, rp.qualname, 'WHERE ' + ' AND '.join(info['where']), detail='the copy loop iterates all rows of the pack', nontrivial=False)
    else:
        chk.bad(R6, rp.qualname, 'WHERE ' + ' AND '.join(info['where']), 'the copy loop does not iterate exactly the rows of the repacked pack', where=f'{rp.module.relpath}:{rl2.lineno}')
    # a pack file is removed only when no committed row references it (existence test over the pack's rows) or after they were re-pointed
    from .repack import RepackMachine
    found, m = explore(ctx, chk, rp.qualname, {}, lambda g, c: RepackMachine(ctx, g, require_durable=False, rule='C02.R6'), write_policy(depth=5), 'wp5')
    found = [(v, c) for v, c in found if 'removed' in v.msg]
    report_violations(chk, rp.qualname, found)
    if not found:
        chk.ok(R6, rp.qualname, 'unlink of pack files', detail='only with no referencing row (existence query) or after the re-pointing commit: keys never lose their bytes')
    # loosen_object
    lo = cont.methods.get('loosen_object')
    chk.require(lo is not None, 'Container.loosen_object not found')
    adds = [c for c in _calls_in(lo) if isinstance(c.func, ast.Attribute) and c.func.attr in ('add_streamed_object', 'add_object')]
    gets = [c for c in _calls_in(lo) if isinstance(c.func, ast.Attribute) and c.func.attr in ('get_object_stream', 'get_object_content', 'get_object_stream_and_meta')]
    asserts = [n for n in walk_local(lo.node) if isinstance(n, ast.Assert) and isinstance(n.test, ast.Compare) and isinstance(n.test.ops[0], ast.Eq)]
    own = {e[0] for n, cal, effs in S.calls(lo) for e in effs}
    okl = len(adds) == 1 and len(gets) == 1 and norm(gets[0].args[0] if gets[0].args else _kwarg(gets[0], 'hashkey')) == 'hashkey' and not (own & {'OPEN', 'UNLINK', 'RENAME', 'REPLACE', 'DB_QUERY'})
    if okl and asserts and {'hashkey'} <= _names(asserts[0].test):
        chk.ok(R6, lo.qualname, norm(adds[0]), detail='re-adds the object read through the public reader with the loose writer and compares the resulting key with the requested one')
    else:
        chk.bad(R6, lo.qualname, 'loosen_object', 'loosen_object does not copy the object through the public reader and the loose writer with a key comparison', where=f'{lo.module.relpath}:{lo.lineno}')

    # ================================================================ R7 (one session object per operation)
    R7 = chk.rule('C02.R7', 'no operation keeps using a session local after the cached operation session was reset (e.g. by a helper it calls for a progress total)', 1)
    from .common import session_stability
    session_stability(ctx, chk, R7)

    R8 = chk.rule('C02.R8', 'no hidden state survives between calls or is shared between handles (mutable defaults, mutable class attributes, globals, mutated module-level containers)', 1)
    from .common import hidden_shared_state
    hidden_shared_state(ctx, chk, R8)

    # rules of other properties that are necessary conditions of this one too: the views equal the model only if the round trip (C01), the index (C03), the streams (C07), deduplication (C09), compression (C10), deletion/repack (C11), import (C14) and bulk lookups (C16) are right
    if host is None:
        from ..report import host_modules
        host_modules(chk, ctx, ['C01', 'C03', 'C07', 'C09', 'C10', 'C11', 'C14', 'C16'])

    return chk.finish(
        explanation=('Static structural rules behind "every view equals a key->bytes map": call-graph check that all public key views answer through one read funnel and derive '
                     'negative answers from its MISSING outcome; set-provenance check that the funnel partitions the request (index, loose, refreshed index, missing) plus the order '
                     'typestate; listing/count views are unions of the two stores; a closed-world table of every destructive effect site in the package with owner, area and key '
                     'provenance; init_container writes only after both refusal tests on every path (typestate) and resets all caches; repack carries id/key/size of every row.'),
        rule_text='obligation = (rule, function, construct); table rules are closed-world: a new site or view is a violation until tabled',
        assumptions=['Python dynamism not modelled', 'SQLite/POSIX semantics trusted', 'helpers without effects (path builders) are transparent'],
        not_decided='equality of every view with the model after every history (values, histories); byte contents; these rules are necessary conditions only.')
