"""C12 -- validate() is clean on every reachable state and never clean on a damaged one (DESIGN 5, C12).

Decides the completeness of the validator's coverage and of the result plumbing (necessary for "never clean on a damaged
one") and that the set of packs it opens is exactly the set the index references (necessary for "clean on reachable
states").
"""
from __future__ import annotations

import ast

from ..effects import last_assignment, sql_statement
from ..loader import norm, walk_local
from ..report import Check

VAL = 'container:Container.validate'
VPK = 'container:Container._validate_hashkeys_pack'


def failing_branch_appends(fn, lhs, rhs_contains, listname_contains=None):
    """Find `if <lhs> != <rhs>: <list>.append(<key>)`; returns (If node, list name) or None."""
    for n in walk_local(fn.node):
        if isinstance(n, ast.If) and isinstance(n.test, ast.Compare) and len(n.test.ops) == 1:
            l, r = norm(n.test.left), norm(n.test.comparators[0])
            if lhs in (l, r) and any(rhs_contains in x for x in (l, r)):
                apps = [c for s in n.body for c in ast.walk(s) if isinstance(c, ast.Call) and isinstance(c.func, ast.Attribute) and c.func.attr == 'append']
                return n, apps
    return None


class _Exit(Exception):
    def __init__(self, code):
        self.code = code


class _Ret(Exception):
    pass


class _Jump(Exception):
    def __init__(self, kind):
        self.kind = kind


class _Unk(Exception):
    pass


def _cli_exit_semantics(fn_node, loop):
    """Interpret the statements of `fn_node` from the `for key, value in <results>.items()` loop to the end, with <results> a dict of two keys whose values are
    empty / non-empty lists (4 combinations): True iff the command calls sys.exit(non-zero) exactly when some list is non-empty.  None if not understood."""
    body = fn_node.body
    if loop not in body:
        return None
    tail = body[body.index(loop):]
    # flags initialised before the loop (constants only)
    pre_env = {}
    for st in body[:body.index(loop)]:
        if isinstance(st, ast.Assign) and len(st.targets) == 1 and isinstance(st.targets[0], ast.Name) and isinstance(st.value, ast.Constant):
            pre_env[st.targets[0].id] = st.value.value
    items_src = norm(loop.iter)

    def ev(e, env):
        if isinstance(e, ast.Constant):
            return e.value
        if isinstance(e, ast.Name):
            if e.id in env:
                return env[e.id]
            raise _Unk
        if isinstance(e, ast.UnaryOp) and isinstance(e.op, ast.Not):
            return not ev(e.operand, env)
        if isinstance(e, ast.BoolOp):
            vals = [ev(v, env) for v in e.values]
            return all(vals) if isinstance(e.op, ast.And) else any(vals)
        if isinstance(e, ast.Compare) and len(e.ops) == 1:
            a, b = ev(e.left, env), ev(e.comparators[0], env)
            op = e.ops[0]
            table = {ast.Eq: a == b, ast.NotEq: a != b, ast.Is: a is b, ast.IsNot: a is not b}
            if type(op) in table:
                return table[type(op)]
            try:
                return {ast.Lt: a < b, ast.LtE: a <= b, ast.Gt: a > b, ast.GtE: a >= b}[type(op)]
            except (KeyError, TypeError):
                raise _Unk
        if isinstance(e, ast.Call) and norm(e.func) in ('len', 'bool', 'any') and len(e.args) == 1:
            v = ev(e.args[0], env)
            return {'len': len, 'bool': bool, 'any': any}[norm(e.func)](v)
        if isinstance(e, (ast.JoinedStr,)):
            return '<str>'
        raise _Unk

    def run(stmts, env):
        for st in stmts:
            if isinstance(st, ast.Expr):
                if isinstance(st.value, ast.Call) and norm(st.value.func) in ('sys.exit', 'exit', 'raise SystemExit'):
                    raise _Exit(ev(st.value.args[0], env) if st.value.args else 0)
                continue   # echo / logging
            if isinstance(st, ast.Raise):
                if st.exc is not None and 'SystemExit' in norm(st.exc):
                    raise _Exit(1)
                raise _Unk
            if isinstance(st, ast.Assign) and len(st.targets) == 1 and isinstance(st.targets[0], ast.Name):
                env[st.targets[0].id] = ev(st.value, env)
                continue
            if isinstance(st, ast.AugAssign) and isinstance(st.target, ast.Name):
                a, b = env.get(st.target.id), ev(st.value, env)
                env[st.target.id] = (a or b) if isinstance(st.op, ast.BitOr) else (a + b if isinstance(st.op, ast.Add) else _unk())
                continue
            if isinstance(st, ast.If):
                run(st.body if ev(st.test, env) else st.orelse, env)
                continue
            if isinstance(st, ast.For):
                if norm(st.iter) == items_src and isinstance(st.target, ast.Tuple) and len(st.target.elts) == 2:
                    seq = list(env['<results>'].items())
                    names = [x.id for x in st.target.elts]
                else:
                    try:
                        seq = [(x,) for x in ev(st.iter, env)]
                    except (_Unk, TypeError):
                        continue   # e.g. the verbose listing of the keys of one issue type: no effect on the exit status unless it exits -- treated as opaque
                    names = [st.target.id] if isinstance(st.target, ast.Name) else None
                    if names is None:
                        raise _Unk
                for item in seq:
                    env.update(dict(zip(names, item)))
                    try:
                        run(st.body, env)
                    except _Jump as j:
                        if j.kind == 'break':
                            break
                continue
            if isinstance(st, ast.Continue):
                raise _Jump('continue')
            if isinstance(st, ast.Break):
                raise _Jump('break')
            if isinstance(st, ast.Return):
                raise _Ret
            if isinstance(st, ast.Pass):
                continue
            raise _Unk

    def _unk():
        raise _Unk
    try:
        for a in ([], ['k1']):
            for b in ([], ['k2']):
                env = dict(pre_env)
                env['<results>'] = {'x': a, 'y': b}
                env.setdefault('verbose', False)
                code = 0
                try:
                    run(tail, env)
                except _Exit as ex:
                    code = ex.code
                except _Ret:
                    code = 0
                if bool(code) != bool(a or b):
                    return False
        return True
    except (_Unk, _Jump, KeyError, TypeError):
        return None


def run(ctx, host=None):
    chk = host.sub('C12') if host is not None else Check('C12', ctx)
    prog = ctx.prog
    R1 = chk.rule('C12.R1', 'every listed loose object is rehashed with the configured algorithm and compared with its name', 2)
    R2 = chk.rule('C12.R2', 'every pack referenced by the index is visited; per row: digest of the decoded stream, size and overlap are compared, each failing branch records the key', 7)
    R3 = chk.rule('C12.R3', 'result plumbing: per-pack results are accumulated into all fields of ValidationIssues; is_valid / CLI exit reflect every field', 5)
    v = prog.fn(VAL)
    p = prog.fn(VPK)

    # ---------------------------------------------------------------- R1
    loops = [n for n in walk_local(v.node) if isinstance(n, ast.For)]
    lo = None
    for n in loops:
        it = n.iter
        src = last_assignment(it.id, v, n.lineno) if isinstance(it, ast.Name) else it
        if src is not None and '_list_loose()' in norm(src):
            lo = n
    if lo is None:
        chk.bad(R1, VAL, 'loop over the loose objects', 'validate() no longer iterates over every key of the loose listing', where=f'{v.module.relpath}:{v.lineno}')
    else:
        # the collection iterated is the whole listing: nothing is removed from it and no filter wraps it
        if isinstance(lo.iter, ast.Name):
            coll = lo.iter.id
            srcv = last_assignment(coll, v, lo.lineno)
            shrink = [c for c in walk_local(v.node) if isinstance(c, ast.Call) and isinstance(c.func, ast.Attribute) and isinstance(c.func.value, ast.Name) and c.func.value.id == coll
                      and c.func.attr in ('difference_update', 'discard', 'remove', 'pop', 'clear', 'intersection_update', 'symmetric_difference_update') and c.lineno < lo.lineno]
            reass = [n for n in walk_local(v.node) if isinstance(n, (ast.Assign, ast.AugAssign)) and any(isinstance(t, ast.Name) and t.id == coll for t in (n.targets if isinstance(n, ast.Assign) else [n.target]))]
            whole = srcv is not None and norm(srcv) in ('set(self._list_loose())', 'list(self._list_loose())', 'sorted(self._list_loose())', 'self._list_loose()', 'tuple(self._list_loose())')
            if shrink or len(reass) != 1 or not whole:
                what = shrink[0] if shrink else (reass[-1] if reass else lo)
                chk.bad(R1, VAL, norm(what)[:120], f'the loose keys that get rehashed (`{coll}`) are not the whole loose listing: some loose files are excluded from validation, so damage to them '
                        '(e.g. to the loose copy of an object that is also packed, which seeking readers use) is never reported', where=f'{v.module.relpath}:{what.lineno}')
            else:
                chk.ok(R1, VAL, f'{coll} = {norm(srcv)}', detail='the loop visits every key of the loose listing (no removal, no filter)')
        elif '_list_loose()' in norm(lo.iter) and not any(isinstance(x, (ast.GeneratorExp, ast.ListComp, ast.SetComp)) for x in ast.walk(lo.iter)):
            chk.ok(R1, VAL, norm(lo.iter), detail='the loop visits every key of the loose listing')
        else:
            chk.bad(R1, VAL, norm(lo.iter)[:120], 'the loose keys that get rehashed are a filtered subset of the loose listing', where=f'{v.module.relpath}:{lo.lineno}')
        skips = [x for x in ast.walk(lo) if isinstance(x, (ast.Continue, ast.Break))]
        if skips:
            chk.bad(R1, VAL, f'{type(skips[0]).__name__.lower()} in the loose loop', 'some loose objects are skipped by the validation loop', where=f'{v.module.relpath}:{skips[0].lineno}')
        key = lo.target.id if isinstance(lo.target, ast.Name) else None
        calls = [c for c in ast.walk(lo) if isinstance(c, ast.Call) and norm(c.func) == 'compute_hash_and_size']
        opens = [c for c in ast.walk(lo) if isinstance(c, ast.Call) and norm(c.func) == 'open']
        okh = calls and 'self.hash_type' in norm(calls[0]) and opens and key in norm(opens[0])
        if okh:
            chk.ok(R1, VAL, norm(calls[0]), detail=f'every loose key `{key}` is opened and rehashed with self.hash_type')
        else:
            chk.bad(R1, VAL, 'rehash of loose objects', 'loose objects are not rehashed from their own file with the configured hash type', where=f'{v.module.relpath}:{lo.lineno}')
        cmp_ = None
        for n in ast.walk(lo):
            if isinstance(n, ast.If) and isinstance(n.test, ast.Compare) and isinstance(n.test.ops[0], ast.NotEq) and key in (norm(n.test.left), norm(n.test.comparators[0])):
                cmp_ = n
        apps = [c for s in (cmp_.body if cmp_ else []) for c in ast.walk(s) if isinstance(c, ast.Call) and isinstance(c.func, ast.Attribute) and c.func.attr == 'append'
                and c.args and norm(c.args[0]) == key and 'invalid_hashes_loose' in norm(c.func.value)]
        guarded = False
        if cmp_ is not None:
            q = getattr(cmp_, '_parent', None)
            while q is not None and q is not lo:
                if isinstance(q, ast.If):
                    guarded = True
                q = getattr(q, '_parent', None)
        if apps and not guarded:
            chk.ok(R1, VAL, norm(cmp_.test), detail='a mismatch records the key under invalid_hashes_loose')
        else:
            chk.bad(R1, VAL, 'hash comparison of loose objects', 'a loose object whose digest differs from its name is not (always) recorded', where=f'{v.module.relpath}:{lo.lineno}')

    # ---------------------------------------------------------------- R2
    # pack ids: SELECT DISTINCT pack_id of the index
    pl = None
    for n in loops:
        if any(isinstance(c, ast.Call) and norm(c.func) == 'self._validate_hashkeys_pack' for c in ast.walk(n)):
            pl = n
    chk.require(pl is not None, 'validate(): loop over the packs not found')
    src = last_assignment(pl.iter.id, v, pl.lineno) if isinstance(pl.iter, ast.Name) else pl.iter
    sel = [c for c in ast.walk(src) if isinstance(c, ast.Call) and isinstance(c.func, ast.Attribute) and c.func.attr == 'execute'] if src is not None else []
    info = sql_statement(prog, sel[0].args[0], v, pl.lineno) if sel else None
    ok_ids = info is not None and info['op'] == 'SELECT' and [c.split('.')[-1] for c in info['cols']] == ['pack_id'] and not info['where'] \
        and not any(isinstance(c, ast.Call) and norm(c.func) in ('range', 'max', 'min') for c in ast.walk(src))
    if ok_ids:
        chk.ok(R2, VAL, norm(src)[:100], detail='the packs visited are exactly the pack ids the index references (a removed empty pack is not opened, no referenced pack is skipped)')
    else:
        chk.bad(R2, VAL, norm(src)[:120] if src is not None else 'pack ids', 'the set of packs validated is not exactly the set of pack ids present in the index: a referenced pack can be skipped '
                '(damage unreported) or an unreferenced / removed pack opened (false alarm or crash on a healthy container)', where=f'{v.module.relpath}:{pl.lineno}')
    call = next(c for c in ast.walk(pl) if isinstance(c, ast.Call) and norm(c.func) == 'self._validate_hashkeys_pack')
    if any((k.arg == 'pack_id' and norm(k.value) == norm(pl.target)) for k in call.keywords) or (call.args and norm(call.args[0]) == norm(pl.target)):
        chk.ok(R2, VAL, norm(call)[:80], detail='each id is validated', nontrivial=False)
    else:
        chk.bad(R2, VAL, norm(call)[:80], 'the per-pack validator is not called with the loop\'s pack id', where=f'{v.module.relpath}:{call.lineno}')
    # rows of the pack in offset order
    rl = next((n for n in walk_local(p.node) if isinstance(n, ast.For) and isinstance(n.iter, ast.Call) and norm(n.iter.func).endswith('.execute')), None)
    inf = None
    src_fn = p
    if rl is None:
        # the rows may come from a local generator helper: for ... in helper(): -- look the SELECT up inside it
        for n in walk_local(p.node):
            if isinstance(n, ast.For) and isinstance(n.iter, ast.Call) and isinstance(n.iter.func, ast.Name) and n.iter.func.id in p.nested and isinstance(n.target, ast.Tuple):
                h = p.nested[n.iter.func.id]
                ex = [c for c in walk_local(h.node) if isinstance(c, ast.Call) and isinstance(c.func, ast.Attribute) and c.func.attr == 'execute' and c.args]
                if len(ex) == 1:
                    rl, src_fn = n, h
                    inf = sql_statement(prog, ex[0].args[0], h, ex[0].lineno)
    chk.require(rl is not None, '_validate_hashkeys_pack: row loop not found')
    if inf is None:
        inf = sql_statement(prog, rl.iter.args[0], p, rl.lineno)
    chk.require(inf is not None, '_validate_hashkeys_pack: SELECT not recognised')
    cols = [c.split('.')[-1] for c in inf['cols']]
    tv = [e.id for e in rl.target.elts] if isinstance(rl.target, ast.Tuple) else []
    where = [w.replace('Obj.', '').replace(' ', '') for w in inf['where']]
    var_of = dict(zip(cols, tv)) if len(cols) == len(tv) else {}
    for need in ('hashkey', 'size', 'offset', 'length', 'compressed'):
        var_of.setdefault(need, '<no variable bound to column %s>' % need)
    if len(cols) == len(tv) and len(set(tv)) == len(tv) and where == ['pack_id==pack_id'] and [o.split('.')[-1] for o in inf['order_by']] == ['offset'] and not inf.get('limit'):
        chk.ok(R2, VPK, f"SELECT {cols} WHERE {inf['where']} ORDER BY offset", detail=f'all rows of the pack, in offset order; column -> variable: {var_of}')
    else:
        chk.bad(R2, VPK, norm(rl.iter)[:100], f'rows are not (all rows of this pack ordered by offset) unpacked into like-named variables: cols={cols} vars={tv} where={inf["where"]} order={inf["order_by"]} '
                f'limit={inf.get("limit")} -- any further filter / paging (e.g. on the non-unique offset column) can skip rows, whose damage then goes unreported',
                where=f'{src_fn.module.relpath}:{rl.lineno}')
    ch = [c for c in ast.walk(rl) if isinstance(c, ast.Call) and norm(c.func) == 'compute_hash_and_size']
    chk.require(ch, '_validate_hashkeys_pack: compute_hash_and_size call not found')
    asg = ch[0]._parent
    hv, sv = (asg.targets[0].elts[0].id, asg.targets[0].elts[1].id) if isinstance(asg, ast.Assign) and isinstance(asg.targets[0], ast.Tuple) else (None, None)
    if len(ch[0].args) + len(ch[0].keywords) != 2:
        chk.bad(R2, VPK, norm(ch[0]), 'the validator hashes the stored stream with an extra limit/argument: it must read the stream to its end (an expected size would hide a stream that is cut '
                'short after the last content byte, e.g. a truncated zlib trailer)', where=f'{p.module.relpath}:{ch[0].lineno}')
    elif 'self.hash_type' in norm(ch[0]):
        chk.ok(R2, VPK, norm(ch[0]), detail='digest with the configured hash type (reader wrapped by the decompresser iff flagged: C01.R4)', nontrivial=False)
    else:
        chk.bad(R2, VPK, norm(ch[0]), 'packed objects are not rehashed with the configured hash type', where=f'{p.module.relpath}:{ch[0].lineno}')
    rets = [n for n in walk_local(p.node) if isinstance(n, ast.Return) and isinstance(n.value, ast.Dict)]
    chk.require(rets, '_validate_hashkeys_pack: returned dict not found')
    rd = {k.value: norm(val) for k, val in zip(rets[-1].value.keys, rets[-1].value.values) if isinstance(k, ast.Constant)}
    for label, lhs, rhs in (('hash', hv, var_of['hashkey']), ('size', sv, var_of['size'])):
        r = failing_branch_appends(p, lhs, rhs)
        okc = False
        if r is not None:
            n, apps = r
            okc = isinstance(n.test.ops[0], ast.NotEq) and {norm(n.test.left), norm(n.test.comparators[0])} == {lhs, rhs} and apps and norm(apps[0].args[0]) == var_of['hashkey'] and norm(apps[0].func.value) in rd.values() and getattr(n, '_parent', None) is rl
        if okc:
            chk.ok(R2, VPK, norm(r[0].test), detail=f'{label} mismatch records the key in `{norm(r[1][0].func.value)}`')
        else:
            chk.bad(R2, VPK, f'{label} comparison', f'the recomputed {label} is not compared with the recorded one for every row (or a mismatch is not recorded)', where=f'{p.module.relpath}:{rl.lineno}')
    ov = None
    for n in rl.body:
        if isinstance(n, ast.If) and isinstance(n.test, ast.Compare) and len(n.test.ops) == 1:
            # `offset < end` or the mirrored `end > offset`: bring it to the first form
            t = n.test
            if norm(t.left) == var_of['offset'] and isinstance(t.ops[0], ast.Lt):
                ov = n
                ov_end = t.comparators[0]
            elif norm(t.comparators[0]) == var_of['offset'] and isinstance(t.ops[0], ast.Gt):
                ov = n
                ov_end = t.left
    pos_updates = [n for n in rl.body if isinstance(n, ast.Assign) and ov is not None and norm(n.targets[0]) == norm(ov_end)]
    okov = ov is not None and pos_updates and norm(pos_updates[0].value).replace(' ', '') in (f"{var_of['offset']}+{var_of['length']}", f"{var_of['length']}+{var_of['offset']}") \
        and any(isinstance(c, ast.Call) and isinstance(c.func, ast.Attribute) and c.func.attr == 'append' for c in ast.walk(ov)) and rl.body.index(pos_updates[0]) > rl.body.index(ov)
    if okov:
        chk.ok(R2, VPK, f'{norm(ov.test)} ; {norm(pos_updates[0])}', detail='strict overlap test against the end of the previous row')
    else:
        chk.bad(R2, VPK, 'overlap test', 'rows are not tested with `offset < end of previous row` (strict) with the end updated to offset + length after the test', where=f'{p.module.relpath}:{rl.lineno}')

    # ---------------------------------------------------------------- R3
    vi = prog.cls('dataclasses:ValidationIssues')
    fields = [st.target.id for st in vi.node.body if isinstance(st, ast.AnnAssign) and isinstance(st.target, ast.Name)]
    keys = set(rd)
    loose_key = 'invalid_hashes_loose'
    if keys | {loose_key} == set(fields):
        chk.ok(R3, VPK, f'{sorted(keys)} + {loose_key}', detail='= fields of ValidationIssues')
    else:
        chk.bad(R3, VPK, 'returned dict keys', f'the keys of the per-pack result {sorted(keys)} plus {loose_key} are not the fields of ValidationIssues {fields}', where=f'{p.module.relpath}:{rets[-1].lineno}')
    lists = {}
    for n in walk_local(p.node):
        if isinstance(n, ast.Assign) and isinstance(n.targets[0], ast.Name) and isinstance(n.value, ast.List) and not n.value.elts:
            lists[n.targets[0].id] = n
    if all(val in lists for val in rd.values()) and len(set(rd.values())) == len(rd):
        chk.ok(R3, VPK, f'{rd}', detail='each returned list is its own accumulator', nontrivial=False)
    else:
        chk.bad(R3, VPK, 'returned lists', 'two result keys share a list or a list is not initialised per call', where=f'{p.module.relpath}:{p.lineno}')
    merges = [n for n in ast.walk(pl) if isinstance(n, ast.AugAssign) and isinstance(n.op, ast.Add) and isinstance(n.target, ast.Subscript)]
    inner = next((n for n in ast.walk(pl) if isinstance(n, ast.For) and n is not pl and norm(n.iter).endswith('.items()')), None)
    if merges and inner is not None and any(m is x for x in ast.walk(inner) for m in merges):
        tgt = merges[0].target
        kname = inner.target.elts[0].id if isinstance(inner.target, ast.Tuple) else None
        vname = inner.target.elts[1].id if isinstance(inner.target, ast.Tuple) else None
        if norm(tgt.slice) == kname and norm(merges[0].value) == vname:
            chk.ok(R3, VAL, norm(merges[0]), detail='results of every pack are accumulated (+=) per error type')
        else:
            chk.bad(R3, VAL, norm(merges[0]), 'per-pack results are merged under the wrong key', where=f'{v.module.relpath}:{merges[0].lineno}')
    else:
        chk.bad(R3, VAL, 'merge of the per-pack results', 'the per-pack results are not accumulated with `+=` for every pack: the issues of all packs but one are lost', where=f'{v.module.relpath}:{pl.lineno}')
    init = next((n for n in walk_local(v.node) if isinstance(n, ast.AnnAssign) and isinstance(n.value, ast.DictComp) or (isinstance(n, ast.Assign) and isinstance(n.value, ast.DictComp))), None)
    if init is not None and 'dataclasses.fields(ValidationIssues)' in norm(init.value):
        chk.ok(R3, VAL, norm(init)[:100], detail='accumulator has one list per field of ValidationIssues', nontrivial=False)
    else:
        chk.bad(R3, VAL, 'accumulator initialisation', 'the accumulator is no longer initialised from the fields of ValidationIssues', where=f'{v.module.relpath}:{v.lineno}')
    iv = vi.methods.get('is_valid')
    txt = norm(iv.node) if iv else ''
    if iv is not None and 'any(asdict(self).values())' in txt and 'return not' in txt:
        chk.ok(R3, 'dataclasses:ValidationIssues.is_valid', 'not any(asdict(self).values())', detail='valid iff every field is empty')
    else:
        chk.bad(R3, 'dataclasses:ValidationIssues.is_valid', 'is_valid', 'is_valid() no longer means "no non-empty field"', where=f'{vi.module.relpath}:{vi.node.lineno}')
    cli = prog.fn('cli:validate')
    flag = [n for n in walk_local(cli.node) if isinstance(n, ast.For) and norm(n.iter).endswith('.items()')]
    exits = [n for n in walk_local(cli.node) if isinstance(n, ast.If) and any(isinstance(c, ast.Call) and norm(c.func) == 'sys.exit' and c.args and norm(c.args[0]) != '0' for c in ast.walk(n))]
    okcli = False
    if flag and exits:
        inner_if = [n for n in ast.walk(flag[0]) if isinstance(n, ast.If)]
        if inner_if and isinstance(flag[0].target, ast.Tuple) and norm(inner_if[0].test) == flag[0].target.elts[1].id:
            sets = [a for a in ast.walk(inner_if[0]) if isinstance(a, ast.Assign) and isinstance(a.value, ast.Constant) and a.value.value is True]
            okcli = bool(sets) and norm(exits[0].test) == norm(sets[0].targets[0])
    if not okcli and flag:
        # semantic reading: run the reporting part of the command for every combination of empty / non-empty issue lists (two keys) and look at the exit status
        sem = _cli_exit_semantics(cli.node, flag[0])
        if sem is True:
            okcli = True
    if okcli:
        chk.ok(R3, cli.qualname, 'for key, value in results.items(): if value: errors_found = True ... sys.exit(1)', detail='CLI exits non-zero iff some field is non-empty')
    else:
        chk.bad(R3, cli.qualname, 'exit status', 'the `validate` command no longer exits non-zero exactly when some issue list is non-empty', where=f'{cli.module.relpath}:{cli.lineno}')

    # the overlap test walks the rows ORDER BY offset; rows that share an offset (a zero-length object and its successor) come back in row-id order, so
    # a healthy pack validates clean only if rows are inserted in the order in which their objects were written
    # no failure while reading an object is swallowed by the validator: an exception raised by the reader / decompresser is itself evidence of damage; it has to
    # propagate (today's behaviour) or be recorded under the key -- a handler that logs and moves on turns damage into a clean report
    nval = 0
    for q in ('container:Container.validate', 'container:Container._validate_hashkeys_pack'):
        vf = prog.fn(q)
        nval += 1
        swallow = None
        for tr in [n for n in walk_local(vf.node) if isinstance(n, ast.Try)]:
            for h in tr.handlers:
                body_mod = ast.Module(body=h.body, type_ignores=[])
                reraises = any(isinstance(x, ast.Raise) for x in ast.walk(body_mod))
                records = any(isinstance(x, ast.Call) and isinstance(x.func, ast.Attribute) and x.func.attr in ('append', 'add', 'extend') for x in ast.walk(body_mod))
                if not reraises and not records:
                    swallow = swallow or h
        if swallow is not None:
            chk.bad(R3, q, f'except {norm(swallow.type) if swallow.type is not None else ""}: (neither re-raised nor recorded)', 'the validator catches an error raised while an object (or a whole pack) is being '
                    'read and goes on without recording it: a corrupted compressed stream, a truncated pack or a wrong `compressed` flag then yields a clean validation although reading the object fails',
                    where=f'{vf.module.relpath}:{swallow.lineno}')
        else:
            chk.ok(R3, q, 'exception handlers', detail='none swallows: read errors propagate or are recorded', nontrivial=False)

    R4 = chk.rule('C12.R4', 'pack writers insert the staged rows in writing order (no sort/reverse of the staged list): ties in ORDER BY offset then follow the byte order', 2)
    for q4 in ('container:Container.pack_all_loose', 'container:Container.add_streamed_objects_to_pack'):
        f4 = prog.fn(q4)
        staged = set()
        for c in walk_local(f4.node):
            if isinstance(c, ast.Call) and isinstance(c.func, ast.Attribute) and c.func.attr == 'execute' and len(c.args) > 1 and isinstance(c.args[1], ast.Name) and 'insert' in norm(c.args[0]):
                staged.add(c.args[1].id)
        chk.require(staged, f'{q4}: staged row list of the INSERT not found')
        reorder = [c for c in walk_local(f4.node) if isinstance(c, ast.Call) and ((isinstance(c.func, ast.Attribute) and c.func.attr in ('sort', 'reverse') and isinstance(c.func.value, ast.Name) and c.func.value.id in staged)
                                                                                   or (norm(c.func) in ('sorted', 'reversed') and c.args and isinstance(c.args[0], ast.Name) and c.args[0].id in staged))]
        ins_other = [c for c in walk_local(f4.node) if isinstance(c, ast.Call) and isinstance(c.func, ast.Attribute) and c.func.attr == 'execute' and len(c.args) > 1 and 'insert' in norm(c.args[0])
                     and not isinstance(c.args[1], ast.Name)]
        if reorder or ins_other:
            w = (reorder or ins_other)[0]
            chk.bad(R4, q4, norm(w)[:100], 'the staged index rows are re-ordered before the INSERT: row ids no longer follow the byte order in the pack, and validate() (ORDER BY offset, ties in row-id order) '
                    'reports a zero-length object as overlapping its successor on a healthy container', where=f'{f4.module.relpath}:{w.lineno}')
        else:
            chk.ok(R4, q4, f'INSERT of {sorted(staged)}', detail='rows are inserted in staging (= writing) order')

    return chk.finish(
        explanation=('Static completeness checks of the validator: loose listing fully rehashed and compared; the packs opened are exactly SELECT DISTINCT pack_id of the index; '
                     'per row digest (configured hash type, decoded stream), size and strict overlap comparisons each with the key recorded on the failing branch; result '
                     'plumbing (dict keys = dataclass fields, += accumulation over all packs, is_valid and the CLI exit status reflect every field).'),
        rule_text='obligation = (rule, comparison / plumbing site); non-trivial = def-use or statement-shape query',
        assumptions=['hash collisions do not occur', 'the reader classes themselves satisfy C07'],
        not_decided='that no reachable state triggers a report (beyond the pack-id set) and that every possible bit flip is detected: value-level.')
