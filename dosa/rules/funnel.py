"""Rules about the read funnel Container._get_objects_stream_meta_generator (shared by C02, C04, C08)."""
from __future__ import annotations

import ast

from .. import AnalysisError
from ..cfg import Policy
from ..effects import last_assignment
from ..loader import norm, walk_local
from ..solver import Machine, Violation
from .common import in_area, sess_edge, sess_effect

FUNNEL = 'container:Container._get_objects_stream_meta_generator'


def funnel_policy():
    # only the session helpers and path helpers are inlined; object readers etc. are irrelevant here
    return Policy(depth=3, stop_prefix=('utils:',), stop={'container:Container.get_lazy_loose_stream',
                                                         'container:Container._get_stream_decompresser'})


def yield_meta_type(ynode, fn):
    """'MISSING' / 'LOOSE' / 'PACKED' / None for a yield statement node of the funnel (from the dict assigned to the
    metadata variable right before it)."""
    y = ynode.ast.value if isinstance(ynode.ast, ast.Expr) else getattr(ynode.ast, 'value', None)
    if not isinstance(y, ast.Yield) or y.value is None:
        return None
    names = [n.id for n in ast.walk(y.value) if isinstance(n, ast.Name)]
    for nm in names:
        v = last_assignment(nm, fn, y.lineno)
        if isinstance(v, ast.Dict):
            for k, val in zip(v.keys, v.values):
                if isinstance(k, ast.Constant) and k.value == 'type' and isinstance(val, ast.Attribute):
                    return val.attr
    return None


class FunnelMachine(Machine):
    """A negative answer (MISSING yield) must be based on an index query that ran on a session created after the last
    failed loose probe.  State = (sess, probed, refreshed, queried)."""
    edge_kinds = ('n', 'e')

    def __init__(self, ctx, g, rule):
        self.K, self.E = ctx.kinds, ctx.effects
        self.rule = rule
        self.fn = g.fn
        self.missing_sites = set()
        self.probe_sites = set()
        self.loose_stat_sites = []

    def initial(self, g):
        return [('?', False, False, False, frozenset(), frozenset(), frozenset())]

    def edge_state(self, edge, st, node, g):
        s2 = sess_edge(edge, st[0], self.K)
        if s2 is None:
            return None
        c = edge.cond
        if c is not None and isinstance(c[0], ast.Name) and c[2] is True and c[1] is g.top and c[0].id in st[4]:
            return None  # `if X:` cannot be true while X is known to be empty on this path
        started = st[6]
        if node.kind == 'loop' and isinstance(node.ast, ast.For) and node.frame is g.top:
            if edge.tag == 'iter-next':
                started = started | {node.id}
            elif edge.tag == 'iter-done':
                if node.id not in started and self._iter_nonempty(node, st[5], g):
                    return None  # a loop over a collection known to be non-empty runs at least once
                started = started - {node.id}
        return (s2,) + st[1:6] + (started,)

    def _iter_nonempty(self, node, nonempty, g):
        from .common import origin, root_name
        for o in origin(self.K, node.ast.iter, g.top):
            r = root_name(o)
            if r and r[0] == 'name' and r[2] in nonempty:
                return True
        return False

    def transfer(self, node, st, g):
        sess, probed, refreshed, queried, empty, nonempty, started = st
        viol = []
        if node.frame is g.top:
            if node.kind == 'stmt' and isinstance(node.ast, (ast.Assign, ast.AnnAssign)):
                tgt = node.ast.targets[0] if isinstance(node.ast, ast.Assign) and len(node.ast.targets) == 1 else getattr(node.ast, 'target', None)
                val = node.ast.value
                if isinstance(tgt, ast.Name):
                    is_empty = (isinstance(val, ast.Call) and isinstance(val.func, ast.Name) and val.func.id in ('set', 'list', 'dict') and not val.args) \
                        or (isinstance(val, (ast.List, ast.Set, ast.Dict)) and not getattr(val, 'elts', getattr(val, 'keys', [])))
                    empty = (empty | {tgt.id}) if is_empty else (empty - {tgt.id})
                    nonempty = nonempty - {tgt.id}
            elif node.kind == 'call' and node.callee is not None and node.callee.kind == 'method' and isinstance(node.callee.recv, ast.Name) \
                    and node.callee.name in ('add', 'append', 'update', 'extend', 'insert'):
                empty = empty - {node.callee.recv.id}
                if node.callee.name in ('add', 'append', 'insert'):
                    nonempty = nonempty | {node.callee.recv.id}
        for e in self.E.of(node):
            before = sess
            sess = sess_effect(e, sess)
            if e[0] in ('OPEN', 'STAT', 'EXISTS') and in_area(self.K, e[1], 'loose'):
                probed, refreshed, queried = True, False, False
                self.probe_sites.add(node.id)
                if e[0] in ('STAT', 'EXISTS'):
                    self.loose_stat_sites.append(node)
            elif e[0] in ('SESSION_RESET', 'SESSION_NEW') and e[1] == 'op':
                if probed and sess in ('none', 'fresh') and before != sess or (probed and e[0] == 'SESSION_RESET'):
                    refreshed = True
                    queried = False
            elif e[0] == 'DB_QUERY' and e[1][1] == 'op':
                if refreshed and sess == 'fresh':
                    queried = True
        if node.kind == 'yield' and node.frame is g.top and yield_meta_type(node, self.fn) == 'MISSING':
            self.missing_sites.add(node.id)
            if not (probed and refreshed and queried):
                what = 'no loose probe' if not probed else ('no session refresh after the last loose probe' if not refreshed
                                                            else 'no index query on the refreshed session')
                viol.append(Violation(self.rule, node, st, f'an object is reported MISSING although {what} precedes the answer: an object '
                                      'packed (and its loose file removed) by another handle after this handle\'s snapshot was pinned would be reported missing'))
        return [(sess, probed, refreshed, queried, empty, nonempty, started)] + viol
