"""C10 -- compression is transparent and honours the requested mode (DESIGN 5, C10)."""
from __future__ import annotations

import ast

from ..cfg import Policy
from ..effects import last_assignment, sql_statement
from ..loader import norm, walk_local
from ..report import Check
from ..solver import Machine, Violation
from ..solver import run as solve
from .c01 import body_paths


def enum_members(ci):
    return [k for k, v in ci.constants.items() if not k.startswith('_')]


class RestoreMachine(Machine):
    """R3: estimate_compression puts the stream back where it was: every normal path that moved/read the stream ends with
    stream.seek(<var assigned from stream.tell() before the first move>).  State = (saved var or None, moved, restored)."""

    def __init__(self, ctx, g, param, rule):
        self.param = param
        self.rule = rule
        self.top = g.top
        self.moves = 0

    def initial(self, g):
        return [(None, False, True)]

    def transfer(self, node, st, g):
        saved, moved, restored = st
        a = node.ast
        if node.frame is not self.top:
            return [st]
        if node.kind == 'stmt' and isinstance(a, ast.Assign) and isinstance(a.targets[0], ast.Name) and isinstance(a.value, ast.Call) \
                and isinstance(a.value.func, ast.Attribute) and a.value.func.attr == 'tell' and norm(a.value.func.value) == self.param and not moved:
            saved = a.targets[0].id
        if node.kind == 'call' and isinstance(a, ast.Call) and isinstance(a.func, ast.Attribute) and norm(a.func.value) == self.param:
            if a.func.attr == 'read':
                self.moves += 1
                moved, restored = True, False
            elif a.func.attr == 'seek':
                self.moves += 1
                arg = a.args[0] if a.args else None
                if isinstance(arg, ast.Name) and arg.id == saved and len(a.args) == 1:
                    restored = True
                else:
                    moved, restored = True, False
        return [(saved, moved, restored)]

    def at_exit(self, node, st, g):
        if node is g.exit and st[1] and not st[2]:
            return [Violation(self.rule, node, st, 'a normal return path leaves the stream at a different position than on entry (no final seek back to the saved tell()): '
                              'the object written afterwards misses its beginning')]
        return []


def run(ctx, host=None):
    chk = host.sub('C10') if host is not None else Check('C10', ctx)
    prog, K, E = ctx.prog, ctx.kinds, ctx.effects
    R1 = chk.rule('C10.R1', 'should_compress handles every CompressMode member with the constant result the mode demands; bool maps to YES/NO', 5)
    R2 = chk.rule('C10.R2', 'the compressed flag stored in the index row is the value that selected the writer\'s compressing branch, decided per object', 4)
    R3 = chk.rule('C10.R3', 'estimate_compression / should_compress restore the stream position on every path', 2)
    R4 = chk.rule('C10.R4', 'size bookkeeping: size = uncompressed bytes, totals map SUM(size) / SUM(length) to the right labels', 4)
    R5 = chk.rule('C10.R5', 'reading a compressed object after a rewind returns exactly its bytes (decompresser state reset)', 1)

    # ---------------------------------------------------------------- R1
    cm = prog.cls('utils:CompressMode')
    members = enum_members(cm)
    chk.require(len(members) >= 4, f'CompressMode members not found ({members})')
    sc = prog.fn('utils:should_compress')
    params = sc.params
    mode_p = next((p for p in params if 'mode' in p), None)
    src_p = next((p for p in params if p.endswith('compressed')), None)
    chk.require(mode_p and src_p, 'should_compress signature changed')
    handled = {}
    for st in sc.node.body:
        if isinstance(st, ast.If) and isinstance(st.test, ast.Compare) and norm(st.test.left) == mode_p and isinstance(st.test.ops[0], ast.Eq):
            mem = norm(st.test.comparators[0]).split('.')[-1]
            handled[mem] = st
    want = {'NO': ('const', False), 'YES': ('const', True), 'KEEP': ('name', src_p)}
    for mem in members:
        st = handled.get(mem)
        if st is None:
            chk.bad(R1, sc.qualname, f'CompressMode.{mem}', f'should_compress has no branch for CompressMode.{mem}', where=f'{sc.module.relpath}:{sc.lineno}')
            continue
        if mem in want:
            kind, val = want[mem]
            r = st.body[-1] if st.body else None
            okr = isinstance(r, ast.Return) and ((kind == 'const' and isinstance(r.value, ast.Constant) and r.value.value is val) or
                                                 (kind == 'name' and isinstance(r.value, ast.Name) and r.value.id == val))
            only = len([x for x in st.body if not (isinstance(x, ast.Expr) and isinstance(x.value, ast.Constant))]) == 1
            pre = next((p_ for p_ in sc.node.body[:sc.node.body.index(st)] if not any(p_ is h for h in handled.values())
                        and any(isinstance(x, ast.Return) for x in ast.walk(p_))), None)
            if pre is not None:
                chk.bad(R1, sc.qualname, f'CompressMode.{mem} branch', f'a mode-independent statement before the {mem} branch (`{norm(pre).splitlines()[0][:60]}`) can return first: mode {mem} no longer '
                        f'answers {"`" + str(val) + "`"} for every source', where=f'{sc.module.relpath}:{pre.lineno}')
            elif okr and only:
                chk.ok(R1, sc.qualname, f'{mem} -> {norm(r.value)}', detail='constant answer demanded by the mode')
            else:
                chk.bad(R1, sc.qualname, f'CompressMode.{mem} branch', f'mode {mem} must answer {"`" + str(val) + "`"} unconditionally', where=f'{sc.module.relpath}:{st.lineno}')
        else:
            rets = [x for x in ast.walk(st) if isinstance(x, ast.Return)]
            if rets and all(x.value is not None for x in rets):
                chk.ok(R1, sc.qualname, f'{mem} -> heuristic', detail=f'{len(rets)} return(s), all boolean expressions', nontrivial=False)
            else:
                chk.bad(R1, sc.qualname, f'CompressMode.{mem} branch', 'AUTO branch can fall through without an answer', where=f'{sc.module.relpath}:{st.lineno}')
    last = sc.node.body[-1]
    if isinstance(last, ast.Raise):
        chk.ok(R1, sc.qualname, 'raise for unknown modes', detail='', nontrivial=False)
    else:
        chk.bad(R1, sc.qualname, 'fallthrough', 'an unknown mode no longer raises', where=f'{sc.module.relpath}:{last.lineno}')
    pal = prog.fn('container:Container.pack_all_loose')
    # path enumeration over the statement that maps the legacy boolean (independent of how the branches are spelled)
    okmap = False
    from .common import strip_not
    for n in pal.node.body:
        if isinstance(n, ast.If) and 'isinstance(compress' in norm(n.test):
            seen = {}
            okmap = True
            for pth in body_paths([n]):
                facts = {}
                for x in pth:
                    if isinstance(x, tuple):
                        e, pol = strip_not(x[1], x[2])
                        facts[norm(e)] = pol
                vals = [norm(x.value).split('.')[-1] for x in pth if isinstance(x, ast.Assign) and isinstance(x.targets[0], ast.Name)]
                isb = next((v for k, v in facts.items() if k.startswith('isinstance(compress')), None)
                if isb is True:
                    want = {True: 'YES', False: 'NO'}.get(facts.get('compress'))
                    if want is None or vals != [want]:
                        okmap = False
                    seen[want] = True
                elif isb is False:
                    if vals != ['compress']:
                        okmap = False
            okmap = okmap and set(seen) == {'YES', 'NO'}
    if okmap:
        chk.ok(R1, pal.qualname, 'bool -> CompressMode', detail='True -> YES, False -> NO')
    else:
        chk.bad(R1, pal.qualname, 'bool -> CompressMode', 'the backwards-compatible boolean is no longer mapped True->YES / False->NO', where=f'{pal.module.relpath}:{pal.lineno}')

    # ---------------------------------------------------------------- R2
    def row_flag(fn):
        for n in walk_local(fn.node):
            if isinstance(n, ast.Assign) and isinstance(n.targets[0], ast.Subscript) and isinstance(n.targets[0].slice, ast.Constant) and n.targets[0].slice.value == 'compressed':
                return n
        return None
    for q in ('container:Container.pack_all_loose', 'container:Container.add_streamed_objects_to_pack'):
        f = prog.fn(q)
        rf = row_flag(f)
        chk.require(rf is not None, f"{q}: row['compressed'] assignment not found")
        wcalls = [n for n in walk_local(f.node) if isinstance(n, ast.Call) and norm(n.func).endswith('_write_data_to_packfile')]
        chk.require(wcalls, f'{q}: _write_data_to_packfile call not found')
        for w in wcalls:
            cv = next((k.value for k in w.keywords if k.arg == 'compress'), None)
            same = cv is not None and (norm(cv) == norm(rf.targets[0]) or norm(cv) == norm(rf.value))
            if same:
                chk.ok(R2, q, f"{norm(rf)[:60]} ; write(compress={norm(cv)})", detail='the stored flag is the value that drives the writer')
            else:
                chk.bad(R2, q, norm(w)[:120], f"the writer is called with compress=`{norm(cv) if cv is not None else '<default>'}` but the row stores `{norm(rf.value)}`: flag and stored encoding can disagree",
                        where=f'{f.module.relpath}:{w.lineno}')
    wd = prog.fn('container:Container._write_data_to_packfile')
    cp = 'compress'
    # compressor objects by def-use: locals assigned from self._get_compressobj_instance()
    cobjs = {a.targets[0].id for a in walk_local(wd.node) if isinstance(a, ast.Assign) and isinstance(a.targets[0], ast.Name) and isinstance(a.value, ast.Call)
             and norm(a.value.func).endswith('_get_compressobj_instance')}
    comp_calls = [n for n in walk_local(wd.node) if isinstance(n, ast.Call) and isinstance(n.func, ast.Attribute) and n.func.attr in ('compress', 'flush')
                  and isinstance(n.func.value, ast.Name) and n.func.value.id in cobjs]
    okg = bool(comp_calls)
    for c in comp_calls:
        p = getattr(c, '_parent', None)
        guard = None
        while p is not None and p is not wd.node:
            if isinstance(p, ast.If) and guard is None:
                guard = p
            p = getattr(p, '_parent', None)
        if guard is None or norm(guard.test) != cp or not any(c is x for s in guard.body for x in ast.walk(s)):
            okg = False
    if okg:
        chk.ok(R2, wd.qualname, f'{len(comp_calls)} compress/flush call(s) under `if {cp}:`', detail='bytes are compressed iff the flag passed in')
    else:
        chk.bad(R2, wd.qualname, 'compress branches', 'compression in the pack writer is not guarded exactly by its `compress` argument', where=f'{wd.module.relpath}:{wd.lineno}')
    # repack: per-object decision + complete branch table
    rp = prog.fn('container:Container.repack_pack')
    rf = row_flag(rp)
    chk.require(rf is not None and isinstance(rf.value, ast.Name), "repack_pack: row['compressed'] = <dest flag> not found")
    dest = rf.value.id
    loop = rf
    while loop is not None and not isinstance(loop, ast.For):
        loop = getattr(loop, '_parent', None)
    chk.require(loop is not None, 'repack_pack: per-object loop not found')
    rowvars = [e.id for e in (loop.target.elts if isinstance(loop.target, ast.Tuple) else [loop.target]) if isinstance(e, ast.Name)]
    paths = body_paths(loop.body)
    per_obj = True
    for p in paths:
        seen_assign = False
        for x in p:
            if isinstance(x, ast.Assign) and any(isinstance(t, ast.Name) and t.id == dest for t in x.targets):
                if isinstance(x.value, ast.Call) and norm(x.value.func) == 'should_compress':
                    kws = {k.arg: norm(k.value) for k in x.value.keywords}
                    if kws.get(src_p) in rowvars:
                        seen_assign = True
            if x is rf:
                if not seen_assign:
                    per_obj = False
    if per_obj:
        chk.ok(R2, rp.qualname, f'{dest} = should_compress(... {src_p}=<row flag>) on every path to the staging', detail='decided per object from that object\'s own stored form')
    else:
        chk.bad(R2, rp.qualname, f'{dest} = should_compress(...)', 'the destination form is not decided for every object from that object\'s own compressed flag (a cached/earlier answer is reused): '
                'KEEP would give all objects of a mixed pack the form of the first one', where=f'{rp.module.relpath}:{rf.lineno}')
    from .common import row_column_of
    colmap = row_column_of(prog, rp, rf)
    src_var = next((v for v in rowvars if colmap.get(v) == 'compressed'), None)
    tests = [norm(n.test) for n in ast.walk(loop) if isinstance(n, ast.If)]
    need = [f'{src_var} == {dest}', src_var, dest]
    alt = [f'{dest} == {src_var}', src_var, dest]
    if all(t in tests for t in need) or all(t in tests for t in alt):
        chk.ok(R2, rp.qualname, f'branches {need}', detail='equal flags -> raw copy; source compressed -> inflate; destination compressed -> deflate + flush')
    else:
        chk.bad(R2, rp.qualname, 'transfer branch table', f'expected tests {need} in the per-object loop, found {tests}', where=f'{rp.module.relpath}:{loop.lineno}')

    # every path that stages the row transfers the object's bytes exactly once, in the form the tests of that path select
    rowdict = norm(rf.targets[0].value)
    bad_paths = []
    nstaging = 0
    for pth in paths:
        stage_ix = [i for i, x in enumerate(pth) if isinstance(x, ast.Expr) and isinstance(x.value, ast.Call) and isinstance(x.value.func, ast.Attribute)
                    and x.value.func.attr == 'append' and x.value.args and norm(x.value.args[0]) == rowdict]
        if not stage_ix:
            continue
        nstaging += 1
        before = pth[:stage_ix[0]]
        transfers = [x for x in before if isinstance(x, (ast.While, ast.For)) and any(isinstance(c, ast.Call) and isinstance(c.func, ast.Attribute) and c.func.attr == 'write' for c in ast.walk(x))]
        tests_on = [(norm(t[1]), t[2]) for t in before if isinstance(t, tuple)]
        if len(transfers) != 1:
            bad_paths.append((pth, f'{len(transfers)} transfer loop(s) before the row is staged (tests on the path: {tests_on})'))
            continue
        tr = transfers[0]
        deflates = any(isinstance(c, ast.Call) and isinstance(c.func, ast.Attribute) and c.func.attr == 'compress' for c in ast.walk(tr))
        after_tr = before[before.index(tr) + 1:]
        flushed = any(isinstance(x, ast.Expr) and isinstance(x.value, ast.Call) and norm(x.value.func).endswith('.write') and x.value.args and isinstance(x.value.args[0], ast.Call)
                      and isinstance(x.value.args[0].func, ast.Attribute) and x.value.args[0].func.attr == 'flush' for x in after_tr)
        eq_true = any(tx in (f'{src_var} == {dest}', f'{dest} == {src_var}') and pol for tx, pol in tests_on)
        dest_true = any(tx == dest and pol for tx, pol in tests_on)
        dest_false = any(tx == dest and not pol for tx, pol in tests_on)
        if deflates and not flushed:
            bad_paths.append((pth, 'the compressor is not flushed after the transfer loop'))
        elif deflates and not dest_true:
            bad_paths.append((pth, 'bytes are deflated on a path where the destination flag is not known to be true'))
        elif not deflates and not (eq_true or dest_false):
            bad_paths.append((pth, 'bytes are copied without deflating on a path where neither the flags are equal nor the destination flag is false'))
    chk.require(nstaging >= 3, f'repack_pack: expected >= 3 paths that stage a row, found {nstaging}')
    if bad_paths:
        pth, why = bad_paths[0]
        ln = next((x.lineno for x in pth if isinstance(x, ast.AST) and hasattr(x, 'lineno')), loop.lineno)
        chk.bad(R2, rp.qualname, 'transfer paths of the repack loop', f'a row is staged with compressed = `{dest}` on a path where the stored bytes need not have that form: {why}',
                where=f'{rp.module.relpath}:{ln}')
    else:
        chk.ok(R2, rp.qualname, f'{nstaging} staging path(s)', detail='each transfers the bytes exactly once: raw copy iff flags equal or destination uncompressed, deflate + flush iff destination compressed')

    # read side of the same agreement: at every packed-reader construction site the decompresser wraps the reader iff the truthiness of the row's flag
    from .c01 import reader_wrap_sites
    reader_wrap_sites(ctx, chk, R2)

    # ---------------------------------------------------------------- R3
    ec = prog.fn('utils:estimate_compression')
    g = ctx.icfg(ec.qualname, {}, Policy(depth=0), key='d0')
    m = RestoreMachine(ctx, g, ec.params[0], 'C10.R3')
    viols, st = solve(g, m)
    chk.crash_points += st['pairs']
    chk.specialisations += 1
    chk.require(m.moves >= 2, 'estimate_compression: stream moves not found')
    for v in viols:
        chk.bad(R3, ec.qualname, 'return paths', v.msg, where=f'{ec.module.relpath}:{ec.lineno}', witness=v.witness)
    if not viols:
        chk.ok(R3, ec.qualname, f'{m.moves} move site visits', detail='every normal path ends with seek(initial_pos); the early return precedes any move')
    other = [n for n in walk_local(sc.node) if isinstance(n, ast.Call) and isinstance(n.func, ast.Attribute) and norm(n.func.value) == sc.params[0] and n.func.attr in ('read', 'seek')]
    if other:
        chk.bad(R3, sc.qualname, norm(other[0]), 'should_compress moves the stream itself', where=f'{sc.module.relpath}:{other[0].lineno}')
    else:
        chk.ok(R3, sc.qualname, 'no direct stream access', detail='only estimate_compression touches the stream', nontrivial=False)

    # ---------------------------------------------------------------- R4
    gt = prog.fn('container:Container.get_total_size')
    pairs = {}
    # the result fields: `retval['k'] = v` item assignments, or keywords of the returned constructor `TotalSize(k=v, ...)` (a local bound once is followed)
    import types as _types
    fields = []
    for n in walk_local(gt.node):
        if isinstance(n, ast.Assign) and isinstance(n.targets[0], ast.Subscript) and isinstance(n.targets[0].slice, ast.Constant):
            fields.append(_types.SimpleNamespace(key=n.targets[0].slice.value, value=n.value, lineno=n.lineno))
        elif isinstance(n, ast.Return) and isinstance(n.value, ast.Call) and n.value.keywords and not any(k.arg is None for k in n.value.keywords):
            for k in n.value.keywords:
                v = k.value
                if isinstance(v, ast.Name):
                    one = [a for a in walk_local(gt.node) if isinstance(a, ast.Assign) and len(a.targets) == 1 and isinstance(a.targets[0], ast.Name) and a.targets[0].id == v.id]
                    augs_ = [a for a in walk_local(gt.node) if isinstance(a, ast.AugAssign) and isinstance(a.target, ast.Name) and a.target.id == v.id]
                    if len(one) == 1 and not augs_:
                        v = one[0].value
                fields.append(_types.SimpleNamespace(key=k.arg, value=v, lineno=k.value.lineno))
    for n in fields:
        if True:
            key = n.key
            txt = norm(n.value)
            if 'func.sum(' in txt:
                col = txt.split('func.sum(')[1].split(')')[0].split('.')[-1]
                pairs[key] = col
    want = {'total_size_packed': 'size', 'total_size_packed_on_disk': 'length'}
    for k2, col in want.items():
        if pairs.get(k2) == col:
            chk.ok(R4, gt.qualname, f'{k2} <- SUM({col})', detail='label/column agreement')
        else:
            chk.bad(R4, gt.qualname, f'{k2}', f'{k2} is computed from SUM({pairs.get(k2)}) instead of SUM({col})', where=f'{gt.module.relpath}:{gt.lineno}')
    # the on-disk totals: loose = sum of stat() over every listed loose file, pack files = sum over every listed pack, index = the index file
    frg = K.top_frame(gt)
    want_area = {'total_size_loose': ('loose', '_list_loose'), 'total_size_packfiles_on_disk': ('packs', '_list_packs'), 'total_size_packindexes_on_disk': ('index', None)}
    for n in fields:
        if n.key in want_area:
            key = n.key
            area, lister = want_area[key]
            srcs = [n.value]
            loops_ok = True
            if isinstance(n.value, ast.Name):
                augs = [a for a in walk_local(gt.node) if isinstance(a, ast.AugAssign) and isinstance(a.target, ast.Name) and a.target.id == n.value.id]
                srcs = [a.value for a in augs]
                for a in augs:
                    lp = a
                    while lp is not None and not isinstance(lp, ast.For):
                        lp = getattr(lp, '_parent', None)
                    if lp is None or lister is None or norm(lp.iter) not in (f'self.{lister}()', f'list(self.{lister}())', f'sorted(self.{lister}())', f'set(self.{lister}())', f'tuple(self.{lister}())') or any(isinstance(x, (ast.Continue, ast.Break)) for x in ast.walk(lp)) \
                            or any(isinstance(x, ast.If) for x in lp.body) or not isinstance(a.op, ast.Add):
                        loops_ok = False
                if not augs:
                    loops_ok = False
            okt = loops_ok and bool(srcs)
            for v in srcs:
                stats = [c for c in ast.walk(v) if isinstance(c, ast.Call) and isinstance(c.func, ast.Attribute) and c.func.attr == 'stat']
                if len(stats) != 1 or not norm(v).endswith('.st_size'):
                    okt = False
                    continue
                from .common import in_area as _ia
                if not _ia(K, K.kind(stats[0].func.value, frg), area):
                    okt = False
            if okt:
                chk.ok(R4, gt.qualname, f'{key} <- stat().st_size over {area}', detail='every listed file of the right area is counted once', nontrivial=False)
            else:
                chk.bad(R4, gt.qualname, f'{key}', f'{key} is not the sum of the file sizes (stat().st_size) of every listed entry under {area}/', where=f'{gt.module.relpath}:{n.lineno}')
    # row['size'] provenance
    for q in ('container:Container.pack_all_loose', 'container:Container.add_streamed_objects_to_pack'):
        f = prog.fn(q)
        okz = False
        for n in walk_local(f.node):
            if isinstance(n, ast.Assign) and isinstance(n.targets[0], ast.Tuple) and isinstance(n.value, ast.Call) and norm(n.value.func).endswith('_write_data_to_packfile'):
                first = n.targets[0].elts[0]
                okz = isinstance(first, ast.Subscript) and isinstance(first.slice, ast.Constant) and first.slice.value == 'size'
        if okz:
            chk.ok(R4, q, "row['size'] = bytes read by the writer", detail='uncompressed size', nontrivial=False)
        else:
            chk.bad(R4, q, "row['size']", 'the recorded size is not the number of bytes read by the pack writer', where=f'{f.module.relpath}:{f.lineno}')
    sz = [n for n in walk_local(rp.node) if isinstance(n, ast.Assign) and isinstance(n.targets[0], ast.Subscript) and isinstance(n.targets[0].slice, ast.Constant) and n.targets[0].slice.value == 'size']
    if sz and isinstance(sz[0].value, ast.Name) and sz[0].value.id in rowvars and colmap.get(sz[0].value.id) == 'size':
        chk.ok(R4, rp.qualname, norm(sz[0]), detail='size copied from the row', nontrivial=False)
    else:
        chk.bad(R4, rp.qualname, "row['size']", 'repack does not carry over the uncompressed size of the row', where=f'{rp.module.relpath}:{rp.lineno}')

    # length = on-disk bytes of exactly this object (the range must be one complete stored stream, else inflating it fails or returns other bytes):
    # RangeMachine of C03.R1 on the three pack writers, reported here as C10.R4
    from ..solver import run as solve2
    from .c03 import RangeMachine
    from .common import specialisations as _spec, write_policy as _wp
    for q in ('container:Container.pack_all_loose', 'container:Container.add_streamed_objects_to_pack', 'container:Container.repack_pack'):
        fnq = prog.fn(q)
        combos = [{}] if not q.endswith('add_streamed_objects_to_pack') else (
            list(_spec(fnq, {}, free={'do_fsync', 'do_commit', 'open_streams', 'compress'})) if not ctx.thorough else list(_spec(fnq, {})))
        badr = False
        for consts in combos:
            g = ctx.icfg(q, consts, _wp(depth=5), key='wp5')
            m = RangeMachine(ctx, g, 'C10.R4')
            viols, st = solve2(g, m)
            chk.crash_points += st['pairs']
            chk.specialisations += 1
            for v in viols:
                if 'key' in v.msg and 'offset' not in v.msg and 'length' not in v.msg:
                    continue
                badr = True
                chk.bad(R4, q, v.node.text(120), v.msg + f' [flags {consts}]', where=v.node.where, witness=v.witness)
        if not badr:
            chk.ok(R4, q, f'stored range, {len(combos)} flag combination(s)', detail='offset = tell() before the first write, length = tell() - offset after the last write (compressor flush included)', evals=len(combos))

    # ---------------------------------------------------------------- R5
    from .c07 import rewind_reset
    rewind_reset(ctx, chk, R5)

    from .common import option_forwarding
    R6 = chk.rule('C10.R6', 'the compress option is forwarded unchanged by every wrapper down to the pack writer', 1)
    nf = option_forwarding(ctx, chk, R6, ['compress', 'compress_mode'])
    chk.require(nf >= 3, f'expected >= 3 forwarding sites of compress, found {nf}')

    # rules of other properties that are necessary conditions of this one too: what is read back after (re)packing is right only if the index and
    # the pack files agree at every step of the writers and of the repack hand-over (C03)
    if host is None:
        from ..report import host_modules
        host_modules(chk, ctx, ['C03', 'C07'])

    return chk.finish(
        explanation=('Static checks of the compression logic: exhaustive and constant mode table of should_compress, def-use agreement between the flag stored in the index '
                     'row and the value that selects the compressing branch (decided per object on every path of the repack loop), a position-restore typestate on '
                     'estimate_compression, label/column agreement of the size totals, and decompresser reset completeness.'),
        rule_text='obligation = (rule, function, member / site); non-trivial = path enumeration or typestate',
        assumptions=['zlib inflate(deflate(x)) == x'],
        not_decided='that inflate o deflate is the identity; the numeric choice of the AUTO heuristic.')
