"""Helpers shared by the rule modules."""
from __future__ import annotations

import ast
import copy
import itertools

from .. import AnalysisError
from ..cfg import Policy
from ..kinds import UNK, alts, kstr
from ..loader import walk_local, norm
from ..resolve import fold

# Inlining policy for the write/maintenance paths: do not descend into progress reporting and the generic read API
STOP_DEFAULT = {
    'container:Container.get_total_size',
    'container:Container._get_objects_stream_meta_generator',
    'container:Container.get_objects_stream_and_meta',
    'container:Container.get_object_stream_and_meta',
    'container:Container.get_object_stream',
    'container:Container.get_objects_meta',
    'utils:rename_callback',
    'utils:detect_where_sorted', 'utils:merge_sorted', 'utils:yield_first_element',
}


def write_policy(depth=5, extra_stop=()):
    return Policy(depth=depth, stop=STOP_DEFAULT | set(extra_stop))


def areas(K, pk):
    """Set of container areas a (possibly joined) path kind can denote."""
    out = set()
    for a in alts(pk):
        ar = K.area(a)
        if ar is not None:
            out.add(ar[0])
        elif a[0] == 'param':
            out.add('param')
        else:
            out.add('unknown')
    return out


def in_area(K, pk, name):
    """True iff every alternative of pk lies in the given area (strictly below the area root unless name == 'root')."""
    al = alts(pk)
    if not al:
        return False
    for a in al:
        ar = K.area(a)
        if ar is None or ar[0] != name:
            return False
    return True


def below_area(K, pk, name):
    al = alts(pk)
    for a in al:
        ar = K.area(a)
        if ar is None or ar[0] != name or len(ar) < 2 or not ar[1]:
            return False
    return bool(al)


def handle_path(h):
    return h[1] if h and h[0] in ('handle', 'fd') else None


def is_tmp_pack(K, pk, prog):
    """packs/<repack id>"""
    from ..resolve import fold, UNKNOWN
    rid = prog.class_constant(K.container, '_REPACK_PACK_ID')
    if rid is None:
        raise AnalysisError('Container._REPACK_PACK_ID not found')
    v = fold(prog, rid, None)
    for a in alts(pk):
        ar = K.area(a)
        if ar is None or ar[0] != 'packs' or len(ar[1]) != 1 or ar[1][0] != str(v):
            return False
    return True


def is_lock_path(K, pk):
    for a in alts(pk):
        ar = K.area(a)
        if ar is None or ar[0] != 'packs' or len(ar[1]) != 1:
            return False
        c = ar[1][0]
        txt = c if isinstance(c, str) else c[1]
        if not txt.rstrip("'\"").endswith('.lock'):
            return False
    return True


def origin(K, expr, frame, depth=0):
    """Trace a value back to the local collection / parameter / call it comes from.
    Returns a list of ('name', frame, name) | ('param', fnqual, name) | ('call', node, frame) | ('lit', value) | ('expr', text)."""
    if depth > 12:
        return [('expr', norm(expr))]
    fn = frame.fn
    if isinstance(expr, ast.Name):
        name = expr.id
        outs = []
        if name in fn.all_params:
            if name in frame.args:
                aexpr, afr = frame.args[name]
                outs += origin(K, aexpr, afr, depth + 1)
            else:
                outs.append(('param', fn.qualname, name))
        if not isinstance(fn.node, ast.Lambda):
            for n in walk_local(fn.node):
                if isinstance(n, (ast.For, ast.AsyncFor)) and _binds(n.target, name):
                    outs += [('elem',) + o for o in origin(K, n.iter, frame, depth + 1)]
                elif isinstance(n, ast.comprehension) and _binds(n.target, name):
                    outs += [('elem',) + o for o in origin(K, n.iter, frame, depth + 1)]
        if not outs or name not in fn.all_params:
            if not any(o[0] == 'elem' for o in outs):
                # a local that is assigned exactly once as a plain copy of another collection (x = y / x = list(y) / sorted(y) ...) stands for it
                if not isinstance(fn.node, ast.Lambda) and name not in fn.all_params:
                    asg = [n for n in walk_local(fn.node) if isinstance(n, (ast.Assign, ast.AnnAssign, ast.AugAssign))
                           and any(_binds(t, name) for t in (n.targets if isinstance(n, ast.Assign) else [n.target]))]
                    muts = [n for n in walk_local(fn.node) if isinstance(n, ast.Call) and isinstance(n.func, ast.Attribute) and isinstance(n.func.value, ast.Name)
                            and n.func.value.id == name and n.func.attr in ('append', 'add', 'extend', 'update', 'insert')]
                    if len(asg) == 1 and not muts and isinstance(asg[0], ast.Assign) and isinstance(asg[0].targets[0], ast.Name):
                        v = asg[0].value
                        if isinstance(v, ast.Name) and v.id != name:
                            return origin(K, v, frame, depth + 1)
                        if isinstance(v, ast.Call) and isinstance(v.func, ast.Name) and v.func.id in ('list', 'set', 'sorted', 'tuple', 'frozenset') and len(v.args) == 1 \
                                and isinstance(v.args[0], ast.Name) and v.args[0].id != name:
                            return origin(K, v.args[0], frame, depth + 1)
                outs.append(('name', frame, name))
        return outs
    if isinstance(expr, ast.Call):
        d = None
        try:
            cal = K.resolve_call(expr, frame)
        except Exception:
            cal = None
        if cal is not None and cal.kind == 'external' and cal.target in (
                'builtins.set', 'builtins.list', 'builtins.sorted', 'builtins.tuple', 'builtins.iter', 'builtins.frozenset',
                'builtins.reversed') and expr.args:
            return origin(K, expr.args[0], frame, depth + 1)
        if cal is not None and cal.kind == 'internal' and cal.target.qualname == 'utils:chunk_iterator' and expr.args:
            return [('chunk',) + o for o in origin(K, expr.args[0], frame, depth + 1)]
        return [('call', expr, frame)]
    if isinstance(expr, ast.Subscript):
        return [('sub',) + o for o in origin(K, expr.value, frame, depth + 1)]
    if isinstance(expr, ast.Constant):
        return [('lit', expr.value)]
    return [('expr', norm(expr))]


def _binds(target, name):
    if isinstance(target, ast.Name):
        return target.id == name
    if isinstance(target, (ast.Tuple, ast.List)):
        return any(_binds(t, name) for t in target.elts)
    return False


def root_name(o):
    """Strip 'elem'/'sub'/'chunk' wrappers of an origin -> the base tuple."""
    while o and o[0] in ('elem', 'sub', 'chunk'):
        o = o[1:]
    return o


def bool_params(fn, names=None):
    out = []
    for p in fn.params:
        d = fn.defaults.get(p)
        if isinstance(d, ast.Constant) and isinstance(d.value, bool):
            if names is None or p in names:
                out.append(p)
    return out


def specialisations(fn, fixed=None, free=None, limit=256):
    """All assignments of the boolean-default flags of fn (fixed overrides; `free` = names left unconstrained)."""
    fixed = dict(fixed or {})
    flags = [p for p in bool_params(fn) if p not in fixed and (free is None or p not in free)]
    combos = list(itertools.product([False, True], repeat=len(flags)))[:limit]
    for c in combos:
        d = dict(fixed)
        d.update(dict(zip(flags, c)))
        yield d


def fq(fn):
    return fn.qualname


def nloc(node):
    return node.where


# ------------------------------------------------------------------------------------------------ session freshness
# Abstract value of the cached operation session of the container (shared by C04/C05/C08):
#   '?'      function entry: a session may exist and an earlier query may have pinned its WAL snapshot
#   'none'   the cache attribute is None (after _close_operation_session / close)
#   'fresh'  a new session was created since entry and no statement ran on it yet, or statements ran only after creation
# A query on '?' reads a possibly old snapshot; a query on 'fresh' reads a snapshot begun after the session was created.

def sess_edge(edge, sess, K):
    """Refine the abstract session value along a branch edge testing `self._operation_session is [not] None`."""
    c = edge.cond
    if c is None:
        return sess
    expr, fr, pol = c
    if isinstance(expr, ast.Compare) and len(expr.ops) == 1 and isinstance(expr.ops[0], (ast.Is, ast.IsNot)) \
            and isinstance(expr.comparators[0], ast.Constant) and expr.comparators[0].value is None \
            and isinstance(expr.left, ast.Attribute) and expr.left.attr == '_operation_session':
        bk = K.kind(expr.left.value, fr)
        if bk[0] != 'self':
            return sess
        is_none = pol if isinstance(expr.ops[0], ast.Is) else (not pol)
        if is_none:
            if sess == 'fresh':
                return None
            return 'none'
        if sess == 'none':
            return None
        return sess
    return sess


def sess_effect(e, sess):
    if e[0] == 'SESSION_RESET' and e[1] == 'op':
        return 'none'
    if e[0] == 'SESSION_NEW' and e[1] == 'op':
        return 'fresh'
    return sess


# ------------------------------------------------------------------------------------------------ effect summaries

MUTATING = {'H_WRITE', 'H_TRUNCATE', 'H_FLUSH', 'FSYNC', 'FCNTL', 'RENAME', 'REPLACE', 'LINK', 'UNLINK', 'RMTREE', 'RMDIR', 'MKDIR',
            'DB_INSERT', 'DB_UPDATE', 'DB_DELETE', 'DB_COMMIT', 'DB_VACUUM', 'MOVE', 'COPY', 'WRITE_PATH', 'TOUCH',
            'TRUNCATE_PATH', 'FS_OTHER'}


class Summaries:
    """Per-function effect summaries: the effects of the function's own call sites (kinds evaluated in a stand-alone
    frame) and, transitively, of its resolved internal callees."""

    def __init__(self, ctx):
        self.ctx = ctx
        self._own = {}
        self._trans = {}

    def calls(self, fn):
        """[(call ast, Callee, effects)] for the function's own call sites (with-exit closes not included)."""
        if fn.qualname in self._own:
            return self._own[fn.qualname]
        from ..cfg import Node
        K, E = self.ctx.kinds, self.ctx.effects
        out = []
        self._own[fn.qualname] = out
        if isinstance(fn.node, ast.Lambda):
            body = [fn.node.body]
            nodes = list(ast.walk(fn.node.body))
        else:
            nodes = list(walk_local(fn.node))
        fr = K.top_frame(fn)
        for n in nodes:
            if isinstance(n, ast.Call):
                cal = K.resolve_call(n, fr)
                nd = Node(-1, 'call', n, fr)
                nd.callee = cal
                out.append((n, cal, E.of(nd)))
            elif isinstance(n, (ast.Assign, ast.AnnAssign)):
                nd = Node(-1, 'stmt', n, fr)
                effs = E.of(nd)
                if effs:
                    out.append((n, None, effs))
        return out

    def trans(self, fn, depth=4, _stack=()):
        """Set of (effect name, frozenset(areas of first operand)) reachable from fn."""
        key = (fn.qualname, depth)
        if key in self._trans:
            return self._trans[key]
        K = self.ctx.kinds
        out = set()
        if fn.qualname in _stack:
            return out
        for n, cal, effs in self.calls(fn):
            for e in effs:
                ar = frozenset()
                if len(e) > 1 and isinstance(e[1], tuple):
                    pk = e[1][1] if e[1] and e[1][0] in ('handle', 'fd') else e[1]
                    if isinstance(pk, tuple):
                        ar = frozenset(areas(K, pk))
                out.add((e[0], ar))
            if cal is not None and depth > 0:
                tgt = None
                if cal.kind == 'internal':
                    tgt = cal.target
                elif cal.kind == 'class':
                    tgt = self.ctx.prog.find_method(cal.target, '__init__')
                if tgt is not None:
                    out |= self.trans(tgt, depth - 1, _stack + (fn.qualname,))
        # lambdas / nested defs defined here are assumed callable from here
        for sub in fn.nested.values():
            out |= self.trans(sub, depth - 1, _stack + (fn.qualname,)) if depth > 0 else set()
        self._trans[key] = out
        return out

    def effects_of_stmts(self, stmts, fn, depth=3):
        """Transitive effect names of a list of statements inside fn."""
        K = self.ctx.kinds
        ids = set()
        for st in stmts:
            for n in ast.walk(st):
                ids.add(id(n))
        out = set()
        for n, cal, effs in self.calls(fn):
            if id(n) not in ids:
                continue
            for e in effs:
                ar = frozenset()
                if len(e) > 1 and isinstance(e[1], tuple):
                    pk = e[1][1] if e[1] and e[1][0] in ('handle', 'fd') else e[1]
                    if isinstance(pk, tuple):
                        ar = frozenset(areas(K, pk))
                out.add((e[0], ar))
            if cal is not None:
                tgt = cal.target if cal.kind == 'internal' else (self.ctx.prog.find_method(cal.target, '__init__') if cal.kind == 'class' else None)
                if tgt is not None:
                    out |= self.trans(tgt, depth)
        # `with open(...)`: closing a handle is part of the statement
        return out


def strip_not(expr, pol):
    """(expr, polarity) with leading `not`s removed."""
    while isinstance(expr, ast.UnaryOp) and isinstance(expr.op, ast.Not):
        expr, pol = expr.operand, not pol
    return expr, pol


# ------------------------------------------------------------------------------------------------ ownership through helpers

class CallGraph:
    """Reverse call graph over resolved internal calls (incl. constructors and context managers)."""

    def __init__(self, ctx, S):
        self.callers = {}
        prog = ctx.prog
        for f in prog.all_functions():
            for n, cal, effs in S.calls(f):
                if cal is None:
                    continue
                tgt = cal.target if cal.kind == 'internal' else (prog.find_method(cal.target, '__init__') if cal.kind == 'class' else None)
                if tgt is not None and tgt is not f:
                    self.callers.setdefault(tgt.qualname, set()).add(f.qualname)
            for sub in f.nested.values():
                self.callers.setdefault(sub.qualname, set()).add(f.qualname)
        self.prog = prog

    def owners(self, q, accept, _seen=None):
        """Functions that 'own' an effect located in q: climbing the callers of q stops at the first function g with accept(g);
        a function without callers, or a public one that is not accepted, is a root and is returned as is."""
        _seen = _seen if _seen is not None else set()
        if q in _seen:
            return set()
        _seen.add(q)
        if accept(q):
            return {q}
        name = q.split('.')[-1].split(':')[-1]
        callers = self.callers.get(q, set())
        private = name.startswith('_') and not (name.startswith('__') and name.endswith('__'))
        if not callers or not private:
            return {q}
        out = set()
        for c in callers:
            out |= self.owners(c, accept, _seen)
        return out


def _has_param_operand(e):
    for x in e[1:3]:
        if isinstance(x, tuple) and x:
            pk = x[1] if x[0] in ('handle', 'fd') and len(x) > 1 else x
            for a in alts(pk) if isinstance(pk, tuple) else ():
                if a and a[0] == 'param':
                    return True
    return False


def resolved_effect_sites(ctx, S, cg, wanted):
    """Yield (function that owns the site, call ast node, effect) for every effect whose name is in `wanted`, over the whole package.
    An effect inside a *private* helper whose operand is one of the helper's parameters is re-evaluated in the ICFG of each caller
    (actual -> formal binding), and attributed to that caller: extracting a statement into a helper does not hide what it touches."""
    from ..cfg import Policy
    prog, E = ctx.prog, ctx.effects
    for f in prog.all_functions():
        name = f.qualname.split('.')[-1].split(':')[-1]
        private = name.startswith('_') and not (name.startswith('__') and name.endswith('__'))
        for n, cal, effs in S.calls(f):
            for e in effs:
                if e[0] not in wanted:
                    continue
                callers = cg.callers.get(f.qualname, set()) if private else set()
                if callers and _has_param_operand(e):
                    done = False
                    for cq in sorted(callers):
                        try:
                            g = ctx.icfg(cq, {}, Policy(depth=2, only={f.qualname}), key=('only', f.qualname))
                        except Exception:
                            continue
                        for nd in g.nodes:
                            if nd.frame is not None and nd.frame.fn is f and nd.ast is n:
                                for e2 in E.of(nd):
                                    if e2[0] == e[0]:
                                        done = True
                                        yield prog.fn(cq), n, e2
                    if done:
                        continue
                yield f, n, e


CACHE_DECORATORS = ('lru_cache', 'cache', 'cached_property', 'memoize', 'memoized', 'cached')
EXTERNAL_READS = {'OPEN', 'STAT', 'EXISTS', 'LISTDIR', 'DB_QUERY', 'READ_PATH', 'FSTAT', 'OPEN_FD'}


def memoised_external_readers(ctx, S):
    """Functions whose results are memoised by a decorator although they (transitively) read files / the index: a later change of
    the external state is not seen by their callers.  Returns [(FunctionInfo, decorator text)]."""
    out = []
    for f in ctx.prog.all_functions():
        if isinstance(f.node, ast.Lambda):
            continue
        for d in f.node.decorator_list:
            base = d.func if isinstance(d, ast.Call) else d
            nm = norm(base).split('.')[-1]
            if nm in CACHE_DECORATORS:
                tr = S.trans(f, depth=6)
                if any(e[0] in EXTERNAL_READS for e in tr):
                    out.append((f, norm(d)))
    return out


def reachable_functions(ctx, S, f, depth=10, seen=None):
    seen = seen if seen is not None else {}
    if f.qualname in seen or depth < 0:
        return seen
    seen[f.qualname] = f
    for n, cal, effs in S.calls(f):
        if cal is None:
            continue
        tgt = cal.target if cal.kind == 'internal' else (ctx.prog.find_method(cal.target, '__init__') if cal.kind == 'class' else None)
        if tgt is not None:
            reachable_functions(ctx, S, tgt, depth - 1, seen)
    return seen


def transaction_premises(ctx, chk, rule):
    """The index rows written by a statement become visible/durable only at COMMIT -- the premise of every commit-ordering rule.  In
    database.get_session: pysqlite's implicit transaction handling is switched off and an explicit BEGIN is emitted for every
    transaction; the session does not autocommit/autoflush; the only PRAGMA issued is journal_mode=wal (nothing that weakens atomic,
    durable commits such as synchronous=OFF, journal_mode=OFF/MEMORY, locking/ignore_check options)."""
    prog = ctx.prog
    gs = prog.fn('database:get_session')
    src_nodes = list(ast.walk(gs.node))
    iso = [n for n in src_nodes if isinstance(n, ast.Assign) and isinstance(n.targets[0], ast.Attribute) and n.targets[0].attr == 'isolation_level']
    begins = []
    for n in src_nodes:
        if isinstance(n, ast.FunctionDef) and n is not gs.node:
            decos = ' '.join(norm(d) for d in n.decorator_list)
            if "'begin'" in decos and 'listens_for' in decos:
                begins += [c for c in ast.walk(n) if isinstance(c, ast.Call) and isinstance(c.func, ast.Attribute) and c.func.attr == 'execute' and "'BEGIN'" in norm(c).upper().replace('"', "'")]
    pragmas = []
    for n in src_nodes:
        if isinstance(n, ast.Constant) and isinstance(n.value, str) and 'PRAGMA' in n.value.upper():
            pragmas.append(n)
    sm = [c for c in src_nodes if isinstance(c, ast.Call) and norm(c.func) == 'sessionmaker']
    ok_iso = len(iso) == 1 and isinstance(iso[0].value, ast.Constant) and iso[0].value.value is None
    ok_begin = len(begins) >= 1
    bad_pragmas = [p_ for p_ in pragmas if p_.value.upper().replace(' ', '').rstrip(';') != 'PRAGMAJOURNAL_MODE=WAL']
    ok_sm = len(sm) == 1 and all(not (k.arg in ('autocommit', 'autoflush') and not (isinstance(k.value, ast.Constant) and k.value.value is False)) for k in sm[0].keywords) \
        and {'autocommit', 'autoflush'} <= {k.arg for k in sm[0].keywords}
    if not ok_iso or not ok_begin:
        chk.bad(rule, gs.qualname, 'explicit BEGIN', 'transactions are not opened by an explicit BEGIN with pysqlite\'s implicit handling switched off (isolation_level = None + a "begin" listener that executes BEGIN): '
                'without it every statement commits on its own, so index rows become visible and durable at INSERT/UPDATE time, before the pack bytes are flushed and before the code\'s COMMIT',
                where=f'{gs.module.relpath}:{gs.lineno}')
    elif bad_pragmas:
        chk.bad(rule, gs.qualname, bad_pragmas[0].value, 'a PRAGMA other than journal_mode=wal is issued on the index connection: options such as synchronous=OFF or journal_mode=OFF/MEMORY give up atomic, durable '
                'commits, the premise of every commit-ordering rule', where=f'{gs.module.relpath}:{bad_pragmas[0].lineno}')
    elif not ok_sm:
        chk.bad(rule, gs.qualname, norm(sm[0])[:100] if sm else 'sessionmaker', 'the session is not created with autocommit=False and autoflush=False: statements could reach the index outside the commit points the code controls',
                where=f'{gs.module.relpath}:{(sm[0].lineno if sm else gs.lineno)}')
    else:
        chk.ok(rule, gs.qualname, 'isolation_level=None; BEGIN listener; PRAGMA journal_mode=wal only; autocommit=False, autoflush=False',
               detail='index changes become visible and durable only at the COMMITs the code issues (WAL: readers keep their snapshot)')


def row_column_of(prog, fn, at_node):
    """{local name: column name} for the nearest enclosing `for <tuple> in <session>.execute(<SELECT>)` loop around `at_node`
    (positional unpacking of the selected columns); {} if there is none."""
    from ..effects import sql_statement
    lp = getattr(at_node, '_parent', None)
    while lp is not None:
        if isinstance(lp, ast.For) and isinstance(lp.target, ast.Tuple) and isinstance(lp.iter, ast.Call) and isinstance(lp.iter.func, ast.Attribute) and lp.iter.func.attr == 'execute' and lp.iter.args:
            info = sql_statement(prog, lp.iter.args[0], fn, lp.lineno)
            if info and info.get('op') == 'SELECT':
                cols = [c.split('.')[-1] for c in info['cols']]
                names = [t.id if isinstance(t, ast.Name) else None for t in lp.target.elts]
                if len(cols) == len(names):
                    return {n: c for n, c in zip(names, cols) if n}
        lp = getattr(lp, '_parent', None)
    return {}


def field_role(prog, fn, expr, at_node):
    """The index column an expression stands for: attribute name of a row object (`meta.offset` -> 'offset') or the column a loop
    variable was unpacked from; None if unknown."""
    if isinstance(expr, ast.Attribute):
        return expr.attr
    if isinstance(expr, ast.Name):
        return row_column_of(prog, fn, at_node).get(expr.id)
    return None


FORWARD_EXCEPTIONS = {
    ('container:Container.pack_all_loose', 'container:Container._write_data_to_packfile', 'compress'): 'pack_all_loose decides per object (CompressMode) and passes that decision',
    ('container:Container.add_streamed_object_to_pack', 'container:Container.add_streamed_objects_to_pack', 'callback'): 'the single-object wrapper reports progress through its own CallbackStreamWrapper',
    ('container:Container.import_objects', 'container:Container.add_objects_to_pack', 'callback'): 'import reports its own progress; only the final flush renames the callback',
    ('container:Container.import_objects', 'container:Container.add_streamed_object_to_pack', 'callback'): 'import reports its own progress',
}


def option_forwarding(ctx, chk, rule, options, S=None):
    """Every method of Container that has one of `options` among its parameters and calls another method that also has it must pass it on
    as an expression of its own parameter (never drop it -- the callee's default would silently win -- and never replace it by a constant)."""
    S = S or Summaries(ctx)
    K = ctx.kinds
    n_sites = 0
    bad = []
    for f in ctx.prog.all_functions():
        if isinstance(f.node, ast.Lambda) or f.cls is not K.container:
            continue
        for n, cal, effs in S.calls(f):
            if cal is None or cal.kind != 'internal' or isinstance(cal.target.node, ast.Lambda):
                continue
            g = cal.target
            common = [p_ for p_ in options if p_ in f.params and p_ in g.params]
            if not common:
                continue
            kws = {k.arg: k.value for k in n.keywords}
            gp = [p_ for p_ in g.params if p_ not in ('self', 'cls')]
            pos = {gp[i]: a for i, a in enumerate(n.args) if i < len(gp)}
            for p_ in common:
                n_sites += 1
                if (f.qualname, g.qualname, p_) in FORWARD_EXCEPTIONS:
                    continue
                v = kws.get(p_, pos.get(p_))
                if v is None:
                    bad.append((f, n, f'`{p_}` is not passed to {g.qualname.split(".")[-1]}(): the callee\'s default silently replaces what the caller of {f.name}() asked for'))
                elif p_ not in {x.id for x in ast.walk(v) if isinstance(x, ast.Name)}:
                    bad.append((f, n, f'`{p_}={norm(v)}` is passed to {g.qualname.split(".")[-1]}() instead of the caller\'s own `{p_}`'))
    for f, n, msg in bad:
        chk.bad(rule, f.qualname, norm(n)[:100], msg, where=f'{f.module.relpath}:{n.lineno}')
    if not bad:
        chk.ok(rule, '<Container>', f'{n_sites} forwarding site(s) of {sorted(options)}', detail='every wrapper passes the option on as its own parameter', evals=max(n_sites, 1))
    return n_sites


def no_memoised_configuration(ctx, chk, rule, S=None):
    """The configuration accessors (hash type, prefix length, compression algorithm, pack size target) and whatever they call are not memoised by a
    decorator: a handle that is re-initialised in place (init_container(clear=True)) must see the new configuration."""
    S = S or Summaries(ctx)
    memo = memoised_external_readers(ctx, S)
    cont = ctx.kinds.container
    bad = [(f, d) for f, d in memo if f.cls is cont or f.module is cont.module]
    # also decorators on the accessors themselves even if they only read the cached dict
    for name in ('hash_type', 'loose_prefix_len', 'pack_size_target', 'compression_algorithm', 'container_id', '_get_repository_config'):
        f = cont.methods.get(name)
        if f is None:
            continue
        for d in f.node.decorator_list:
            base = d.func if isinstance(d, ast.Call) else d
            if norm(base).split('.')[-1] in CACHE_DECORATORS and (f, norm(d)) not in bad:
                bad.append((f, norm(d)))
    for f, d in bad:
        chk.bad(rule, f.qualname, f'@{d}', 'a configuration accessor is memoised: after init_container(clear=True) with other settings the same handle keeps hashing / naming / compressing with the old '
                'configuration, so keys and file names no longer match what config.json declares', where=f'{f.module.relpath}:{f.lineno}')
    if not bad:
        chk.ok(rule, cont.qualname, 'configuration accessors', detail='plain properties over the configuration dict that init_container(clear) resets', nontrivial=False)


class SessionStableMachine:
    """A local that holds the operation session must not be used after the cached session was reset (closed and dropped) -- e.g. by a helper called in
    between: the statements would go to a closed session object while the handle's cache already holds another one, whose snapshot predates them.
    State = (live, stale): (frame id, name) pairs."""
    rule = 'RULE'
    edge_kinds = ('n',)

    def __init__(self, ctx, rule):
        self.K, self.E = ctx.kinds, ctx.effects
        self.rule = rule
        self.binds = 0
        self.resets = 0

    def initial(self, g):
        return [(frozenset(), frozenset())]

    def edge_ok(self, edge, state, node, g):
        return True

    def edge_state(self, edge, state, node, g):
        return state

    def at_exit(self, node, state, g):
        return []

    def transfer(self, node, st, g):
        from ..solver import Violation
        live, stale = st
        viol = []
        a = node.ast
        if node.kind == 'stmt' and isinstance(a, (ast.Assign, ast.AnnAssign)):
            tgt = a.targets[0] if isinstance(a, ast.Assign) and len(a.targets) == 1 else getattr(a, 'target', None)
            if isinstance(tgt, ast.Name):
                key = (node.frame.id, tgt.id)
                v = a.value
                if isinstance(v, ast.Call) and norm(v.func).endswith('_get_operation_session'):
                    live = live | {key}
                    stale = stale - {key}
                    self.binds += 1
                else:
                    live, stale = live - {key}, stale - {key}
        for e in self.E.of(node):
            if e[0] == 'SESSION_RESET' and e[1] == 'op':
                self.resets += 1
                stale = stale | live
                live = frozenset()
        if node.kind == 'call' and node.callee is not None and node.callee.kind == 'method' and isinstance(node.callee.recv, ast.Name) \
                and node.callee.name in ('execute', 'scalar', 'scalars', 'commit', 'bulk_update_mappings', 'bulk_insert_mappings', 'add', 'add_all', 'delete', 'flush'):
            key = (node.frame.id, node.callee.recv.id)
            if key in stale:
                viol.append(Violation(self.rule, node, st, f'`{node.callee.recv.id}` was obtained before the cached operation session was reset (closed) and is used again afterwards: these statements run on a '
                                      'closed session object while the handle already caches a new one whose snapshot predates them -- later reads through the handle miss these writes, later writes hit "database is locked"'))
        return [(live, stale)] + viol


def session_stability(ctx, chk, rule, entries=None):
    from ..cfg import Policy
    from ..solver import run as solve
    K = ctx.kinds
    cont = K.container
    S = Summaries(ctx)
    n = 0
    bad = False
    for name, f in sorted(cont.methods.items()):
        if f.is_overload or (entries is not None and f.qualname not in entries):
            continue
        own = {e[0] for nn, cal, effs in S.calls(f) for e in effs}
        if not own & {'DB_QUERY', 'DB_INSERT', 'DB_UPDATE', 'DB_DELETE', 'DB_COMMIT'}:
            continue
        g = ctx.icfg(f.qualname, {}, Policy(depth=3, stop={'container:Container._get_objects_stream_meta_generator'} if f.name != '_get_objects_stream_meta_generator' else ()), key='sess3')
        m = SessionStableMachine(ctx, rule)
        viols, st = solve(g, m)
        chk.crash_points += st['pairs']
        n += 1
        for v in viols:
            bad = True
            chk.bad(rule, f.qualname, v.node.text(100), v.msg, where=v.node.where, witness=v.witness)
    # closed table of the places where the cached operation session is dropped: each of them discards whatever the handle staged without committing
    # (do_commit=False) and moves the snapshot; a new site has to be reviewed against the operations that may be in flight on the same handle
    RESET_SITES = {
        'container:Container._close_operation_session': {'container:Container._get_objects_stream_meta_generator': 'read fallback: a key was in neither form, look again on a new snapshot',
                                                         'container:Container.list_all_objects': 'listing: snapshot must follow the loose listing',
                                                         'container:Container.close': 'explicit close'},
        'container:Container.close': {'container:Container.__del__': 'finaliser', 'container:Container.__exit__': 'context manager exit',
                                      'container:Container.clean_storage': 'maintenance: documented to run alone', 'container:Container.init_container': 'initialisation (clear)'},
    }
    cg = CallGraph(ctx, S)
    for tgt, allowed in RESET_SITES.items():
        if not ctx.prog.has_fn(tgt):
            continue
        for c in sorted(cg.callers.get(tgt, set())):
            if c not in allowed:
                bad = True
                cf_ = ctx.prog.fn(c)
                chk.bad(rule, c, f'call of {tgt.split(".")[-1]}()', f'`{c.split(".")[-1]}` drops the cached operation session, which is not one of the reviewed sites ({sorted(x.split(".")[-1] for x in allowed)}): '
                        'rows staged on this handle with do_commit=False are rolled back, and an operation that holds the old session in a local (packing, repacking) goes on writing to a closed session',
                        where=f'{cf_.module.relpath}:{cf_.lineno}')
    chk.require(n >= 6, f'expected >= 6 Container methods that use the operation session, found {n}')
    if not bad:
        chk.ok(rule, cont.qualname, f'{n} method(s) using the operation session', detail='no use of a session local after the cached session was reset (helpers called in between included, inlined to depth 3)', evals=n)


def loose_write_ownership(ctx, chk, rule, why='loose objects must only appear by atomic rename of a complete sandbox file'):
    """Ownership scan over every function of the package: nobody opens a path under loose/ for writing or writes one in place."""
    prog, K = ctx.prog, ctx.kinds
    nscan = 0
    nbad = 0
    for f in prog.all_functions():
        if isinstance(f.node, ast.Lambda):
            continue
        fr = K.top_frame(f)
        for n in walk_local(f.node):
            if not isinstance(n, ast.Call):
                continue
            cal = K.resolve_call(n, fr)
            if cal.kind == 'external' and cal.target in ('builtins.open', 'io.open'):
                hk = K.kind(n, fr)
                nscan += 1
                if hk[0] == 'handle' and any(c in (hk[2] or '') for c in 'wax+') and ('loose' in areas(K, hk[1])):
                    nbad += 1
                    chk.bad(rule, f.qualname, norm(n), 'a file under loose/ is opened for writing: ' + why, where=f'{f.module.relpath}:{n.lineno}')
            elif cal.kind == 'method' and cal.name in ('write_bytes', 'write_text', 'touch', 'open'):
                rk = K.kind(cal.recv, fr)
                if 'loose' in areas(K, rk) and (cal.name != 'open' or any(c in str(K.kind(n, fr)[2:3]) for c in 'wax+')):
                    nbad += 1
                    chk.bad(rule, f.qualname, norm(n), 'a file under loose/ is written in place: ' + why, where=f'{f.module.relpath}:{n.lineno}')
            elif cal.kind == 'external' and cal.target in ('shutil.copy', 'shutil.copyfile', 'shutil.copy2', 'shutil.move') and len(n.args) >= 2:
                dk = K.kind(n.args[1], fr)
                if 'loose' in areas(K, dk):
                    nbad += 1
                    chk.bad(rule, f.qualname, norm(n), 'a file under loose/ is filled in place by a copy: ' + why, where=f'{f.module.relpath}:{n.lineno}')
    chk.require(nscan >= 10, f'expected at least 10 open() sites in the package, found {nscan}')
    if not nbad:
        chk.ok(rule, '<package>', f'{nscan} open() sites classified', detail='none opens a path under loose/ for writing', evals=nscan)
    return nbad


def pack_writing_entries(ctx, S=None):
    """Container methods that take `do_fsync` and (transitively) stage index rows: the entry points of the pack writers.  A method that merely
    carries a `do_fsync` flag for the loose path (no INSERT reachable) is not one of them."""
    S = S or Summaries(ctx)
    out = []
    for f in ctx.prog.all_functions():
        if f.cls is not ctx.kinds.container or 'do_fsync' not in f.params or isinstance(f.node, ast.Lambda):
            continue
        reach = reachable_functions(ctx, S, f)
        if any(e[0] == 'DB_INSERT' for g in reach.values() for n, cal, effs in S.calls(g) for e in effs):
            out.append(f.qualname)
    return sorted(out)


def session_lifecycle(ctx, chk, rule):
    """Premise of every "refresh the session" rule: dropping the cached operation session really ends its transaction, and the next one is a new
    session on the index.  (a) the only non-None value ever stored in `_operation_session` is the result of database.get_session(index path);
    (b) in `_close_operation_session` the session's close() sits on every path to the `= None` (guarded only by the `is not None` test)."""
    prog, K = ctx.prog, ctx.kinds
    cont = K.container
    news, resets = [], []
    for f in prog.all_functions():
        if isinstance(f.node, ast.Lambda) or f.cls is not cont:
            continue
        for n in walk_local(f.node):
            if isinstance(n, (ast.Assign, ast.AnnAssign)):
                tgts = n.targets if isinstance(n, ast.Assign) else [n.target]
                for t in tgts:
                    for tt in (t.elts if isinstance(t, (ast.Tuple, ast.List)) else [t]):
                        if isinstance(tt, ast.Attribute) and tt.attr == '_operation_session':
                            v = n.value
                            if isinstance(v, ast.Constant) and v.value is None:
                                resets.append((f, n))
                            elif v is not None:
                                news.append((f, n))
            elif isinstance(n, ast.Call) and norm(n.func) == 'setattr' and n.args and isinstance(n.args[1] if len(n.args) > 1 else None, ast.Constant) and n.args[1].value == '_operation_session':
                news.append((f, n))
    chk.require(news and resets, 'no assignment of the cached operation session found')
    bad = False
    for f, n in news:
        v = getattr(n, 'value', None)
        ok = False
        if isinstance(v, ast.Call):
            cal = K.resolve_call(v, K.top_frame(f))
            ok = cal.kind == 'internal' and cal.target.qualname == 'database:get_session' and v.args and 'index' in areas(K, K.kind(v.args[0], K.top_frame(f)))
        if not ok:
            bad = True
            chk.bad(rule, f.qualname, norm(n)[:100], 'the cached operation session is bound to something other than a new session from get_session(<index path>): if it aliases a longer-lived session '
                    '(e.g. the one kept from init_container), "close and re-open" returns the same connection with the same pinned snapshot, and objects packed and cleaned through another handle stay invisible',
                    where=f'{f.module.relpath}:{n.lineno}')
    for f, n in resets:
        if f.name == '__init__':
            continue  # initialisation of the attribute: nothing to close yet
        closes = [c for c in walk_local(f.node) if isinstance(c, ast.Call) and isinstance(c.func, ast.Attribute) and c.func.attr == 'close' and norm(c.func.value).endswith('_operation_session')]
        dom = False
        for c in closes:
            st = c
            while not isinstance(st, ast.stmt):
                st = st._parent
            # st must be a direct member of a block that also (transitively) contains n, earlier in that block
            blk_owner = st._parent
            for field in ('body', 'orelse', 'finalbody'):
                blk = getattr(blk_owner, field, None)
                if isinstance(blk, list) and st in blk:
                    i = blk.index(st)
                    for later in blk[i + 1:]:
                        if later is n or any(x is n for x in ast.walk(later)):
                            dom = True
        if not dom:
            bad = True
            chk.bad(rule, f.qualname, norm(n), 'the cached operation session is dropped without being closed on every path: its read transaction (and pinned snapshot / write lock) lives on in the orphaned object',
                    where=f'{f.module.relpath}:{n.lineno}')
    if not bad:
        chk.ok(rule, cont.qualname, f'{len(news)} binding(s), {len(resets)} reset(s) of the cached session', detail='bound only to get_session(index path); closed before every reset')


ONE_SHOT_BUILTINS = {'iter', 'map', 'filter', 'zip', 'enumerate', 'reversed', 'os.scandir', 'itertools.chain', 'itertools.islice', 'os.walk', 'glob.iglob'}
CONSUMERS = {'list', 'set', 'sorted', 'tuple', 'sum', 'max', 'min', 'dict', 'frozenset', 'any', 'all', 'next', 'len'}


def _returns_one_shot(prog, f, depth=0):
    """f is a generator function, or returns iter(...)/a generator expression/another one-shot function's result."""
    if f.is_generator:
        return True
    if depth > 2:
        return False
    rets = [r for r in walk_local(f.node) if isinstance(r, ast.Return) and r.value is not None]
    for r in rets:
        v = r.value
        if isinstance(v, ast.GeneratorExp):
            return True
        if isinstance(v, ast.Call) and norm(v.func) in ONE_SHOT_BUILTINS:
            return True
    return False


def one_shot_reuse(ctx, chk, rule, fns, label='operation'):
    """A local bound to a one-shot iterable (call of a generator function of the package, generator expression, iter/map/filter/zip...) is
    consumed at most once: not inside a loop that the binding precedes (it would be empty from the second iteration on), and not at two sites
    of the same path."""
    prog, K = ctx.prog, ctx.kinds
    nvars = 0
    bad = 0
    for f in fns:
        if isinstance(f.node, ast.Lambda):
            continue
        fr = K.top_frame(f)
        binds = {}
        for n in walk_local(f.node):
            if isinstance(n, ast.Assign) and len(n.targets) == 1 and isinstance(n.targets[0], ast.Name):
                v = n.value
                one = isinstance(v, ast.GeneratorExp)
                if isinstance(v, ast.Call):
                    if norm(v.func) in ONE_SHOT_BUILTINS:
                        one = True
                    else:
                        try:
                            cal = K.resolve_call(v, fr)
                        except Exception:
                            cal = None
                        if cal is not None and cal.kind == 'internal' and _returns_one_shot(prog, cal.target):
                            one = True
                binds.setdefault(n.targets[0].id, []).append((n, one))
        for name, bl in binds.items():
            if not all(one for _, one in bl):
                continue  # also bound to something re-iterable somewhere: undecided, skip
            nvars += 1
            uses = []
            for n in walk_local(f.node):
                if isinstance(n, ast.Name) and n.id == name and isinstance(n.ctx, ast.Load):
                    par = getattr(n, '_parent', None)
                    consuming = False
                    if isinstance(par, (ast.For, ast.comprehension)) and par.iter is n:
                        consuming = True
                    elif isinstance(par, ast.Call) and n in par.args and norm(par.func) not in ('next', 'itertools.islice', 'islice', 'isinstance', 'id', 'type', 'bool', 'iter'):
                        consuming = True   # handed to a function: assume it iterates it (next()/islice() advance it step by step: the intended use)
                    elif isinstance(par, ast.Compare) and n in par.comparators and any(isinstance(o, (ast.In, ast.NotIn)) for o in par.ops):
                        consuming = True
                    elif isinstance(par, ast.Starred):
                        consuming = True
                    elif isinstance(par, (ast.YieldFrom,)):
                        consuming = True
                    if consuming:
                        uses.append(n)
            for u in uses:
                # innermost enclosing loop / comprehension of the use that does not contain a (re)binding of the name
                a = getattr(u, '_parent', None)
                child = u
                hit = None
                while a is not None and a is not f.node:
                    in_body = False
                    if isinstance(a, (ast.For, ast.While)):
                        in_body = any(child is x or any(child is y for y in ast.walk(x)) for x in a.body + a.orelse) or (isinstance(a, ast.While) and (child is a.test or any(child is y for y in ast.walk(a.test))))
                    elif isinstance(a, (ast.ListComp, ast.SetComp, ast.DictComp, ast.GeneratorExp)):
                        # evaluated once per element of the comprehension unless it is the first iterable
                        in_body = not (a.generators and (a.generators[0].iter is child or any(child is y for y in ast.walk(a.generators[0].iter))))
                    if in_body and not any(b is x or any(b is y for y in ast.walk(x)) for b, _ in bl for x in ([a] if not isinstance(a, (ast.For, ast.While)) else a.body + a.orelse)):
                        hit = a
                        break
                    child = a
                    a = getattr(a, '_parent', None)
                if hit is not None:
                    bad += 1
                    chk.bad(rule, f.qualname, f'`{name}` consumed at line {u.lineno} inside the loop at line {hit.lineno}', f'`{name}` is a one-shot iterable (generator) bound once before the loop at line '
                            f'{hit.lineno} but consumed in every iteration: from the second iteration on it is empty, so the {label} silently handles only the first element correctly',
                            where=f'{f.module.relpath}:{u.lineno}')
            if len(uses) >= 2 and not bad:
                # two consumptions on one path (not in different arms of the same if)
                def arms(n):
                    out = []
                    a, child = getattr(n, '_parent', None), n
                    while a is not None and a is not f.node:
                        if isinstance(a, ast.If):
                            out.append((id(a), 'body' if any(child is x or any(child is y for y in ast.walk(x)) for x in a.body) else 'orelse'))
                        child, a = a, getattr(a, '_parent', None)
                    return dict(out)
                for i in range(len(uses)):
                    for j in range(i + 1, len(uses)):
                        ai, aj = arms(uses[i]), arms(uses[j])
                        if any(k in aj and aj[k] != v for k, v in ai.items()):
                            continue
                        # a rebinding between the two uses resets the iterable
                        if any(uses[i].lineno < b.lineno <= uses[j].lineno for b, _ in bl):
                            continue
                        bad += 1
                        chk.bad(rule, f.qualname, f'`{name}` consumed at lines {uses[i].lineno} and {uses[j].lineno}', f'`{name}` is a one-shot iterable (generator) consumed twice on the same path: the '
                                f'second consumer sees nothing', where=f'{f.module.relpath}:{uses[j].lineno}')
    if not bad:
        chk.ok(rule, '<functions>', f'{nvars} local(s) bound to one-shot iterables in {len(fns)} function(s)', detail='each consumed once, never inside a loop the binding precedes', evals=nvars)
    return nvars


LAZY_WRAPPERS = {'iter', 'enumerate', 'zip', 'map', 'filter', 'reversed', 'chunk_iterator', 'itertools.chain', 'itertools.islice', 'yield_first_element', 'merge_sorted', 'detect_where_sorted'}
SIZE_MUTATORS = {'add', 'remove', 'discard', 'pop', 'clear', 'update', 'difference_update', 'intersection_update', 'symmetric_difference_update', 'append', 'extend', 'insert',
                 'popitem', 'setdefault', 'sort', 'reverse'}


def mutation_during_iteration(ctx, chk, rule, fns):
    """No for-loop changes the size of the collection it is (lazily) iterating over: `for x in S` / `for c in chunk_iterator(S, n)` with `S.remove(...)`,
    `S.difference_update(...)` ... in the body raises "changed size during iteration" (sets, dicts) or skips elements (lists) -- but only once a second
    batch / element is fetched, i.e. for request sizes the tests do not reach."""
    nloops = 0
    bad = 0
    for f in fns:
        if isinstance(f.node, ast.Lambda):
            continue
        for lp in walk_local(f.node):
            if not isinstance(lp, ast.For):
                continue
            it = lp.iter
            names = set()
            stack = [it]
            while stack:
                e = stack.pop()
                if isinstance(e, ast.Name):
                    names.add(e.id)
                elif isinstance(e, ast.Call) and norm(e.func).split('.')[-1] in {w.split('.')[-1] for w in LAZY_WRAPPERS}:
                    stack.extend(e.args)
                elif isinstance(e, ast.Call) and isinstance(e.func, ast.Attribute) and e.func.attr in ('items', 'keys', 'values') and isinstance(e.func.value, ast.Name):
                    names.add(e.func.value.id)
            if not names:
                continue
            nloops += 1
            for st in lp.body:
                for n in ast.walk(st):
                    w = None
                    if isinstance(n, ast.Call) and isinstance(n.func, ast.Attribute) and isinstance(n.func.value, ast.Name) and n.func.value.id in names and n.func.attr in SIZE_MUTATORS:
                        w = n
                    elif isinstance(n, ast.Delete) and any(isinstance(t, ast.Subscript) and isinstance(t.value, ast.Name) and t.value.id in names for t in n.targets):
                        w = n
                    elif isinstance(n, ast.AugAssign) and isinstance(n.target, ast.Name) and n.target.id in names and isinstance(n.op, (ast.Sub, ast.BitOr, ast.BitAnd, ast.Add)):
                        w = n
                    if w is not None:
                        # a `break`/`return` right after the mutation ends the iteration: fine
                        bad += 1
                        chk.bad(rule, f.qualname, norm(w)[:90], f'`{norm(w)[:60]}` changes the size of a collection that the enclosing loop (line {lp.lineno}: `for ... in {norm(it)[:60]}`) is still iterating, '
                                'possibly through a lazy wrapper: fetching the next element / batch raises RuntimeError (set, dict) or skips elements (list) -- only when the request is large enough for a second batch',
                                where=f'{f.module.relpath}:{w.lineno}')
    if not bad:
        chk.ok(rule, '<functions>', f'{nloops} for-loop(s) over named collections', detail='no loop body changes the size of what the loop iterates', evals=nloops)
    return nloops


MUTABLE_MAKERS = ('list', 'dict', 'set', 'defaultdict', 'collections.defaultdict', 'OrderedDict', 'collections.OrderedDict', 'deque', 'collections.deque', 'bytearray')


def _is_mutable_literal(e):
    return isinstance(e, (ast.List, ast.Dict, ast.Set, ast.ListComp, ast.DictComp, ast.SetComp)) or (isinstance(e, ast.Call) and norm(e.func) in MUTABLE_MAKERS)


def hidden_shared_state(ctx, chk, rule):
    """What a call answers depends on the container on disk and on the handle's documented caches only -- not on state that silently survives between
    calls or is shared between handles: no mutable default argument, no mutable container as a class attribute of the package's classes, no `global`
    statement, no module-level mutable container that a function mutates."""
    prog = ctx.prog
    nfn = ncls = 0
    bad = 0
    for f in prog.all_functions():
        if isinstance(f.node, ast.Lambda):
            continue
        nfn += 1
        a = f.node.args
        for d in list(a.defaults) + [x for x in a.kw_defaults if x is not None]:
            if _is_mutable_literal(d):
                bad += 1
                chk.bad(rule, f.qualname, f'default `{norm(d)}`', 'a mutable default argument is created once and shared by every call that relies on it: what one call adds to it is seen by the next '
                        '(on any handle)', where=f'{f.module.relpath}:{f.lineno}')
        for n in walk_local(f.node):
            if isinstance(n, ast.Global):
                bad += 1
                chk.bad(rule, f.qualname, f'global {", ".join(n.names)}', 'module-level state rebound from inside a function: shared by all handles of the process', where=f'{f.module.relpath}:{n.lineno}')
    for mod in prog.modules.values():
        modmut = {}
        for st in mod.tree.body:
            if isinstance(st, (ast.Assign, ast.AnnAssign)) and st.value is not None and _is_mutable_literal(st.value):
                for t in (st.targets if isinstance(st, ast.Assign) else [st.target]):
                    if isinstance(t, ast.Name) and t.id != '__all__':
                        modmut[t.id] = st
            if isinstance(st, ast.ClassDef):
                ncls += 1
                for cs in st.body:
                    if isinstance(cs, (ast.Assign, ast.AnnAssign)) and cs.value is not None and _is_mutable_literal(cs.value):
                        bad += 1
                        chk.bad(rule, f'{mod.name}:{st.name}', norm(cs)[:80], 'a mutable container as a class attribute is one object shared by all instances (all handles, all streams): per-handle state leaks '
                                'from one container / object to another', where=f'{mod.relpath}:{cs.lineno}')
        if modmut:
            for f in prog.all_functions():
                if isinstance(f.node, ast.Lambda) or f.module is not mod:
                    continue
                for n in walk_local(f.node):
                    nm = None
                    if isinstance(n, ast.Call) and isinstance(n.func, ast.Attribute) and isinstance(n.func.value, ast.Name) and n.func.value.id in modmut and n.func.attr in SIZE_MUTATORS:
                        nm = n.func.value.id
                    elif isinstance(n, (ast.Assign, ast.AugAssign)):
                        for t in (n.targets if isinstance(n, ast.Assign) else [n.target]):
                            if isinstance(t, ast.Subscript) and isinstance(t.value, ast.Name) and t.value.id in modmut:
                                nm = t.value.id
                    if nm is not None and nm not in {x for x in f.params} and not any(isinstance(x, ast.Name) and x.id == nm and isinstance(x.ctx, ast.Store) for x in walk_local(f.node)):
                        bad += 1
                        chk.bad(rule, f.qualname, norm(n)[:80], f'the module-level container `{nm}` is modified from inside a function: a process-wide cache shared by all handles and never invalidated',
                                where=f'{mod.relpath}:{n.lineno}')
    if not bad:
        chk.ok(rule, '<package>', f'{nfn} function(s), {ncls} class(es)', detail='no mutable default, no mutable class attribute, no global statement, no mutated module-level container', evals=nfn + ncls)


def accumulators_grow_only(ctx, chk, rule, sites):
    """Per-pack accumulators (`defaultdict(list)`) of the lookup code are only ever grown element-wise: a batch, a page or the other lookup strategy never
    replaces what an earlier one found for the same pack (dict.update / item assignment keep only the last group per key), and no entry is dropped again
    (pop / del / clear: index rows that exist would be reported as missing objects)."""
    prog = ctx.prog
    for q in sites:
        fn0 = prog.fn(q)
        accs = {n.targets[0].id for n in walk_local(fn0.node) if isinstance(n, ast.Assign) and len(n.targets) == 1 and isinstance(n.targets[0], ast.Name)
                and isinstance(n.value, ast.Call) and norm(n.value.func).split('.')[-1] == 'defaultdict' and n.value.args and norm(n.value.args[0]) in ('list', 'set')}
        for n in walk_local(fn0.node):
            w = None
            drop = False
            if isinstance(n, ast.Call) and isinstance(n.func, ast.Attribute) and isinstance(n.func.value, ast.Name) and n.func.value.id in accs:
                if n.func.attr in ('update', 'setdefault', '__setitem__'):
                    w = n
                elif n.func.attr in ('pop', 'popitem', 'clear', '__delitem__'):
                    w, drop = n, True
            elif isinstance(n, ast.Assign) and any(isinstance(t, ast.Subscript) and isinstance(t.value, ast.Name) and t.value.id in accs for t in n.targets):
                w = n
            elif isinstance(n, ast.Delete) and any(isinstance(t, ast.Subscript) and isinstance(t.value, ast.Name) and t.value.id in accs for t in n.targets):
                w, drop = n, True
            if w is not None and drop:
                chk.bad(rule, q, norm(w)[:100], 'index rows that the lookup found are dropped again before they are served: the objects they describe exist (e.g. rows that point at the scratch pack of an '
                        'interrupted repack, whose bytes are intact) but are reported as missing instead of being read or failing loudly', where=f'{fn0.module.relpath}:{w.lineno}')
            elif w is not None:
                chk.bad(rule, q, norm(w)[:100], 'a per-pack accumulator is filled by replacing whole entries (dict.update / item assignment) instead of appending rows: when the rows of one pack arrive in '
                        'more than one group (several IN batches, several pages) only the last group survives, so objects that single-key calls find are reported missing by the bulk call',
                        where=f'{fn0.module.relpath}:{w.lineno}')


def listing_not_cached(ctx, chk, rule):
    """`_list_loose` / `_list_packs` enumerate the directories on every call: whatever they yield derives from an os.listdir / os.scandir made in the same call,
    never from state kept on the handle (a cached listing validated by mtime misses files created within the same timestamp tick)."""
    prog, K = ctx.prog, ctx.kinds
    for name in ('_list_loose', '_list_packs'):
        f = K.container.methods.get(name)
        chk.require(f is not None, f'Container.{name} not found')
        reach = [f]
        for c in walk_local(f.node):
            if isinstance(c, ast.Call) and isinstance(c.func, ast.Attribute) and norm(c.func.value) == 'self' and c.func.attr in K.container.methods and K.container.methods[c.func.attr] not in reach:
                reach.append(K.container.methods[c.func.attr])
        bad = None
        for g in reach:
            if g.name.startswith('_get_') or g.name.startswith('_is_valid') or g.is_property:
                continue
            for n in walk_local(g.node):
                # reads or writes of handle state other than configuration / path helpers
                if isinstance(n, ast.Attribute) and isinstance(n.value, ast.Name) and n.value.id == 'self':
                    par = getattr(n, '_parent', None)
                    is_call = isinstance(par, ast.Call) and par.func is n
                    if is_call:
                        continue
                    if n.attr in ('loose_prefix_len', 'hash_type', 'pack_size_target', 'compression_algorithm') or n.attr.isupper() or n.attr.startswith('_REPACK'):
                        continue
                    bad = bad or (g, n)
        if bad is not None:
            chk.bad(rule, f.qualname, norm(bad[1]), f'the directory listing consults `{norm(bad[1])}`, state kept on the handle: a listing remembered from an earlier call (even if re-validated by the '
                    'folder\'s mtime) misses files that another handle created since -- within the same timestamp tick the mtime does not change', where=f'{bad[0].module.relpath}:{bad[1].lineno}')
        else:
            chk.ok(rule, f.qualname, 'os.listdir on every call', detail='no handle state consulted besides the configuration and path helpers', nontrivial=False)


CONNECTION_MAKERS = {'get_session': ('container:Container._get_operation_session', 'container:Container._get_container_session'),
                     'create_engine': ('database:get_session',), 'sqlite3.connect': ('backup_utils:_sqlite_backup',), 'sessionmaker': ('database:get_session',),
                     'Session': ()}


def single_connection_per_handle(ctx, chk, rule):
    """Who may open a connection to the index: the two cached-session accessors of the handle (and the online-backup helper).  Any other function that opens
    its own session / engine / sqlite3 connection reads a different snapshot than the handle's operation session: it does not see the rows that session has
    staged but not committed, and a write through it collides with the handle's own transaction."""
    prog = ctx.prog
    n = 0
    bad = 0
    for f in prog.all_functions():
        if isinstance(f.node, ast.Lambda):
            continue
        for c in walk_local(f.node):
            if not isinstance(c, ast.Call):
                continue
            name = norm(c.func)
            short = name.split('.')[-1]
            key = name if name in CONNECTION_MAKERS else (short if short in CONNECTION_MAKERS and name in (short, 'database.' + short, 'sqlalchemy.' + short, 'sqlalchemy.orm.' + short, 'orm.' + short) else None)
            if key is None:
                continue
            n += 1
            if f.qualname not in CONNECTION_MAKERS[key]:
                bad += 1
                chk.bad(rule, f.qualname, norm(c)[:80], f'`{f.qualname.split(":")[-1]}` opens its own connection to the index (`{name}`), outside the reviewed sites {sorted(x.split(".")[-1] for x in CONNECTION_MAKERS[key])}: '
                        'it works on another snapshot than the handle\'s operation session -- rows that session staged without committing (do_commit=False, an import in progress) are invisible to it, so e.g. '
                        'content already appended in this transaction is not recognised as known and is stored again', where=f'{f.module.relpath}:{c.lineno}')
    chk.require(n >= 4, f'expected >= 4 connection-opening calls in the package, found {n}')
    if not bad:
        chk.ok(rule, '<package>', f'{n} connection-opening call(s)', detail='only the cached-session accessors, get_session itself and the online-backup helper', evals=n)


def full_scans_unfiltered(ctx, chk, rule):
    """Every raw `SELECT ... FROM db_object ...` scan that feeds a sorted merge covers the whole index: no WHERE / LIMIT / OFFSET, ordered by hashkey, executed
    without bind parameters.  A scan narrowed to "the interesting range" silently classifies keys at the boundary as absent."""
    import re
    prog = ctx.prog
    n = 0
    bad = 0
    for f in prog.all_functions():
        if isinstance(f.node, ast.Lambda):
            continue
        for c in walk_local(f.node):
            if isinstance(c, ast.Call) and norm(c.func).split('.')[-1] == 'text' and c.args:
                from ..resolve import fold as _fold
                v = _fold(prog, c.args[0], f, {})
                if not isinstance(v, str) or not re.match(r'\s*select\b', v, re.I) or 'db_object' not in v.lower():
                    continue
                n += 1
                probs = []
                low = ' '.join(v.lower().split())
                for kw in (' where ', ' limit ', ' offset ', ' join ', ' group by ', ' distinct '):
                    if kw in low + ' ':
                        probs.append(f'it has a `{kw.strip().upper()}` clause')
                if not re.search(r'order by hashkey\s*(asc)?\s*$', low):
                    probs.append('it is not `ORDER BY hashkey` (ascending)')
                par = getattr(c, '_parent', None)
                if isinstance(par, ast.Call) and par.args and par.args[0] is c and (len(par.args) > 1 or par.keywords):
                    probs.append('it is executed with bind parameters')
                if probs:
                    bad += 1
                    chk.bad(rule, f.qualname, v[:90], 'the full scan of the index that feeds the sorted merge is narrowed: ' + '; '.join(probs) + ' -- keys outside the scanned part (e.g. the largest requested key '
                            'with a half-open range) are classified as not in the index, so existing content is written again or reported missing', where=f'{f.module.relpath}:{c.lineno}')
    chk.require(n >= 4, f'expected >= 4 raw full scans of db_object, found {n}')
    if not bad:
        chk.ok(rule, '<package>', f'{n} raw scan(s) of db_object', detail='whole table, ORDER BY hashkey, no parameters', evals=n)


# ----------------------------------------------------------------------------------------------------------------------
# local list builders: the element expressions of a list that a function builds by unconditional straight-line statements

class _Subst(ast.NodeTransformer):
    def __init__(self, name, repl):
        self.name, self.repl = name, repl

    def visit_Name(self, node):
        if node.id == self.name and isinstance(node.ctx, ast.Load):
            return ast.copy_location(copy.deepcopy(self.repl), node)
        return node


def _subst(expr, name, repl):
    return ast.fix_missing_locations(_Subst(name, repl).visit(copy.deepcopy(expr)))


def list_elements(prog, fn, expr, depth=0):
    """Element expressions of the list ``expr`` evaluates to at its use site, or None when that is not decidable from the
    shape of the code.  Accepted: a list/tuple display (starred elements: a name resolved recursively, or a comprehension with one
    ``for`` over a constant sequence, unrolled); a local name built only by unconditional statements of the function body (at
    top level or directly inside ``with`` blocks): ``x = <list>``, ``x += <list>``, ``x.append(e)``, ``x.extend(<list>)`` and
    ``for v in <list>: <only such statements on x>`` (unrolled, ``v`` substituted).  Any other store or mutation of the name
    (a conditional one, a del, a slice assignment, passing it to a mutating method we do not model) makes the answer None."""
    if depth > 4:
        return None
    if isinstance(expr, (ast.List, ast.Tuple)):
        out = []
        for el in expr.elts:
            if not isinstance(el, ast.Starred):
                out.append(el)
                continue
            v = el.value
            if isinstance(v, (ast.GeneratorExp, ast.ListComp)) and len(v.generators) == 1 and not v.generators[0].ifs \
                    and isinstance(v.generators[0].target, ast.Name) and not v.generators[0].is_async:
                seq = list_elements(prog, fn, v.generators[0].iter, depth + 1)
                if seq is None:
                    sv = fold(prog, v.generators[0].iter, fn, {})
                    if not isinstance(sv, (list, tuple)) or not all(isinstance(c, (str, int, bytes)) for c in sv):
                        return None
                    seq = [ast.Constant(value=c) for c in sv]
                out.extend(_subst(v.elt, v.generators[0].target.id, s) for s in seq)
                continue
            sub = list_elements(prog, fn, v, depth + 1)
            if sub is None:
                return None
            out.extend(sub)
        return out
    if not isinstance(expr, ast.Name) or fn is None or isinstance(fn.node, ast.Lambda):
        return None
    name = expr.id

    def straight(body):
        for st in body:
            if isinstance(st, (ast.With, ast.AsyncWith)):
                yield from straight(st.body)
            else:
                yield st

    def mutation(st, cur):
        """Apply one statement to the current element list; returns (handled, new list or None on undecidable)."""
        if isinstance(st, ast.AnnAssign) and isinstance(st.target, ast.Name) and st.target.id == name:
            if st.value is None:
                return True, cur
            return True, list_elements(prog, fn, st.value, depth + 1)
        if isinstance(st, ast.Assign) and any(_binds(t, name) for t in st.targets):
            if len(st.targets) != 1 or not isinstance(st.targets[0], ast.Name):
                return True, None
            return True, list_elements(prog, fn, st.value, depth + 1)
        if isinstance(st, ast.AugAssign) and isinstance(st.target, ast.Name) and st.target.id == name:
            add = list_elements(prog, fn, st.value, depth + 1) if isinstance(st.op, ast.Add) else None
            return True, (None if add is None or cur is None else cur + add)
        if isinstance(st, ast.Expr) and isinstance(st.value, ast.Call) and isinstance(st.value.func, ast.Attribute) \
                and isinstance(st.value.func.value, ast.Name) and st.value.func.value.id == name:
            c = st.value
            if c.func.attr == 'append' and len(c.args) == 1 and not c.keywords and not isinstance(c.args[0], ast.Starred):
                return True, (None if cur is None else cur + [c.args[0]])
            if c.func.attr == 'extend' and len(c.args) == 1 and not c.keywords:
                add = list_elements(prog, fn, c.args[0], depth + 1)
                return True, (None if add is None or cur is None else cur + add)
            return True, None
        return False, cur

    def mentions_store(node):
        for n in ast.walk(node):
            if isinstance(n, ast.Name) and n.id == name and isinstance(n.ctx, (ast.Store, ast.Del)):
                return True
            if isinstance(n, ast.Attribute) and isinstance(n.value, ast.Name) and n.value.id == name \
                    and n.attr in ('append', 'extend', 'insert', 'pop', 'remove', 'clear', 'sort', 'reverse', '__setitem__', '__iadd__'):
                return True
            if isinstance(n, (ast.Subscript,)) and isinstance(n.ctx, (ast.Store, ast.Del)) and isinstance(n.value, ast.Name) and n.value.id == name:
                return True
        return False

    if name in {a.arg for a in fn.node.args.args + fn.node.args.kwonlyargs + fn.node.args.posonlyargs}:
        return None
    cur = None
    seen_def = False
    for st in straight(fn.node.body):
        if st.lineno > getattr(expr, 'lineno', 10 ** 9):
            break
        handled, new = mutation(st, cur)
        if handled:
            if new is None:
                return None
            cur, seen_def = new, True
            continue
        if isinstance(st, ast.For) and not st.orelse and isinstance(st.target, ast.Name) and mentions_store(st):
            seq = list_elements(prog, fn, st.iter, depth + 1)
            if seq is None or cur is None:
                return None
            for s in seq:
                for inner in st.body:
                    h, new = mutation(inner, cur)
                    if not h or new is None:
                        return None
                    cur = new
                cur = [(_subst(e, st.target.id, s) if any(isinstance(n, ast.Name) and n.id == st.target.id for n in ast.walk(e)) else e) for e in cur]
            continue
        if mentions_store(st):
            return None
    return cur if seen_def else None
