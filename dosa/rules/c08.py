"""C08 -- a long-open handle sees everything acknowledged through other handles (DESIGN 5, C08)."""
from __future__ import annotations

import ast

from ..loader import norm, walk_local
from ..report import Check
from ..solver import Machine, Violation
from ..solver import run as solve
from .c04 import clean_sites
from .c05 import CleanMachine
from .common import MUTATING, Summaries, in_area, sess_edge, sess_effect, write_policy
from .funnel import FUNNEL, FunnelMachine, funnel_policy

# Views that are statistics, outside C08's enumerated views ("existence checks, reads, metadata and listings"); one
# line of reason each.
STATISTICS = {
    'container:Container.count_objects': 'object counts (progress / status display), not an existence or listing view',
    'container:Container.get_total_size': 'size totals (status display)',
    'container:Container.validate': 'maintenance scan of the whole container; reads the index it is asked to check',
}


class ListingMachine(Machine):
    """A view that combines a loose listing with an index scan: the scan must run on a session created since function
    entry, and that session's first statement (= the start of its snapshot) must come after the loose listing.
    State = (sess, listed, begun)."""

    def __init__(self, ctx, g, rule):
        self.K, self.E = ctx.kinds, ctx.effects
        self.rule = rule
        self.top = g.top
        self.queries = 0
        self.listings = 0

    def initial(self, g):
        return [('?', False, 'no')]

    def edge_state(self, edge, st, node, g):
        s2 = sess_edge(edge, st[0], self.K)
        return None if s2 is None else (s2, st[1], st[2])

    def transfer(self, node, st, g):
        sess, listed, begun = st
        viol = []
        for e in self.E.of(node):
            s2 = sess_effect(e, sess)
            if s2 != sess:
                sess = s2
                if sess == 'fresh':
                    begun = 'no'
            if e[0] == 'LISTDIR' and in_area(self.K, e[1], 'loose'):
                listed = True
                self.listings += 1
            elif e[0] == 'DB_QUERY' and e[1][1] == 'op':
                self.queries += 1
                if sess == 'fresh' and begun == 'no':
                    begun = 'ok' if (listed or not self.needs_listing) else 'early'
                if sess != 'fresh':
                    viol.append(Violation(self.rule, node, st, 'the index is scanned on the cached operation session without a refresh since function entry: an earlier query of '
                                          'this handle may have pinned its snapshot, so objects packed (and cleaned) by another handle since then are in neither the loose listing nor this scan'))
                elif begun == 'early':
                    viol.append(Violation(self.rule, node, st, 'the refreshed session already ran a statement before the loose listing was taken: its snapshot predates the listing, so an '
                                          'object packed and cleaned in between is in neither view'))
        return [(sess, listed, begun)] + viol

    needs_listing = True


def run(ctx, host=None):
    chk = host.sub('C08') if host is not None else Check('C08', ctx)
    prog, K, E = ctx.prog, ctx.kinds, ctx.effects
    R1 = chk.rule('C08.R1', 'read funnel: a negative answer is based on a query on a session created after the failed loose probe', 2)
    R2 = chk.rule('C08.R2', 'list_all_objects: index snapshot begins after the loose listing, on a refreshed session', 1)
    R3 = chk.rule('C08.R3', 'every public view with its own index query is covered by a freshness rule or is a tabled statistic', 3)
    R4 = chk.rule('C08.R4', 'clean_storage reloads its session before deciding what to unlink', 1)
    R5 = chk.rule('C08.R5', 'session life cycle: the cached session is always a new get_session(index) and is closed before it is dropped (premise of every refresh)', 1)
    S = Summaries(ctx)
    from .common import session_lifecycle
    session_lifecycle(ctx, chk, R5)
    from .common import single_connection_per_handle
    single_connection_per_handle(ctx, chk, R5)

    # the fallback pass serves what it finds: request = index | loose | refreshed index | MISSING, each key in exactly one class (rule shared with C02.R2)
    R6 = chk.rule('C08.R6', 'the keys recovered by the refreshed lookup are served, and only the keys still not found are reported missing (funnel partition)', 2)
    from .c02 import funnel_partition
    funnel_partition(ctx, chk, R6, 'C08.R6')
    # the loose listing a long-open handle compares with the index is taken from the file system on every call (no per-handle cache of directory listings)
    from .common import listing_not_cached
    listing_not_cached(ctx, chk, R2)

    # R1
    for ws in (True, False):
        g = ctx.icfg(FUNNEL, {'with_streams': ws, 'skip_if_missing': False}, funnel_policy(), key='funnel')
        m = FunnelMachine(ctx, g, 'C08.R1')
        viols, st = solve(g, m)
        chk.crash_points += st['pairs']
        chk.specialisations += 1
        chk.require(m.probe_sites and m.missing_sites, f'funnel(with_streams={ws}): probe / MISSING sites not found')
        for v in viols:
            chk.bad(R1, FUNNEL, v.node.text(100), v.msg + f' [with_streams={ws}]', where=v.node.where, witness=v.witness)
        if not viols:
            chk.ok(R1, FUNNEL, f'with_streams={ws}', detail=f'{len(m.missing_sites)} MISSING yield(s) all after probe -> refresh -> query')

    # R2 + R3: public views of Container with their own index queries
    cont = K.container
    nviews = 0
    for name, f in sorted(cont.methods.items()):
        if name.startswith('_') or f.is_property:
            continue
        own = S.trans(f, depth=3)
        # queries reached without going through the funnel
        own_direct = set()
        for n, cal, effs in S.calls(f):
            for e in effs:
                own_direct.add(e[0])
        if 'DB_QUERY' not in own_direct:
            continue
        if any(e[0] in MUTATING and e[0] not in ('H_FLUSH',) for e in own):
            continue  # maintenance writers (pack, repack, delete, import, add_*): covered by C05/C04 rules
        nviews += 1
        if f.qualname in STATISTICS:
            chk.ok(R3, f.qualname, 'tabled statistic', detail=STATISTICS[f.qualname], nontrivial=False)
            continue
        g = ctx.icfg(f.qualname, {}, write_policy(depth=3), key='wp3')
        m = ListingMachine(ctx, g, 'C08.R2')
        m.needs_listing = any(e[0] == 'LISTDIR' for e in own)
        viols, st = solve(g, m)
        chk.crash_points += st['pairs']
        chk.specialisations += 1
        chk.require(m.queries >= 1, f'{f.qualname}: index query not found in its ICFG')
        for v in viols:
            chk.bad(R2, f.qualname, v.node.text(120), v.msg, where=v.node.where, witness=v.witness)
        if not viols:
            chk.ok(R2 if f.name == 'list_all_objects' else R3, f.qualname, f'{m.queries} query visit(s), {m.listings} listing visit(s)',
                   detail='refresh (and loose listing) precede the first statement of the scanning session')
            if f.name == 'list_all_objects':
                chk.ok(R3, f.qualname, 'covered by R2', nontrivial=False)
    chk.require(nviews >= 3, f'expected at least 3 public views with their own index query (list_all_objects, count_objects, get_total_size, ...), found {nviews}')
    chk.require(any(r['instances'] for k, r in chk.rules.items() if k == R2), 'list_all_objects was not analysed')

    # every public key view answers through the funnel (the only place that has the refresh-and-retry fallback): shared call-graph rule of C02.R1
    from .c02 import key_views_funnel_only
    key_views_funnel_only(ctx, chk, R3, S)
    # no memoised reader of files / the index behind any public method of the container (a cached answer is a stale answer for a long-open handle)
    from .common import memoised_external_readers, reachable_functions
    memo = memoised_external_readers(ctx, S)
    pub_reach = {}
    for name, f in sorted(cont.methods.items()):
        if not name.startswith('_'):
            pub_reach.update(reachable_functions(ctx, S, f))
    badm = [(f2, d) for f2, d in memo if f2.qualname in pub_reach]
    for f2, d in badm:
        chk.bad(R3, f2.qualname, f'@{d}', 'a function that reads files or the index is memoised and reachable from the public API: a long-open handle keeps answering from the remembered result '
                'after another handle changed the container', where=f'{f2.module.relpath}:{f2.lineno}')
    if not badm:
        chk.ok(R3, '<package>', f'{len(memo)} memoised external reader(s)', detail='no caching decorator on any function that reads files / the index behind the public API', nontrivial=False)

    # R4
    q = 'container:Container.clean_storage'
    g = ctx.icfg(q, {}, write_policy(depth=5), key='wp5')
    unlinks, feeding = clean_sites(ctx, chk, g)
    m = CleanMachine(ctx, g, feeding, unlinks, rule='C08.R4')
    viols, st = solve(g, m)
    chk.crash_points += st['pairs']
    for v in viols:
        chk.bad(R4, q, v.node.text(120), v.msg, where=v.node.where, witness=v.witness)
    if not viols:
        chk.ok(R4, q, f'{len(feeding)} feeding query site(s)', detail='all after the session reload')

    # R4b: pack_all_loose too removes loose files only for keys it staged and committed itself, never on the word of an earlier (possibly stale
    # or uncommitted) index view -- otherwise objects acknowledged through other handles can vanish from every handle
    from .machines import PackMachine, explore, report_violations
    qp = 'container:Container.pack_all_loose'
    found, mp = explore(ctx, chk, qp, {}, lambda g, c: PackMachine(ctx, g, require_durable=False, rule_flush='C08.R4x', rule_durable='C08.R4x', rule_unlink='C08.R4', rule_exc='C08.R4x'),
                        write_policy(depth=5), 'wp5')
    found = [(v, c) for v, c in found if v.rule == 'C08.R4']
    report_violations(chk, qp, found)
    if not found:
        chk.ok(R4, qp, f'{len(mp.sites.tracked_unlinks)} tracked-unlink site(s)', detail='loose files unlinked only for keys staged and committed by the call itself')

    # the object found through the refresh-and-retry fallback must be handed out with the same stream semantics as on the main path: the stream rules of C07 are
    # necessary conditions here too (they cover every reader construction site of the read funnel, the fallback ones included)
    if host is None:
        from ..report import host_modules
        host_modules(chk, ctx, ['C07'])

    return chk.finish(
        explanation=('Typestate on the cached operation session (possibly-pinned at entry / none / fresh) along all paths: the read funnel answers MISSING only after '
                     'probe -> refresh -> query on the new session; list_all_objects (and any other public pure view with its own index query that is not a tabled '
                     'statistic) scans the index on a session created since entry whose first statement follows the loose listing; clean_storage decides on a reloaded session.'),
        rule_text='obligation = (view, stream mode); non-trivial = path query on the ICFG with the session abstraction',
        assumptions=['SQLite WAL: a session\'s snapshot starts at its first statement; a new session sees all earlier commits',
                     'operations are issued one at a time (sequential histories, as the property states)'],
        not_decided='histories as such; statistics views (count_objects, get_total_size) are outside the property\'s enumerated views and may lag.')
