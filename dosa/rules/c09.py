"""C09 -- storing known content never creates a second copy (DESIGN 5, C09)."""
from __future__ import annotations

import ast

from ..effects import last_assignment
from ..kinds import alts
from ..loader import norm, walk_local
from ..report import Check
from ..solver import Machine, Violation, dominates_all_paths
from ..solver import run as solve
from .common import Summaries, areas, in_area, origin, root_name, specialisations, write_policy
from .machines import PackSites, _enclosing_loop, explore, is_pack_write_handle, report_violations

DIRECT = 'container:Container.add_streamed_objects_to_pack'


def set_valued_names(fn):
    """Local names that are (possibly) sets: `x = set()` / `x = set(...)` / `x = <anything> or set()` / `x = y = set()` / a set comprehension, or a
    name that has `.add(...)` called on it and is used as the right operand of `in`."""
    out = set()

    def setlike(v):
        if isinstance(v, ast.Call) and norm(v.func) in ('set', 'frozenset'):
            return True
        if isinstance(v, (ast.Set, ast.SetComp)):
            return True
        if isinstance(v, ast.BoolOp):
            return any(setlike(x) for x in v.values)
        if isinstance(v, ast.IfExp):
            return setlike(v.body) or setlike(v.orelse)
        return False
    for n in walk_local(fn.node):
        if isinstance(n, (ast.Assign, ast.AnnAssign)):
            tgts = n.targets if isinstance(n, ast.Assign) else [n.target]
            v = n.value
            if v is not None and setlike(v):
                out.update(t.id for t in tgts if isinstance(t, ast.Name))
    adds = {n.func.value.id for n in walk_local(fn.node) if isinstance(n, ast.Call) and isinstance(n.func, ast.Attribute) and n.func.attr == 'add' and isinstance(n.func.value, ast.Name)}
    ins = {n.comparators[0].id for n in walk_local(fn.node) if isinstance(n, ast.Compare) and len(n.ops) == 1 and isinstance(n.ops[0], (ast.In, ast.NotIn)) and isinstance(n.comparators[0], ast.Name)}
    return out | (adds & ins)


class AppendHandleMachine(Machine):
    """R3: typestate of an append-mode ('a') handle.  A seek does not move where O_APPEND writes: after a SEEK the
    handle is 'rewound' until a TRUNCATE cuts the file at that position; TELL / WRITE while rewound means the position
    the code believes in is not where the bytes go."""

    def __init__(self, ctx, rule='C09.R3'):
        self.E, self.K = ctx.effects, ctx.kinds
        self.rule = rule
        self.seeks = set()
        self.truncates = set()

    def initial(self, g):
        return [('at-end',)]

    def _ap(self, h):
        return h[0] == 'handle' and 'a' in (h[2] or '') and in_area(self.K, h[1], 'packs')

    def transfer(self, node, st, g):
        s = st[0]
        viol = []
        for e in self.E.of(node):
            if e[0] == 'H_SEEK' and self._ap(e[1]):
                self.seeks.add(node.id)
                s = 'rewound'
            elif e[0] == 'H_TRUNCATE' and self._ap(e[1]):
                self.truncates.add(node.id)
                s = 'at-end'
            elif e[0] in ('H_TELL', 'H_WRITE') and self._ap(e[1]) and s == 'rewound':
                viol.append(Violation(self.rule, node, st, f'{e[0][2:].lower()}() on an append-mode pack handle after seek() without truncate(): the handle reports the '
                                      'rewound position but O_APPEND writes at the end of the file, so offsets recorded from now on are wrong'))
            elif e[0] == 'H_CLOSE' and self._ap(e[1]):
                s = 'at-end'
        return [(s,)] + viol


class IterMachine(Machine):
    """R4 (and C01.R2): per processed stream of the direct-to-pack loop: exactly one key appended to the returned list;
    a key found in the known set is not staged; a new key is staged and (with no_holes) added to the known set."""

    def __init__(self, ctx, g, rule='C09.R4', require_tested=False):
        self.require_tested = require_tested
        self.ctx = ctx
        self.K = ctx.kinds
        self.rule = rule
        self.top = g.top
        fn = g.fn
        S = PackSites(ctx, g)
        self.stage = {nid for nid, key in S.stage_nodes.items() if key[0] == g.top.id}
        self.heads = {nid for nid, fid in S.loop_heads.items() if fid == g.top.id}
        # the returned list
        rets = [n for n in walk_local(fn.node) if isinstance(n, ast.Return) and isinstance(n.value, ast.Name)]
        self.retname = rets[-1].value.id if rets else None
        self.known_names = set()
        self.pops = set()
        self.ret_appends = set()
        self.known_adds = set()
        for n in g.nodes:
            if n.frame is not g.top or n.kind != 'call' or n.callee is None or n.callee.kind != 'method' or not isinstance(n.callee.recv, ast.Name):
                continue
            nm, meth = n.callee.recv.id, n.callee.name
            if meth == 'append' and nm == self.retname:
                self.ret_appends.add(n.id)
            if meth == 'pop' and _enclosing_loop(n.ast) is not None:
                self.pops.add(n.id)
        # the known set = right operand of `X in S` tests in the loop
        for n in walk_local(fn.node):
            if isinstance(n, ast.Compare) and len(n.ops) == 1 and isinstance(n.ops[0], (ast.In, ast.NotIn)) and isinstance(n.comparators[0], ast.Name):
                if _enclosing_loop(n) is not None and 'hashkey' in norm(n.left) and n.comparators[0].id in set_valued_names(fn):
                    self.known_names.add(n.comparators[0].id)
        for n in g.nodes:
            if n.frame is g.top and n.kind == 'call' and n.callee is not None and n.callee.kind == 'method' and isinstance(n.callee.recv, ast.Name) \
                    and n.callee.recv.id in self.known_names and n.callee.name == 'add' and _enclosing_loop(n.ast) is not None \
                    and any(g.nodes[h].ast is _enclosing_loop(n.ast) for h in self.heads):
                self.known_adds.add(n.id)

    def initial(self, g):
        # (have, appends, staged, known, added)
        return [(False, 0, False, '?', False)]

    def edge_state(self, edge, st, node, g):
        c = edge.cond
        if c is not None and c[1] is self.top:
            e = c[0]
            cmp_ = None
            for x in ast.walk(e):
                if isinstance(x, ast.Compare) and len(x.ops) == 1 and isinstance(x.ops[0], (ast.In, ast.NotIn)) \
                        and isinstance(x.comparators[0], ast.Name) and x.comparators[0].id in self.known_names:
                    cmp_ = x
            if cmp_ is not None and st[0]:
                isin = c[2] if isinstance(cmp_.ops[0], ast.In) else (not c[2])
                if isinstance(e, ast.BoolOp) and isinstance(e.op, ast.And) and not c[2]:
                    # `A and (k in S)` false: something is learnt only when every other conjunct is true under this specialisation
                    from ..resolve import fold
                    others = [v for v in e.values if not any(x is cmp_ for x in ast.walk(v))]
                    if not all(fold(self.ctx.prog, o, c[1].fn, c[1].consts) is True for o in others):
                        return st
                s = list(st)
                s[3] = 'yes' if isin else 'no'
                return tuple(s)
        return st

    def _check(self, node, st):
        have, appends, staged, known, added = st
        out = []
        if have:
            if appends != 1:
                out.append(Violation(self.rule, node, st, f'a processed stream contributes {appends} keys to the returned list (exactly one required, '
                                     'also on the already-known / `continue` path)'))
            if known == 'yes' and staged:
                out.append(Violation(self.rule, node, st, 'an index row is staged for content that is already in the known set: a second referenced copy'))
            if known == '?' and staged and self.require_tested:
                out.append(Violation(self.rule, node, st, 'with no_holes an index row is staged (and the bytes stay in the pack) for content that was never tested against the set of already packed keys '
                                     'on this path: known content is appended again and left as unreferenced bytes'))
            if known == 'no' and not staged:
                out.append(Violation(self.rule, node, st, 'content not in the known set is written but no index row is staged for it'))
            if known == 'no' and staged and not added and self.known_adds:
                out.append(Violation(self.rule, node, st, 'a newly staged key is not added to the known set: a repeat of the same content later in the batch would be stored twice'))
        return out

    def transfer(self, node, st, g):
        if node.id in self.heads:
            return [(False, 0, False, '?', False)] + self._check(node, st)
        have, appends, staged, known, added = st
        if node.id in self.pops:
            have = True
        if node.id in self.ret_appends:
            appends = min(appends + 1, 2)
        if node.id in self.stage:
            staged = True
        if node.id in self.known_adds:
            added = True
        return [(have, appends, staged, known, added)]

    def at_exit(self, node, st, g):
        return self._check(node, st) if node is g.exit else []


class LooseDedupMachine(Machine):
    """R1: ObjectWriter.__exit__: an existing destination is kept only if its checksum was verified (or it vanished);
    otherwise it is replaced; an absent destination gets the new file.  State = (E, V, P)."""

    def __init__(self, ctx, g, rule='C09.R1'):
        self.E, self.K = ctx.effects, ctx.kinds
        self.rule = rule
        self.exit_frames = set()
        self.leave_nodes = set()
        for n in g.nodes:
            if n.kind == 'leave' and n.frame.fn.qualname == 'utils:ObjectWriter.__exit__':
                self.leave_nodes.add(n.id)
        self.publishes = 0
        # verification variables: locals of __exit__ assigned from an internal call that (transitively) opens a file and is given the
        # loose destination path -- identified by def-use, not by name
        from .common import Summaries
        S = Summaries(ctx)
        ex = ctx.prog.fn('utils:ObjectWriter.__exit__')
        fr = self.K.top_frame(ex)
        self.vvars = set()
        self.verifiers = {}
        for n in walk_local(ex.node):
            if isinstance(n, ast.Assign) and isinstance(n.targets[0], ast.Name) and isinstance(n.value, ast.Call):
                cal = self.K.resolve_call(n.value, fr)
                if cal is not None and cal.kind == 'internal':
                    args = list(n.value.args) + [k.value for k in n.value.keywords]
                    if any(in_area(self.K, self.K.kind(a, fr), 'loose') for a in args) and any(e[0] == 'OPEN' for e in S.trans(cal.target, depth=6)):
                        self.vvars.add(n.targets[0].id)
                        self.verifiers[cal.target.qualname] = cal.target

    def initial(self, g):
        return [('?', '?', False)]

    def edge_state(self, edge, st, node, g):
        c = edge.cond
        if c is None or c[1].fn.qualname != 'utils:ObjectWriter.__exit__':
            return st
        E, V, P = st
        e, pol = c[0], c[2]
        txt = norm(e)
        if isinstance(e, ast.Call) and isinstance(e.func, ast.Attribute) and e.func.attr == 'exists' and in_area(self.K, self.K.kind(e.func.value, c[1]), 'loose'):
            E = 'exists' if pol else 'absent'
        elif isinstance(e, ast.Compare) and len(e.ops) == 1 and ({x.id for x in ast.walk(e) if isinstance(x, ast.Name)} & self.vvars):
            if isinstance(e.ops[0], ast.Eq) and '_hashkey' in txt:
                V = 'ok' if pol else ('bad' if V != 'gone' else V)
            elif isinstance(e.ops[0], ast.NotEq) and '_hashkey' in txt:
                V = 'bad' if pol else 'ok'
            elif isinstance(e.ops[0], ast.Is) and isinstance(e.comparators[0], ast.Constant) and e.comparators[0].value is None:
                if pol:
                    V = 'gone'
        return (E, V, P)

    def transfer(self, node, st, g):
        E, V, P = st
        viol = []
        for e in self.E.of(node):
            if e[0] in ('RENAME', 'REPLACE') and 'sandbox' in areas(self.K, e[1]) and (areas(self.K, e[2]) & {'loose', 'duplicates'}):
                self.publishes += 1
                P = True
                if e[0] == 'RENAME' and E == 'exists' and 'loose' in areas(self.K, e[2]) and V == 'ok':
                    pass
        if node.id in self.leave_nodes and node.frame.consts.get(node.frame.fn.params[0] if node.frame.fn.params else '', 'x') is None:
            if E == 'exists' and V not in ('ok', 'gone') and not P:
                viol.append(Violation(self.rule, node, st, 'the writer returns with an existing loose file that was neither verified (checksum equal / vanished) nor replaced: '
                                      'a damaged loose copy would stay in place'))
            if E == 'absent' and not P:
                viol.append(Violation(self.rule, node, st, 'the writer returns without publishing the new object although the destination did not exist'))
            if E == '?' and not P:
                viol.append(Violation(self.rule, node, st, 'the writer returns without publishing and without testing whether the destination exists'))
        return [(E, V, P)] + viol


class ImportFlagsMachine(Machine):
    """import_objects: when the two containers use different hash algorithms the destination cannot know which objects
    it already holds, so every add call must run with no_holes=True and no_holes_read_twice=True (shared with C14.R3).
    Constant propagation of the local flag variables along the paths + the polarity of the hash-type comparison."""

    def __init__(self, ctx, g, rule):
        self.rule = rule
        self.top = g.top
        self.calls = {}
        for n in g.nodes:
            if n.frame is g.top and n.kind in ('enter', 'call') and isinstance(n.ast, ast.Call) and n.callee is not None \
                    and n.callee.kind == 'internal' and 'no_holes' in n.callee.target.params:
                kws = {kw.arg: kw.value for kw in n.ast.keywords}
                self.calls[n.id] = (kws.get('no_holes'), kws.get('no_holes_read_twice'))
        self.names = {x.id for a, b in self.calls.values() for x in (a, b) if isinstance(x, ast.Name)}

    def initial(self, g):
        return [('?', frozenset())]

    def edge_state(self, edge, st, node, g):
        c = edge.cond
        if c is not None and c[1] is self.top and isinstance(c[0], ast.Compare) and len(c[0].ops) == 1 \
                and isinstance(c[0].ops[0], (ast.Eq, ast.NotEq)) and norm(c[0]).count('hash_type') == 2:
            same = c[2] if isinstance(c[0].ops[0], ast.Eq) else not c[2]
            return ('same' if same else 'different', st[1])
        return st

    def transfer(self, node, st, g):
        same, env = st
        viol = []
        if node.frame is self.top and node.kind == 'stmt' and isinstance(node.ast, ast.Assign) and len(node.ast.targets) == 1 \
                and isinstance(node.ast.targets[0], ast.Name) and node.ast.targets[0].id in self.names:
            nm = node.ast.targets[0].id
            val = node.ast.value.value if isinstance(node.ast.value, ast.Constant) else '?'
            env = frozenset(x for x in env if x[0] != nm) | {(nm, val)}
        if node.id in self.calls and same == 'different':
            d = dict(env)
            for label, x in zip(('no_holes', 'no_holes_read_twice'), self.calls[node.id]):
                v = x.value if isinstance(x, ast.Constant) else (d.get(x.id, '?') if isinstance(x, ast.Name) else ('?' if x is not None else 'default'))
                if v is not True:
                    viol.append(Violation(self.rule, node, st, f'with different hash algorithms {node.callee.target.name}() is called with {label}={v!r}: content the destination '
                                          'already holds is written to the pack again (unreferenced bytes / second copy)'))
        return [(same, env)] + viol


def import_flags(ctx, chk, rule):
    q = 'container:Container.import_objects'
    g = ctx.icfg(q, {}, write_policy(depth=1), key='wp1')
    m = ImportFlagsMachine(ctx, g, rule)
    chk.require(len(m.calls) >= 3, f'import_objects: expected 3 add-to-pack call sites with no_holes flags, found {len(m.calls)}')
    viols, st = solve(g, m)
    chk.crash_points += st['pairs']
    chk.specialisations += 1
    for v in viols:
        chk.bad(rule, q, v.node.text(140), v.msg, where=v.node.where, witness=v.witness)
    if not viols:
        chk.ok(rule, q, f'{len(m.calls)} add call sites', detail='different hash types => no_holes=True and no_holes_read_twice=True at every add call')


def known_set_accumulation(ctx, chk, rule):
    """The set of already-packed keys used by no_holes must be accumulated over *all* pages of the index listing."""
    prog = ctx.prog
    fn = prog.fn(DIRECT)
    known = set()
    for n in walk_local(fn.node):
        if isinstance(n, ast.Compare) and len(n.ops) == 1 and isinstance(n.ops[0], (ast.In, ast.NotIn)) and isinstance(n.comparators[0], ast.Name) \
                and _enclosing_loop(n) is not None and 'hashkey' in norm(n.left) and n.comparators[0].id in set_valued_names(fn):
            known.add(n.comparators[0].id)
    chk.require(known, f'{DIRECT}: known-keys set not found')
    CONFIG = ('hash_type', 'loose_prefix_len', 'pack_size_target', 'compression_algorithm')

    def handle_state(e):
        called = {id(c.func) for c in ast.walk(e) if isinstance(c, ast.Call)}
        out = [x for x in ast.walk(e) if isinstance(x, ast.Attribute) and isinstance(x.value, ast.Name) and x.value.id == 'self' and id(x) not in called
               and not x.attr.isupper() and not x.attr.startswith('_MAX') and not x.attr.startswith('_IN_SQL') and x.attr not in CONFIG]
        out += [x for x in ast.walk(e) if isinstance(x, ast.Call) and norm(x.func) in ('getattr', 'vars') and x.args and norm(x.args[0]) == 'self']
        out += [x for x in ast.walk(e) if isinstance(x, ast.Attribute) and x.attr == '__dict__' and norm(x.value) == 'self']
        return out
    for k in sorted(known):
        # the set of already packed keys is rebuilt from the index by every call: it must neither come from the handle nor be stored on it
        for n in walk_local(fn.node):
            if isinstance(n, (ast.Assign, ast.AnnAssign)) and n.value is not None:
                tgts = n.targets if isinstance(n, ast.Assign) else [n.target]
                if any(isinstance(t, ast.Name) and t.id == k for t in tgts) and handle_state(n.value):
                    chk.bad(rule, DIRECT, norm(n)[:110], f'the set of already packed keys `{k}` is taken from `{norm(handle_state(n.value)[0])}`, state kept on the handle between calls: a key deleted (or a row id '
                            'reused) since the set was built is still "known", so re-adding that content returns its key but stores nothing', where=f'{fn.module.relpath}:{n.lineno}')
                if any(isinstance(t, ast.Attribute) and isinstance(t.value, ast.Name) and t.value.id == 'self' for t in tgts) and \
                        (any(isinstance(x, ast.Name) and x.id == k for x in ast.walk(n.value)) or any(isinstance(t, ast.Name) and t.id == k for t in tgts)):
                    chk.bad(rule, DIRECT, norm(n)[:110], f'the set of already packed keys `{k}` is stored on the handle: it outlives the call and goes stale as soon as anything is deleted, repacked or written '
                            'through another handle', where=f'{fn.module.relpath}:{n.lineno}')
        inits, rebinds, accs = [], [], []
        for n in walk_local(fn.node):
            if isinstance(n, (ast.Assign, ast.AnnAssign)):
                tgt = n.targets[0] if isinstance(n, ast.Assign) and len(n.targets) == 1 else getattr(n, 'target', None)
                if isinstance(tgt, ast.Name) and tgt.id == k:
                    if _enclosing_loop(n) is None:
                        inits.append(n)
                    elif k not in {x.id for x in ast.walk(n.value) if isinstance(x, ast.Name)}:
                        rebinds.append(n)
            elif isinstance(n, ast.Call) and isinstance(n.func, ast.Attribute) and isinstance(n.func.value, ast.Name) and n.func.value.id == k \
                    and n.func.attr in ('add', 'update'):
                lp = _enclosing_loop(n)
                while lp is not None:
                    # the paging loop: its body executes a SELECT ... limit(...)
                    if any(isinstance(x, ast.Call) and isinstance(x.func, ast.Attribute) and x.func.attr == 'limit' for x in ast.walk(lp)):
                        accs.append(n)
                        break
                    lp = _enclosing_loop(lp)
            elif isinstance(n, ast.AugAssign) and isinstance(n.target, ast.Name) and n.target.id == k and isinstance(n.op, ast.BitOr):
                accs.append(n)
        if rebinds:
            for r in rebinds:
                chk.bad(rule, DIRECT, norm(r)[:120], f'the known-keys set `{k}` is rebound inside a loop: only the keys of the last page/iteration are remembered, so known content '
                        'is not recognised and is written again', where=f'{fn.module.relpath}:{r.lineno}')
        elif not accs:
            chk.bad(rule, DIRECT, f'`{k}` accumulation', f'no `{k}.add/update` inside the index paging loop: the known-keys set stays empty', where=f'{fn.module.relpath}:{fn.lineno}')
        else:
            chk.ok(rule, DIRECT, f'`{k}`: {len(accs)} accumulation site(s) in the paging loop', detail='initialised once, only accumulated inside loops')


def fresh_stream_handover(ctx, chk, rule, qualnames=('container:Container.add_object', 'container:Container.add_objects_to_pack')):
    """The bytes-level entry points wrap the caller's bytes in io.BytesIO and hand the stream over untouched: positioned at 0, never read, written,
    moved or truncated before the writer sees it (a stream handed over at another position stores a suffix of the content under that suffix's key)."""
    prog = ctx.prog
    MOVERS = {'seek', 'read', 'readline', 'readlines', 'write', 'truncate', 'close', 'readinto', 'getbuffer', 'detach', 'read1'}
    for q in qualnames:
        chk.require(prog.has_fn(q), f'{q} not found')
        f = prog.fn(q)
        content = next((p_ for p_ in f.params if p_ != 'self'), None)
        makers = [n for n in walk_local(f.node) if isinstance(n, ast.Call) and norm(n.func).split('.')[-1] == 'BytesIO']
        chk.require(makers, f'{q}: no io.BytesIO(...) found')
        streams = set()
        bad = None
        for mk in makers:
            # argument: the content parameter itself, or the target of a comprehension/loop over it
            a = mk.args[0] if len(mk.args) == 1 and not mk.keywords else None
            src_ok = False
            if isinstance(a, ast.Name):
                if a.id == content:
                    src_ok = True
                else:
                    for c in walk_local(f.node):
                        if isinstance(c, ast.comprehension) and isinstance(c.target, ast.Name) and c.target.id == a.id and norm(c.iter) == content and not c.ifs:
                            src_ok = True
                        if isinstance(c, ast.For) and isinstance(c.target, ast.Name) and c.target.id == a.id and norm(c.iter) == content:
                            src_ok = True
            if not src_ok:
                bad = bad or (mk, f'`{norm(mk)}` is not a stream over exactly the bytes the caller passed (one element of `{content}` each)')
            st = mk
            while not isinstance(st, ast.stmt):
                st = st._parent
            if isinstance(st, (ast.Assign, ast.AnnAssign)):
                for t in (st.targets if isinstance(st, ast.Assign) else [st.target]):
                    if isinstance(t, ast.Name):
                        streams.add(t.id)
        # aliases: loop / comprehension targets iterating over a stream list
        for c in walk_local(f.node):
            if isinstance(c, (ast.comprehension, ast.For)) and isinstance(c.target, ast.Name) and isinstance(c.iter, ast.Name) and c.iter.id in streams:
                streams.add(c.target.id)
        for n in walk_local(f.node):
            if isinstance(n, ast.Attribute) and n.attr in MOVERS:
                base = n.value
                while isinstance(base, ast.Subscript):
                    base = base.value
                if (isinstance(base, ast.Name) and base.id in streams) or (isinstance(base, ast.Call) and norm(base.func).split('.')[-1] == 'BytesIO'):
                    bad = bad or (n, f'`{norm(n)}` touches the stream over the caller\'s bytes before it is handed to the writer: the writer reads from the current position, so only part of the '
                                  'content (or nothing) is stored, under the key of that part')
        if bad:
            chk.bad(rule, q, norm(bad[0])[:90], bad[1], where=f'{f.module.relpath}:{bad[0].lineno}')
        else:
            chk.ok(rule, q, f'{len(makers)} io.BytesIO site(s)', detail='built from the caller\'s bytes, handed over untouched (position 0)')


def loose_add_delegation(ctx, chk, R1):
    """Container.add_object has no path of its own: every path returns what add_streamed_object returns for a stream over exactly the given
    content (so every loose write goes through the one writer that verifies, repairs and publishes)."""
    prog, K = ctx.prog, ctx.kinds
    ao = K.container.methods.get('add_object')
    chk.require(ao is not None, 'Container.add_object not found')
    cparam = next((p_ for p_ in ao.params if p_ != 'self'), None)
    rets = [n for n in walk_local(ao.node) if isinstance(n, ast.Return)]
    ok = bool(rets)
    for r in rets:
        v = r.value
        if not (isinstance(v, ast.Call) and isinstance(v.func, ast.Attribute) and v.func.attr == 'add_streamed_object' and norm(v.func.value) == 'self' and len(v.args) + len(v.keywords) == 1):
            ok = False
            continue
        a = (v.args + [k.value for k in v.keywords])[0]
        if isinstance(a, ast.Name):
            from ..effects import last_assignment
            a = last_assignment(a.id, ao, r.lineno) or a
        if not (isinstance(a, ast.Call) and norm(a.func).endswith('BytesIO') and len(a.args) == 1 and norm(a.args[0]) == cparam):
            ok = False
    if ok and len(rets) == 1:
        chk.ok(R1, ao.qualname, norm(rets[0])[:80], detail='the only path: hand the content to the streaming writer')
    else:
        w = rets[0] if rets else ao.node
        chk.bad(R1, ao.qualname, norm(w)[:100], 'add_object has a path of its own (an early return / another way of storing) instead of handing the whole content to add_streamed_object: '
                'such a path skips the verification and repair of an existing loose copy (and the single publishing protocol)', where=f'{ao.module.relpath}:{getattr(w, "lineno", ao.lineno)}')


def publish_handlers(ctx, chk, R1):
    """ObjectWriter.__exit__: a failure to move a NEW object into loose/ may be handled only when the destination appeared meanwhile
    (FileExistsError); shared by C09.R1 and C01.R2."""
    prog, K = ctx.prog, ctx.kinds
    # publishing a new object (destination absent): the only failure of the rename that may be handled is "the destination appeared meanwhile"
    exw = prog.fn('utils:ObjectWriter.__exit__')
    frw = K.top_frame(exw)
    for tr in [n for n in walk_local(exw.node) if isinstance(n, ast.Try)]:
        ren = [c for b in tr.body for c in ast.walk(b) if isinstance(c, ast.Call) and norm(c.func) in ('os.rename', 'os.link')]
        if not ren or not any('loose' in areas(K, K.kind(c.args[1], frw)) for c in ren if len(c.args) > 1):
            continue
        from .c17 import always_raises, handler_types
        for h in tr.handlers:
            ts = handler_types(h)
            if not always_raises(h.body) and set(ts) - {'FileExistsError'}:
                chk.bad(R1, exw.qualname, f'except {", ".join(ts)} around {norm(ren[0])[:60]}', 'a failure to move a NEW object into loose/ (other than "the destination appeared meanwhile") is handled and the writer '
                        'returns normally: the key is handed back although no loose file exists under it (the bytes only sit in duplicates/)', where=f'{exw.module.relpath}:{h.lineno}')
            else:
                chk.ok(R1, exw.qualname, f'except {", ".join(ts)} around the publishing rename', detail='only a concurrently appeared destination is tolerated', nontrivial=False)


def run(ctx, host=None):
    chk = host.sub('C09') if host is not None else Check('C09', ctx)
    prog, K, E = ctx.prog, ctx.kinds, ctx.effects
    R1 = chk.rule('C09.R1', 'loose dedup: one path per key; existing copy verified or replaced; absent destination published', 2)
    R2 = chk.rule('C09.R2', 'pack_all_loose removes already-indexed keys (both lookup strategies) before the write loop', 1)
    R3 = chk.rule('C09.R3', 'append-handle typestate: no tell/write between seek and truncate on an append-mode pack handle', 1)
    R4 = chk.rule('C09.R4', 'direct-to-pack loop: one returned key per stream; known content not staged; new key staged and remembered', 2)
    R5 = chk.rule('C09.R5', 'unique hashkey column + INSERT OR IGNORE on the direct path; final truncate inside the lock', 3)
    pol = write_policy(depth=5)
    S = Summaries(ctx)

    # ---------------------------------------------------------------- R1
    q = 'container:Container.add_streamed_object'
    g = ctx.icfg(q, {}, pol, key='wp5')
    m = LooseDedupMachine(ctx, g)
    viols, st = solve(g, m)
    chk.crash_points += st['pairs']
    chk.specialisations += 1
    chk.require(m.leave_nodes and m.publishes, 'ObjectWriter.__exit__ not inlined / no publish site found')
    for v in viols:
        chk.bad(R1, 'utils:ObjectWriter.__exit__', 'return paths of __exit__', v.msg, where=v.node.where, witness=v.witness)
    if not viols:
        chk.ok(R1, 'utils:ObjectWriter.__exit__', 'exists/checksum decision tree', detail='every normal return: verified, vanished, replaced or newly published')
    # the verification really re-reads the existing file each time: no memoised function on the way from __exit__ to the file
    from .common import memoised_external_readers, reachable_functions
    chk.require(m.vvars and m.verifiers, 'ObjectWriter.__exit__: the call that re-hashes the existing loose file was not found')
    memo = memoised_external_readers(ctx, S)
    badmemo = []
    for vq, vf in m.verifiers.items():
        reach = reachable_functions(ctx, S, vf)
        badmemo += [(f2, d) for f2, d in memo if f2.qualname in reach]
    if badmemo:
        for f2, d in badmemo:
            chk.bad(R1, f2.qualname, f'@{d}', 'the checksum used to decide whether an existing loose copy is intact is memoised: damage that happens after the first verification is never seen, '
                    'so re-adding the content no longer repairs a corrupted loose copy', where=f'{f2.module.relpath}:{f2.lineno}')
    else:
        chk.ok(R1, 'utils:ObjectWriter.__exit__', f'verifier(s) {sorted(m.verifiers)}', detail='the existing copy is re-read and re-hashed on every call (no memoised function on the chain)')
    # the verifier answers "gone" (None) only when the file does not exist: any other failure to read the existing copy must not look like a vanished file
    for vq, vf in sorted(m.verifiers.items()):
        for tr in [n for n in walk_local(vf.node) if isinstance(n, ast.Try)]:
            for h in tr.handlers:
                returns_none = any(isinstance(x, ast.Return) and (x.value is None or (isinstance(x.value, ast.Constant) and x.value.value is None)) for x in ast.walk(ast.Module(body=h.body, type_ignores=[])))
                ht = norm(h.type) if h.type is not None else '<bare>'
                if returns_none and ht != 'FileNotFoundError':
                    chk.bad(R1, vq, f'except {ht}: return None', f'the checksum helper reports an existing loose copy as vanished (None) on `{ht}`, not only on FileNotFoundError: a copy that cannot be read '
                            '(locked, permissions, I/O error) is then kept as if it had been verified and the new, correct bytes are discarded', where=f'{vf.module.relpath}:{h.lineno}')
                elif returns_none:
                    chk.ok(R1, vq, 'except FileNotFoundError: return None', detail='only a vanished file counts as gone', nontrivial=False)
                last = h.body[-1]
                if not isinstance(last, (ast.Return, ast.Raise)):
                    chk.bad(R1, vq, f'except {ht}: ... (falls through)', f'after `{ht}` the checksum helper goes on to return the digest of whatever was read so far (nothing, for a file that vanished): the digest '
                            'of the empty string then stands for the existing copy -- an empty object is taken as "already stored and intact" although no file is there', where=f'{vf.module.relpath}:{h.lineno}')
    publish_handlers(ctx, chk, R1)
    loose_add_delegation(ctx, chk, R1)
    fresh_stream_handover(ctx, chk, R1)
    # destination name is a function of the key only
    ex = prog.fn('utils:ObjectWriter.__exit__')
    bad_names = []
    ndst = 0
    for n, cal, effs in S.calls(ex):
        for e in effs:
            if e[0] in ('RENAME', 'REPLACE') and 'loose' in areas(K, e[2]):
                ndst += 1
                for a in alts(e[2]):
                    for c in a[2]:
                        if not isinstance(c, str):
                            txt = c[1]
                            names = {x.id for x in ast.walk(ast.parse(txt, mode='eval')) if isinstance(x, ast.Name)} | {x.attr for x in ast.walk(ast.parse(txt, mode='eval')) if isinstance(x, ast.Attribute)}
                            if not names <= {'self', '_hashkey', '_loose_prefix_len'}:
                                bad_names.append((n, txt))
    chk.require(ndst >= 2, f'expected rename and replace into loose/ in ObjectWriter.__exit__, found {ndst}')
    for n, txt in bad_names:
        chk.bad(R1, ex.qualname, norm(n), f'loose destination component `{txt}` does not depend on the hash key only: the same content could be stored under two names', where=f'{ex.module.relpath}:{n.lineno}')
    if not bad_names:
        chk.ok(R1, ex.qualname, f'{ndst} publish destinations', detail='path components are slices of the key only')

    # ---------------------------------------------------------------- R2
    q = 'container:Container.pack_all_loose'
    g = ctx.icfg(q, {}, pol, key='wp5')
    pops = [n for n in g.nodes if n.frame is g.top and n.kind == 'call' and n.callee is not None and n.callee.kind == 'method' and n.callee.name == 'pop'
            and isinstance(n.callee.recv, ast.Name) and _enclosing_loop(n.ast) is not None]
    chk.require(pops, 'pack_all_loose: no `<set>.pop()` in the write loop found')
    work = pops[0].callee.recv.id
    diffs = [n for n in g.nodes if n.frame is g.top and n.kind == 'call' and n.callee is not None and n.callee.kind == 'method'
             and n.callee.name in ('difference_update',) and isinstance(n.callee.recv, ast.Name) and n.callee.recv.id == work]
    writes = {n.id for n in g.nodes if any(e[0] == 'H_WRITE' and is_pack_write_handle(K, e[1]) for e in E.of(n))}
    chk.require(writes, 'pack_all_loose: no write to a pack handle found')
    ok2 = bool(diffs) and dominates_all_paths(g, g.entry, writes, {d.id for d in diffs})
    feeds = set()
    if diffs:
        arg = diffs[0].ast.args[0] if diffs[0].ast.args else None
        feed_fn = g.fn
        # the list may come from a private helper (`existing = self._helper(...)`, which returns its accumulator): look at the feeds there
        for _ in range(3):
            src = arg
            if isinstance(arg, ast.Name):
                asg = [a for a in walk_local(feed_fn.node) if isinstance(a, ast.Assign) and len(a.targets) == 1 and isinstance(a.targets[0], ast.Name) and a.targets[0].id == arg.id]
                src = asg[0].value if len(asg) == 1 else None
                if len(asg) > 1 and all(isinstance(a.value, ast.Name) for a in asg) and len({a.value.id for a in asg}) == 1:
                    # the same accumulator handed over on every path (an inlined helper that returns it from several places)
                    arg = asg[0].value
                    continue
            if isinstance(src, ast.Call) and isinstance(src.func, ast.Attribute) and norm(src.func.value) == 'self' and src.func.attr in K.container.methods:
                h = K.container.methods[src.func.attr]
                rets = [r for r in walk_local(h.node) if isinstance(r, ast.Return)]
                if len(rets) == 1 and isinstance(rets[0].value, ast.Name):
                    feed_fn, arg = h, rets[0].value
                    continue
            break
        if isinstance(arg, ast.Name):
            for n in walk_local(feed_fn.node):
                if isinstance(n, ast.Call) and isinstance(n.func, ast.Attribute) and n.func.attr in ('append', 'add') and isinstance(n.func.value, ast.Name) and n.func.value.id == arg.id:
                    br = n
                    while br is not None and not (isinstance(br, ast.If) and 'len(' in norm(br.test)):
                        br = getattr(br, '_parent', None)
                    if br is not None:
                        feeds.add('small' if any(n is x for b in br.body for x in ast.walk(b)) else 'large')
    if ok2 and feeds == {'small', 'large'}:
        chk.ok(R2, q, norm(diffs[0].ast), detail='dominates every pack write; fed by both lookup strategies')
    else:
        chk.bad(R2, q, f'{work}.difference_update(...)', 'keys that are already indexed are not (always) removed from the work set before packing: '
                f'they would be appended to a pack a second time (dominates={ok2}, fed by {sorted(feeds)})', where=f'{g.fn.module.relpath}:{g.fn.lineno}')

    # ---------------------------------------------------------------- R3 + R4
    fn = prog.fn(DIRECT)
    total_seeks = 0
    combos = list(specialisations(fn, {}, free={'do_fsync', 'do_commit', 'open_streams', 'compress'})) if not ctx.thorough else list(specialisations(fn, {}))
    r3bad = r4bad = False
    for consts in combos:
        g = ctx.icfg(DIRECT, consts, pol, key='wp5')
        m = AppendHandleMachine(ctx)
        viols, st = solve(g, m)
        chk.crash_points += st['pairs']
        chk.specialisations += 1
        total_seeks += len(m.seeks)
        for v in viols:
            r3bad = True
            chk.bad(R3, v.node.frame.fn.qualname, v.node.text(120), v.msg + f' [flags {consts}]', where=v.node.where, witness=v.witness)
        m4 = IterMachine(ctx, g, require_tested=bool(consts.get('no_holes')))
        chk.require(m4.retname and m4.ret_appends and m4.pops and m4.stage, f'{DIRECT}: returned list / pop / staging sites not found')
        if consts.get('no_holes') and not m4.known_names:
            # is the membership test made against an attribute of the handle (a set that outlives the call)?
            fnd = prog.fn(DIRECT)
            def _handle_attr(e):
                # `self.x` itself, or a local that is bound to `self.x` (an alias of a set kept on the handle)
                if isinstance(e, ast.Attribute) and norm(e.value) == 'self':
                    return True
                if isinstance(e, ast.Name):
                    for a in walk_local(fnd.node):
                        if isinstance(a, ast.Assign) and any(isinstance(t, ast.Name) and t.id == e.id for tt in a.targets for t in ast.walk(tt)):
                            called = {id(c.func) for c in ast.walk(a.value) if isinstance(c, ast.Call)}
                            if any(isinstance(x, ast.Attribute) and isinstance(x.value, ast.Name) and x.value.id == 'self' and id(x) not in called and not x.attr.isupper() and not x.attr.startswith('_MAX')
                                   and x.attr not in ('hash_type', 'loose_prefix_len', 'pack_size_target', 'compression_algorithm') for x in ast.walk(a.value)):
                                return True
                return False
            attr_tests = [n for n in walk_local(fnd.node) if isinstance(n, ast.Compare) and len(n.ops) == 1 and isinstance(n.ops[0], (ast.In, ast.NotIn))
                          and _handle_attr(n.comparators[0]) and _enclosing_loop(n) is not None]
            if attr_tests:
                r4bad = True
                chk.bad(R4, DIRECT, norm(attr_tests[0])[:100], f'known content is recognised through `{norm(attr_tests[0].comparators[0])}`, a set kept on the handle between calls, instead of a set rebuilt '
                        'from a complete listing of the index in this call: rows deleted or re-created meanwhile (SQLite reuses row ids) make it stale, so known content is written again or new content skipped',
                        where=f'{fnd.module.relpath}:{attr_tests[0].lineno}')
                continue
        if consts.get('no_holes'):
            chk.require(m4.known_names, f'{DIRECT}: the known-keys set (`key in <set>` test in the loop) was not found')
        viols, st = solve(g, m4)
        chk.crash_points += st['pairs']
        for v in viols:
            r4bad = True
            chk.bad(R4, DIRECT, 'per-stream bookkeeping', v.msg + f' [flags {consts}]', where=v.node.where, witness=v.witness)
    chk.require(total_seeks >= 1, 'no seek on an append-mode pack handle found any more: the no_holes rewind vanished')
    if not r3bad:
        chk.ok(R3, DIRECT, f'{len(combos)} flag combinations', detail='every seek on the append handle is followed by truncate before the next tell/write', evals=len(combos))
    if not r4bad:
        chk.ok(R4, DIRECT, f'{len(combos)} flag combinations', detail='one returned key per stream; known => not staged; new => staged and remembered', evals=len(combos))
        chk.ok(R4, DIRECT, 'returned list', detail='also on the `continue` of the read-twice branch', nontrivial=False)
    # R3 also for the other pack writers
    for q in ('container:Container.pack_all_loose', 'container:Container.repack_pack'):
        g = ctx.icfg(q, {}, pol, key='wp5')
        m = AppendHandleMachine(ctx)
        viols, st = solve(g, m)
        chk.crash_points += st['pairs']
        for v in viols:
            chk.bad(R3, v.node.frame.fn.qualname, v.node.text(120), v.msg, where=v.node.where, witness=v.witness)

    known_set_accumulation(ctx, chk, R4)
    from .common import single_connection_per_handle
    single_connection_per_handle(ctx, chk, R4)

    # ---------------------------------------------------------------- R6
    R6 = chk.rule('C09.R6', 'import with different hash types runs every add call with no_holes and read-twice', 1)
    import_flags(ctx, chk, R6)

    # ---------------------------------------------------------------- R5
    obj = prog.cls('database:Obj')
    col = obj.constants.get('hashkey')
    uniq = isinstance(col, ast.Call) and any(kw.arg == 'unique' and isinstance(kw.value, ast.Constant) and kw.value.value is True for kw in col.keywords)
    if uniq:
        chk.ok(R5, obj.qualname, 'hashkey = Column(..., unique=True)', detail='unique constraint present', nontrivial=False)
    else:
        chk.bad(R5, obj.qualname, 'hashkey column', 'the hashkey column is no longer declared unique: nothing prevents two index rows for one key', where=f'{obj.module.relpath}:{obj.node.lineno}')
    ins = [(n, e) for n, cal, effs in S.calls(fn) for e in effs if e[0] == 'DB_INSERT']
    chk.require(ins, f'{DIRECT}: no INSERT found')
    for n, e in ins:
        if e[2].get('or_ignore'):
            chk.ok(R5, DIRECT, 'INSERT OR IGNORE', detail='duplicates of rows not in the known set are ignored by the index')
        else:
            chk.bad(R5, DIRECT, norm(n)[:120], 'the bulk INSERT of the direct-to-pack path lost its OR IGNORE prefix: re-adding known content with no_holes=False raises or duplicates',
                    where=f'{fn.module.relpath}:{n.lineno}')
    # final truncate inside the lock
    g = ctx.icfg(DIRECT, {'no_holes': True}, pol, key='wp5')
    trs = [n for n in g.nodes if n.frame is g.top and any(e[0] == 'H_TRUNCATE' for e in E.of(n)) and _enclosing_loop(n.ast) is not None]
    final = [n for n in trs if not any(g.nodes[h].ast is _enclosing_loop(n.ast) for h in PackSites(ctx, g).loop_heads)]
    inside = [n for n in final if any(isinstance(p, ast.With) for p in _parents(n.ast))]
    if final and inside:
        chk.ok(R5, DIRECT, norm(final[0].ast), detail='final truncate is inside the lock_pack block')
    else:
        chk.bad(R5, DIRECT, 'pack_handle.truncate() after the inner loop', 'with no_holes the pack is no longer truncated at the end of the locked block: unreferenced bytes of known content stay in the pack',
                where=f'{fn.module.relpath}:{fn.lineno}')

    from .common import option_forwarding
    R7 = chk.rule('C09.R7', 'no_holes / no_holes_read_twice are forwarded unchanged by every wrapper down to the direct-to-pack writer', 1)
    nf = option_forwarding(ctx, chk, R7, ['no_holes', 'no_holes_read_twice'], S)
    chk.require(nf >= 4, f'expected >= 4 forwarding sites of no_holes/no_holes_read_twice, found {nf}')

    # rules of other properties that are necessary conditions of this one too: "already indexed" is decided by the bulk lookup strategies (C16) --
    # a strategy that misclassifies keys makes pack_all_loose / import append known content again
    if host is None:
        from ..report import host_modules
        host_modules(chk, ctx, ['C16'])

    return chk.finish(
        explanation=('Static analysis of the deduplication mechanisms: a decision-tree typestate on ObjectWriter.__exit__ (exists / checksum / replace), '
                     'dominance of the already-indexed filter over every pack write in pack_all_loose, an append-handle typestate (seek must be followed by '
                     'truncate before the next tell/write) over every flag combination of the direct-to-pack path, a per-iteration bookkeeping machine '
                     '(one returned key per stream, known content not staged, new keys staged and remembered) and the unique / OR IGNORE declarations.'),
        rule_text='obligation = (rule, function, flag combination); non-trivial = needed a path query',
        assumptions=['O_APPEND semantics: writes go to the end of file regardless of seek', 'SQLite enforces the unique index'],
        not_decided='object counts as values over histories; that the checksum comparison itself is value-correct.')


def _parents(n):
    n = getattr(n, '_parent', None)
    while n is not None:
        yield n
        n = getattr(n, '_parent', None)
