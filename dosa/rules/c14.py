"""C14 -- importing transfers exactly the requested objects, byte-identical (DESIGN 5, C14)."""
from __future__ import annotations

import ast

from ..cfg import Policy
from ..loader import norm, walk_local
from ..report import Check
from ..solver import Machine, Violation, dominates_all_paths
from ..solver import run as solve
from .c09 import import_flags
from .common import origin, root_name

IMPORT = 'container:Container.import_objects'
MATERIALISERS = {'list', 'tuple', 'sorted', 'set', 'frozenset', 'dict'}


def _enclosing_loop(n):
    n = getattr(n, '_parent', None)
    while n is not None and not isinstance(n, (ast.FunctionDef, ast.AsyncFunctionDef, ast.Lambda)):
        if isinstance(n, (ast.For, ast.While, ast.comprehension, ast.ListComp, ast.SetComp, ast.GeneratorExp, ast.DictComp)):
            return n
        n = getattr(n, '_parent', None)
    return None


class LinearMachine(Machine):
    """R1: a parameter annotated Iterable may be a one-shot iterator: on every path it is consumed at most once before it
    is rebound to a materialised collection.  State = ('fresh' | 'consumed' | 'materialised')."""

    def __init__(self, ctx, g, param, rule):
        self.param = param
        self.rule = rule
        self.top = g.top
        self.uses = 0

    def initial(self, g):
        return [('fresh',)]

    def _consumptions(self, expr):
        """Number of consuming uses of the parameter inside expr (passing it to a call / iterating it)."""
        n = 0
        for x in ast.walk(expr):
            if isinstance(x, ast.Call):
                for a in list(x.args) + [k.value for k in x.keywords]:
                    if isinstance(a, ast.Name) and a.id == self.param:
                        f = norm(x.func)
                        if f in ('isinstance', 'id', 'type', 'iter'):
                            continue
                        n += 1
                    elif isinstance(a, ast.Starred) and isinstance(a.value, ast.Name) and a.value.id == self.param:
                        n += 1
            elif isinstance(x, ast.comprehension) and isinstance(x.iter, ast.Name) and x.iter.id == self.param:
                n += 1
        return n

    def transfer(self, node, st, g):
        s = st[0]
        viol = []
        if node.frame is not self.top:
            return [st]
        cons = 0
        rebinding = None
        a = node.ast
        if node.kind == 'call' and isinstance(a, ast.Call):
            for arg in list(a.args) + [k.value for k in a.keywords]:
                if isinstance(arg, ast.Name) and arg.id == self.param and norm(a.func) not in ('isinstance', 'id', 'type', 'next', 'iter'):
                    cons += 1
                elif isinstance(arg, ast.Starred) and isinstance(arg.value, ast.Name) and arg.value.id == self.param:
                    cons += 1
        elif node.kind == 'enter' and isinstance(a, ast.Call):
            for arg in list(a.args) + [k.value for k in a.keywords]:
                if isinstance(arg, ast.Name) and arg.id == self.param:
                    cons += 1
        elif node.kind == 'loop' and isinstance(a, (ast.For, ast.comprehension)) and isinstance(a.iter, ast.Name) and a.iter.id == self.param:
            # counted when the loop is entered for the first time on this path
            cons += 0
        elif node.kind == 'stmt' and isinstance(a, ast.Name) and node.info.get('for') is not None:
            pass
        elif node.kind == 'stmt' and isinstance(a, (ast.Assign, ast.AnnAssign)):
            tgt = a.targets[0] if isinstance(a, ast.Assign) and len(a.targets) == 1 else getattr(a, 'target', None)
            if isinstance(tgt, ast.Name) and tgt.id == self.param:
                v = a.value
                if isinstance(v, (ast.List, ast.Tuple, ast.Set, ast.Dict, ast.ListComp, ast.SetComp, ast.DictComp)):
                    rebinding = 'materialised'
                elif isinstance(v, ast.Call) and norm(v.func) in MATERIALISERS | {'iter'}:
                    # iter(x): from here on the function steps the iterator deliberately (next()), it does not re-consume it
                    rebinding = 'materialised'
                else:
                    rebinding = 'fresh'
        if node.kind == 'loop' and isinstance(a, (ast.For, ast.comprehension)) and isinstance(a.iter, ast.Name) and a.iter.id == self.param:
            if s == 'fresh':
                self.uses += 1
                return [(('loop', node.id),)]
            if s == ('loop', node.id) or s == 'materialised':
                return [st]
            return [st, Violation(self.rule, node, st, f'the iterable parameter `{self.param}` is iterated after it was already consumed on this path')]
        if isinstance(s, tuple) and cons:
            s = 'consumed'
        if cons:
            self.uses += cons
            for _ in range(cons):
                if s == 'fresh':
                    s = 'consumed'
                elif s == 'consumed':
                    viol.append(Violation(self.rule, node, st, f'the iterable parameter `{self.param}` is consumed a second time on this path (it may be a one-shot generator: '
                                          'the second consumer sees nothing)'))
        if rebinding:
            s = rebinding
        return [(s,)] + viol

    def edge_state(self, edge, st, node, g):
        # entering a `for x in <param>` loop consumes it
        if node.kind == 'loop' and node.frame is self.top and isinstance(node.ast, ast.For) and isinstance(node.ast.iter, ast.Name) \
                and node.ast.iter.id == self.param and edge.tag == 'iter-next':
            return st
        return st


def import_mapping_and_flush(ctx, chk, R4):
    """Lockstep growth of the old/new key lists and completeness of the batch flushes in import_objects (C14.R4; also claimed as C16.R6)."""
    prog, K = ctx.prog, ctx.kinds
    fn = prog.fn(IMPORT)
    # ---------------------------------------------------------------- R4
    rets = [n for n in walk_local(fn.node) if isinstance(n, ast.Return) and n.value is not None]
    chk.require(rets, 'import_objects: return not found')
    mapping = rets[-1].value
    zipc = None
    if isinstance(mapping, ast.Name):
        mname = mapping.id
        for n in walk_local(fn.node):
            if isinstance(n, ast.Assign) and isinstance(n.targets[0], ast.Name) and n.targets[0].id == mname:
                mapping = n.value
    for x in ast.walk(mapping):
        if isinstance(x, ast.Call) and norm(x.func) == 'zip' and len(x.args) == 2 and all(isinstance(a, ast.Name) for a in x.args):
            zipc = x
    chk.require(zipc is not None, 'import_objects: the returned mapping is not dict(zip(old, new)) any more')
    A, B = zipc.args[0].id, zipc.args[1].id
    # nothing else enters the mapping: it mentions exactly the keys whose content was read from the source and written here
    if isinstance(rets[-1].value, ast.Name):
        mname = rets[-1].value.id
        extra = []
        for n in walk_local(fn.node):
            if isinstance(n, ast.Call) and isinstance(n.func, ast.Attribute) and isinstance(n.func.value, ast.Name) and n.func.value.id == mname \
                    and n.func.attr in ('setdefault', 'update', '__setitem__', 'pop', 'popitem', 'clear'):
                extra.append(n)
            elif isinstance(n, (ast.Assign, ast.AugAssign)):
                for t in (n.targets if isinstance(n, ast.Assign) else [n.target]):
                    if isinstance(t, ast.Subscript) and isinstance(t.value, ast.Name) and t.value.id == mname:
                        extra.append(n)
                    if isinstance(n, ast.AugAssign) and isinstance(t, ast.Name) and t.id == mname:
                        extra.append(n)
            elif isinstance(n, ast.Delete) and any(isinstance(t, ast.Subscript) and isinstance(t.value, ast.Name) and t.value.id == mname for t in n.targets):
                extra.append(n)
        nbind = [n for n in walk_local(fn.node) if isinstance(n, ast.Assign) and any(isinstance(t, ast.Name) and t.id == mname for t in n.targets)]
        if extra or len(nbind) != 1:
            w = (extra or nbind[1:])[0]
            chk.bad(R4, IMPORT, norm(w)[:110], f'the returned mapping `{mname}` is changed after it was built from the (source key, destination key) pairs of the objects actually transferred: it would mention '
                    'keys that were never read from the source (e.g. requested keys neither container holds) or drop transferred ones', where=f'{fn.module.relpath}:{w.lineno}')
        else:
            chk.ok(R4, IMPORT, f'{mname} = dict(zip({A}, {B}))', detail='the mapping is built once from the lockstep lists and returned unchanged')

    def growth(block, name):
        out = []
        for st in block:
            if isinstance(st, ast.Expr) and isinstance(st.value, ast.Call) and isinstance(st.value.func, ast.Attribute) and st.value.func.attr == 'append' \
                    and isinstance(st.value.func.value, ast.Name) and st.value.func.value.id == name:
                out.append(('append', st))
            elif isinstance(st, ast.AugAssign) and isinstance(st.target, ast.Name) and st.target.id == name and isinstance(st.op, ast.Add):
                out.append(('extend', st))
        return out

    blocks = []
    for n in [fn.node] + list(walk_local(fn.node)):
        for attr in ('body', 'orelse', 'finalbody'):
            b = getattr(n, attr, None)
            if isinstance(b, list) and b and isinstance(b[0], ast.stmt):
                blocks.append(b)
    npairs = 0
    for b in blocks:
        ga, gb = growth(b, A), growth(b, B)
        if not ga and not gb:
            continue
        if [k for k, _ in ga] != [k for k, _ in gb]:
            st = (ga or gb)[0][1]
            chk.bad(R4, IMPORT, norm(st)[:120], f'`{A}` and `{B}` do not grow in lockstep in this block ({[k for k, _ in ga]} vs {[k for k, _ in gb]}): the returned mapping would pair '
                    'source keys with the wrong destination keys', where=f'{fn.module.relpath}:{st.lineno}')
            continue
        for (ka, sa), (kb, sb) in zip(ga, gb):
            npairs += 1
            if ka == 'extend':
                # A += T1, B += T2 with (T1, D) = zip(*cache.items()) and T2 = self.add_objects_to_pack(D, ...)
                t1 = sa.value.id if isinstance(sa.value, ast.Name) else None
                t2 = sb.value.id if isinstance(sb.value, ast.Name) else None
                unpack = next((x for x in b if isinstance(x, ast.Assign) and isinstance(x.targets[0], ast.Tuple) and [getattr(e, 'id', None) for e in x.targets[0].elts][:1] == [t1]), None)
                call2 = next((x for x in b if isinstance(x, ast.Assign) and isinstance(x.targets[0], ast.Name) and x.targets[0].id == t2 and isinstance(x.value, ast.Call)), None)
                okp = False
                if unpack is not None and call2 is not None and isinstance(unpack.value, ast.Call) and norm(unpack.value.func) == 'zip' and 'items()' in norm(unpack.value):
                    dname = unpack.targets[0].elts[1].id if len(unpack.targets[0].elts) == 2 and isinstance(unpack.targets[0].elts[1], ast.Name) else None
                    a0 = call2.value.args[0] if call2.value.args else None
                    okp = isinstance(a0, ast.Name) and a0.id == dname
                if okp:
                    chk.ok(R4, IMPORT, f'{norm(sa)} / {norm(sb)}', detail='keys and contents come from the same zip(*cache.items()); new keys are returned for exactly those contents, in order')
                else:
                    chk.bad(R4, IMPORT, f'{norm(sa)} / {norm(sb)}', 'the bulk extension of the old/new key lists is not derived from one zip(*cache.items()) whose contents are what is added',
                            where=f'{fn.module.relpath}:{sa.lineno}')
            else:
                chk.ok(R4, IMPORT, f'{norm(sa.value)[:50]} / {norm(sb.value)[:50]}', detail='paired append', nontrivial=False)
    if not [f for f in chk.findings if f.rule == R4]:
        chk.require(npairs >= 3, f'import_objects: expected 3 growth sites of the old/new key lists, found {npairs}')
    # cache flushes: every block that adds the cache content must reset the cache when it is inside the loop; a final flush follows the loop
    cache = None
    for n in walk_local(fn.node):
        if isinstance(n, ast.Call) and norm(n.func) == 'zip' and n.args and isinstance(n.args[0], ast.Starred) and 'items()' in norm(n.args[0]):
            cache = norm(n.args[0].value.func.value) if isinstance(n.args[0].value, ast.Call) else None
    chk.require(cache, 'import_objects: content cache not found')
    flush_blocks = [b for b in blocks if any(isinstance(x, ast.Assign) and isinstance(x.value, ast.Call) and norm(x.value.func) == 'zip' and cache in norm(x.value) for x in b)]
    inloop = [b for b in flush_blocks if _enclosing_loop(b[0]) is not None]
    def guard_ok(b):
        # the final flush may only be guarded by the truthiness of the cache itself
        p = getattr(b[0], '_parent', None)
        while p is not None and p is not fn.node:
            if isinstance(p, ast.If):
                if not (isinstance(p.test, ast.Name) and p.test.id == cache and any(x is b[0] for x in p.body)):
                    return False
            p = getattr(p, '_parent', None)
        return True
    final = [b for b in flush_blocks if _enclosing_loop(b[0]) is None and guard_ok(b)]
    okc = True
    for b in inloop:
        if not any(isinstance(x, ast.Assign) and isinstance(x.targets[0], ast.Name) and x.targets[0].id == cache and isinstance(x.value, (ast.Dict, ast.Call)) and not getattr(x.value, 'keys', None) for x in b):
            okc = False
            chk.bad(R4, IMPORT, f'flush of `{cache}` inside the loop', 'the cache is flushed to the destination but not reset: its objects are added again at the next flush', where=f'{fn.module.relpath}:{b[0].lineno}')
    if not final:
        okc = False
        chk.bad(R4, IMPORT, f'final flush of `{cache}`', 'there is no flush of the remaining cache content after the loop: the last objects are never imported', where=f'{fn.module.relpath}:{fn.lineno}')
    if okc:
        chk.ok(R4, IMPORT, f'{len(inloop)} in-loop flush(es) + {len(final)} final flush', detail='cache reset with each in-loop flush; final flush after the loop')



def run(ctx, host=None):
    chk = host.sub('C14') if host is not None else Check('C14', ctx)
    prog, K, E = ctx.prog, ctx.kinds, ctx.effects
    R1 = chk.rule('C14.R1', 'iterable parameters are consumed at most once before being materialised', 2)
    R2 = chk.rule('C14.R2', 'import: compress / do_fsync / no_holes flags forwarded unchanged, do_commit=False at every add call, one final commit', 5)
    R3 = chk.rule('C14.R3', 'import branch table: same hash => only keys missing in the destination (loose or packed); different hash => no_holes + read twice', 3)
    from .common import full_scans_unfiltered
    full_scans_unfiltered(ctx, chk, R3)
    R4 = chk.rule('C14.R4', 'old/new key lists grow in lockstep; cache reset with every flush; final flush after the loop', 4)
    fn = prog.fn(IMPORT)
    pol = Policy(depth=0)

    # ---------------------------------------------------------------- R1 (all Iterable-annotated parameters of the package)
    nlin = 0
    for f in prog.all_functions():
        if isinstance(f.node, ast.Lambda):
            continue
        for p in f.params:
            ann = f.annotations.get(p)
            if ann is None:
                continue
            txt = ann.value if isinstance(ann, ast.Constant) and isinstance(ann.value, str) else norm(ann)
            if not txt.startswith('Iterable'):
                continue
            g = ctx.icfg(f.qualname, {}, pol, key='d0')
            m = LinearMachine(ctx, g, p, 'C14.R1')
            # `for x in param` loops: count as a consumption via a synthetic pass over the AST
            viols, st = solve(g, m)
            chk.crash_points += st['pairs']
            chk.specialisations += 1
            nlin += 1
            # direct iteration sites (for-loops / comprehensions) are consumption sites as well: check them on the AST with the
            # dominance relation of the ICFG is overkill here -- they are rare; count them as uses and flag >1 uses on one path
            for v in viols:
                chk.bad(R1, f.qualname, v.node.text(120), v.msg, where=v.node.where, witness=v.witness)
            if not viols:
                chk.ok(R1, f.qualname, f'parameter `{p}`: {m.uses} consuming use(s)', detail='at most one consumption per path before materialisation')
    chk.require(nlin >= 2, f'expected at least 2 Iterable-annotated parameters in the package, found {nlin}')

    # ---------------------------------------------------------------- R2
    adds = [n for n in walk_local(fn.node) if isinstance(n, ast.Call) and isinstance(n.func, ast.Attribute) and isinstance(n.func.value, ast.Name)
            and n.func.value.id == 'self' and n.func.attr.startswith('add_') and n.func.attr.endswith('to_pack')]
    chk.require(len(adds) >= 3, f'import_objects: expected 3 add-to-pack call sites, found {len(adds)}')
    for c in adds:
        kws = {k.arg: k.value for k in c.keywords}
        for flag in ('compress', 'do_fsync'):
            v = kws.get(flag)
            if isinstance(v, ast.Name) and v.id == flag and flag in fn.params:
                chk.ok(R2, IMPORT, f'{c.func.attr}(... {flag}={flag})', detail='forwarded unchanged', nontrivial=False)
            else:
                chk.bad(R2, IMPORT, norm(c)[:140], f'`{flag}` of import_objects is not forwarded unchanged to {c.func.attr}() (got `{norm(v) if v is not None else "<omitted>"}`)',
                        where=f'{fn.module.relpath}:{c.lineno}')
        v = kws.get('do_commit')
        if isinstance(v, ast.Constant) and v.value is False:
            chk.ok(R2, IMPORT, f'{c.func.attr}(... do_commit=False)', detail='single final commit', nontrivial=False)
        else:
            chk.bad(R2, IMPORT, norm(c)[:140], f'{c.func.attr}() is not called with do_commit=False: the import is no longer committed as one unit at the end',
                    where=f'{fn.module.relpath}:{c.lineno}')
    g = ctx.icfg(IMPORT, {}, Policy(depth=1, only={'container:Container._get_operation_session'}), key='imp1')
    commits = [n for n in g.nodes if n.frame is g.top and any(e[0] == 'DB_COMMIT' for e in E.of(n))]
    addnodes = {n.id for n in g.nodes if n.frame is g.top and n.kind in ('call', 'enter') and isinstance(n.ast, ast.Call) and any(n.ast is c for c in adds)}
    if len(commits) == 1 and _enclosing_loop(commits[0].ast) is None and dominates_all_paths(g, g.entry, {g.exit.id}, {commits[0].id}):
        # and no add call after the commit
        after = set()
        todo = [commits[0]]
        while todo:
            x = todo.pop()
            for e in x.succ:
                if e.kind == 'n' and e.dst.id not in after:
                    after.add(e.dst.id)
                    todo.append(e.dst)
        if after & addnodes:
            chk.bad(R2, IMPORT, commits[0].text(80), 'objects are added after the final commit', where=commits[0].where)
        else:
            chk.ok(R2, IMPORT, commits[0].text(80), detail='exactly one commit, on every normal path to the exit, after the last add call')
    else:
        chk.bad(R2, IMPORT, 'final commit', f'import_objects must end with exactly one commit that every normal path passes (found {len(commits)} commit site(s))',
                where=f'{fn.module.relpath}:{fn.lineno}')

    # ---------------------------------------------------------------- R3
    import_flags(ctx, chk, R3)
    # same-hash branch: the list that replaces the request is filled only under `where == Location.LEFTONLY`
    filt = None
    for n in walk_local(fn.node):
        if isinstance(n, ast.For) and isinstance(n.iter, ast.Call) and norm(n.iter.func) == 'detect_where_sorted':
            filt = n
    chk.require(filt is not None, 'import_objects: the sorted merge of requested vs existing keys (detect_where_sorted) was not found')
    appends = [c for c in ast.walk(filt) if isinstance(c, ast.Call) and isinstance(c.func, ast.Attribute) and c.func.attr == 'append'
               and isinstance(c.func.value, ast.Name) and c.func.value.id in fn.params]
    okf = bool(appends)
    for c in appends:
        p = getattr(c, '_parent', None)
        guard = None
        while p is not None and p is not filt:
            if isinstance(p, ast.If):
                guard = p
                break
            p = getattr(p, '_parent', None)
        if guard is None or 'LEFTONLY' not in norm(guard.test) or not isinstance(guard.test, ast.Compare) or not isinstance(guard.test.ops[0], ast.Eq):
            okf = False
    args = filt.iter.args
    left_ok = len(args) >= 2 and isinstance(args[0], ast.Name)
    # the right-hand side (what the destination already holds) must cover BOTH storage forms: loose listing and index
    def expand(e, depth=0):
        out = [e]
        if depth > 5 or e is None:
            return out
        for x in ast.walk(e):
            if isinstance(x, ast.Name) and x.id not in fn.params:
                from ..effects import last_assignment
                v = last_assignment(x.id, fn, filt.lineno)
                if v is not None and v is not e:
                    out += expand(v, depth + 1)
        return out
    rhs_txt = ' '.join(norm(x) for x in expand(args[1])) if len(args) >= 2 else ''
    has_loose = '_list_loose()' in rhs_txt
    has_index = 'ORDER BY hashkey' in rhs_txt or 'order_by(Obj.hashkey' in rhs_txt
    lhs_txt = ' '.join(norm(x) for x in expand(args[0])) if args else ''
    if has_loose and has_index and 'merge_sorted' in rhs_txt:
        chk.ok(R3, IMPORT, 'existing keys = merge_sorted(sorted loose listing, index ORDER BY hashkey)', detail='both storage forms of the destination are consulted')
    else:
        chk.bad(R3, IMPORT, norm(filt.iter)[:100], f'the set of keys the destination already holds does not cover both storage forms (loose listing: {has_loose}, index scan: {has_index}): '
                'objects it already holds would be written again', where=f'{fn.module.relpath}:{filt.lineno}')
    if not ('sorted(' in lhs_txt and 'set(' in lhs_txt):
        chk.bad(R3, IMPORT, norm(args[0]) if args else '?', 'the requested keys are not de-duplicated and sorted before the merge (detect_where_sorted needs sorted unique input)', where=f'{fn.module.relpath}:{filt.lineno}')
    if okf and left_ok:
        chk.ok(R3, IMPORT, norm(filt.iter)[:100], detail='only Location.LEFTONLY keys (requested, not in the destination) are transferred')
    else:
        chk.bad(R3, IMPORT, norm(filt.iter)[:100], 'with equal hash algorithms the keys to transfer are no longer exactly those present on the left (request) only: '
                'objects the destination already holds would be written again, or requested objects skipped', where=f'{fn.module.relpath}:{filt.lineno}')

    # ---------------------------------------------------------------- R5: direction of the transfer (receiver provenance)
    R5 = chk.rule('C14.R5', 'objects are read from the source container and looked up / written / committed on the destination (self)', 2)
    srcp = next((a.arg for a in fn.node.args.args + fn.node.args.kwonlyargs if a.arg != 'self' and a.annotation is not None and 'Container' in norm(a.annotation)), None)
    chk.require(srcp is not None, 'import_objects: source container parameter not found')
    roles = {'get_objects_stream_and_meta': srcp, 'get_objects_meta': srcp, 'get_object_stream': srcp, 'get_objects_content': srcp, 'get_object_content': srcp,
             '_list_loose': 'self', '_get_operation_session': 'self', 'add_streamed_object_to_pack': 'self', 'add_objects_to_pack': 'self',
             'add_streamed_objects_to_pack': 'self', 'add_object': 'self', 'add_streamed_object': 'self', 'list_all_objects': 'self', 'has_objects': 'self', 'has_object': 'self'}
    nrecv = 0
    badrecv = []
    for c in walk_local(fn.node):
        if isinstance(c, ast.Call) and isinstance(c.func, ast.Attribute) and c.func.attr in roles and isinstance(c.func.value, ast.Name) and c.func.value.id in (srcp, 'self'):
            nrecv += 1
            if c.func.value.id != roles[c.func.attr]:
                badrecv.append(c)
    reads = [c for c in walk_local(fn.node) if isinstance(c, ast.Call) and isinstance(c.func, ast.Attribute) and c.func.attr.startswith('get_object') and norm(c.func.value) == srcp]
    chk.require(nrecv >= 4, f'import_objects: expected >= 4 container method calls with a known role, found {nrecv}')
    if badrecv:
        for c in badrecv:
            chk.bad(R5, IMPORT, norm(c)[:100], f'`{c.func.attr}` is called on `{norm(c.func.value)}` but in an import it belongs to `{roles[c.func.attr]}`: the destination is compared with / read from / written to the wrong container',
                    where=f'{fn.module.relpath}:{c.lineno}')
    elif not reads:
        chk.bad(R5, IMPORT, 'source reads', 'the objects are not read from the source container', where=f'{fn.module.relpath}:{fn.lineno}')
    else:
        chk.ok(R5, IMPORT, f'{nrecv} container calls', detail=f'reads on `{srcp}`, existence listing / writes / commit on self', evals=nrecv)
    # requested keys the source lacks are ignored: the bulk read of the source skips missing keys (explicitly, or through the callee's default)
    for c in reads:
        sk = next((k.value for k in c.keywords if k.arg == 'skip_if_missing'), c.args[1] if len(c.args) > 1 else None)
        callee = K.container.methods.get(c.func.attr)
        dflt = callee.defaults.get('skip_if_missing') if callee is not None else None
        oksk = (sk is None and isinstance(dflt, ast.Constant) and dflt.value is True) or (isinstance(sk, ast.Constant) and sk.value is True)
        if oksk:
            chk.ok(R5, IMPORT, norm(c)[:100], detail='missing source keys are skipped by the bulk reader (skip_if_missing is True)', nontrivial=False)
        else:
            chk.bad(R5, IMPORT, norm(c)[:100], 'the source is read without skipping missing keys: a requested key the source lacks yields a None stream and the import aborts instead of ignoring it',
                    where=f'{fn.module.relpath}:{c.lineno}')
    # the hash types compared to choose the branch are those of the two containers
    htest = [n for n in walk_local(fn.node) if isinstance(n, ast.If) and 'hash_type' in norm(n.test) and isinstance(n.test, ast.Compare)]
    if htest and {norm(htest[0].test.left), norm(htest[0].test.comparators[0])} == {'self.hash_type', f'{srcp}.hash_type'} and isinstance(htest[0].test.ops[0], (ast.Eq, ast.NotEq)):
        chk.ok(R5, IMPORT, norm(htest[0].test), detail='branch chosen by comparing the two containers\' hash algorithms')
    else:
        chk.bad(R5, IMPORT, norm(htest[0].test) if htest else 'hash type test', 'the same-hash fast path is not selected by comparing self.hash_type with the source container\'s hash_type: '
                'with different algorithms keys would be compared that can never match (or everything is re-hashed needlessly)', where=f'{fn.module.relpath}:{(htest[0].lineno if htest else fn.lineno)}')

    import_mapping_and_flush(ctx, chk, R4)

    # rules of other properties that are necessary conditions of this one too: imported bytes are identical only if the direct-to-pack write path round-trips (C01)
    if host is None:
        from ..report import host_modules
        host_modules(chk, ctx, ['C01', 'C09', 'C17'])

    return chk.finish(
        explanation=('Static checks of import_objects: a linear typestate for every Iterable-annotated parameter of the package (at most one consumption per path before '
                     'materialisation), option forwarding at the three add call sites, a single final commit that every normal path passes, the branch table (same hash: '
                     'only Location.LEFTONLY keys; different hash: constant propagation shows no_holes and read-twice are True at every add call), and lockstep growth of the '
                     'old/new key lists with cache reset and final flush.'),
        rule_text='obligation = (rule, site); non-trivial = decided by a path query, constant propagation or def-use matching',
        assumptions=['add_objects_to_pack returns keys in the order of its input (C01/C09 rules)', 'dict preserves insertion order (Python >= 3.7)'],
        not_decided='byte identity of the transferred objects (values).')
