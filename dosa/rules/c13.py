"""C13 -- packs are append-only and filled in order (DESIGN 5, C13)."""
from __future__ import annotations

import ast

from ..kinds import alts
from ..loader import norm, walk_local
from ..report import Check
from ..resolve import UNKNOWN, fold
from ..solver import Machine, Violation
from ..solver import run as solve
from .common import Summaries, areas, in_area, is_lock_path, is_tmp_pack, specialisations, strip_not, write_policy
from .machines import PackSites, _enclosing_loop, is_pack_write_handle

SELECT = 'container:Container._get_pack_id_to_write_to'
WRITERS = ('container:Container.pack_all_loose', 'container:Container.add_streamed_objects_to_pack')


def _is_tell_on_append(K, expr, frame):
    if isinstance(expr, ast.Call) and isinstance(expr.func, ast.Attribute) and expr.func.attr == 'tell':
        hk = K.kind(expr.func.value, frame)
        return any(is_pack_write_handle(K, a) for a in alts(hk))
    return False


class TargetMachine(Machine):
    """R2: in the write loops the target pack is re-selected before every object, with the locked handle's *current*
    position as known size, and a different answer leaves the loop before anything is written.
    State = (consulted, guarded, fresh vars, rewind vars).  Runs on the graph with exception edges: a write interrupted by an
    exception that a handler tolerates invalidates remembered positions as well."""
    edge_kinds = ('n', 'e')

    def __init__(self, ctx, g, rule='C13.R2', rule3='C13.R3'):
        self.ctx = ctx
        self.K, self.E = ctx.kinds, ctx.effects
        self.rule = rule
        self.rule3 = rule3
        self.top = g.top
        S = PackSites(ctx, g)
        self.heads = {nid for nid, fid in S.loop_heads.items() if fid == g.top.id}
        self.consults = {}
        self.result_vars = set()
        for n in g.nodes:
            if n.frame is g.top and n.kind in ('enter', 'call') and n.callee is not None and n.callee.kind == 'internal' \
                    and n.callee.target.qualname == SELECT and isinstance(n.ast, ast.Call):
                inloop = _enclosing_loop(n.ast) is not None
                self.consults[n.id] = inloop
                p = getattr(n.ast, '_parent', None)
                if isinstance(p, ast.Assign) and len(p.targets) == 1 and isinstance(p.targets[0], ast.Name):
                    self.result_vars.add(p.targets[0].id)
        self.loop_consults = {nid for nid, il in self.consults.items() if il}
        self.seeks = 0

    def initial(self, g):
        return [(False, False, frozenset(), frozenset())]

    def edge_state(self, edge, st, node, g):
        c = edge.cond
        if c is not None:
            ce, cpol = strip_not(c[0], c[2])
            c = (ce, c[1], cpol)
        if c is not None and c[1] is self.top and isinstance(c[0], ast.Compare) and len(c[0].ops) == 1 \
                and isinstance(c[0].ops[0], (ast.Eq, ast.NotEq)):
            names = {x.id for x in ast.walk(c[0]) if isinstance(x, ast.Name)}
            if names & self.result_vars and len(names) >= 2:
                equal = c[2] if isinstance(c[0].ops[0], ast.Eq) else not c[2]
                if equal:
                    return (st[0], True, st[2], st[3])
        return st

    def transfer(self, node, st, g):
        consulted, guarded, fresh, rew = st
        viol = []
        K = self.K
        if node.id in self.heads:
            return [(False, False, fresh, frozenset())]
        if node.frame is self.top and node.kind == 'stmt':
            a = node.ast
            if isinstance(a, (ast.Assign, ast.AnnAssign)):
                tgt = a.targets[0] if isinstance(a, ast.Assign) and len(a.targets) == 1 else getattr(a, 'target', None)
                if isinstance(tgt, ast.Name) and a.value is not None:
                    if _is_tell_on_append(K, a.value, node.frame):
                        fresh = fresh | {tgt.id}
                        rew = rew | {tgt.id}
                    else:
                        fresh = fresh - {tgt.id}
                        rew = rew - {tgt.id}
            elif isinstance(a, ast.AugAssign) and isinstance(a.target, ast.Name):
                fresh = fresh - {a.target.id}
                rew = rew - {a.target.id}
        if node.id in self.consults:
            kw = [k for k in node.ast.keywords if k.arg == 'known_sizes']
            val = kw[0].value if kw else (node.ast.args[0] if node.ast.args else None)
            if node.id in self.loop_consults:
                if not isinstance(val, ast.Dict) or not val.values:
                    viol.append(Violation(self.rule, node, st, 'inside the write loop the target pack is selected without the known size of the locked pack: '
                                          'stat() of a file with unflushed appends under-reports its size'))
                else:
                    for v in val.values:
                        if _is_tell_on_append(K, v, node.frame):
                            continue
                        if isinstance(v, ast.Name) and v.id in fresh:
                            continue
                        viol.append(Violation(self.rule, node, st, f'the known size passed for the locked pack (`{norm(v)}`) is not the handle\'s current position: it is not a '
                                              'tell() taken after the last write/seek/truncate on the handle, so the fill decision uses a stale or estimated size'))
                consulted, guarded = True, False
        for e in self.E.of(node):
            if e[0] in ('H_WRITE', 'H_SEEK', 'H_TRUNCATE') and is_pack_write_handle(K, e[1]):
                fresh = frozenset()
                if e[0] == 'H_WRITE' and any(g.nodes[h].ast is not None for h in self.heads):
                    if not consulted:
                        viol.append(Violation(self.rule, node, st, 'an object is written to the locked pack without re-selecting the target pack in this iteration '
                                              '(the pack may already have reached its target size)'))
                    elif not guarded:
                        viol.append(Violation(self.rule, node, st, 'an object is written to the locked pack although the re-selected target pack was not compared with the '
                                              'locked one (a different target must break out and re-lock)'))
                if e[0] == 'H_SEEK':
                    self.seeks += 1
                    arg = node.ast.args[0] if node.ast.args else None
                    if not (isinstance(arg, ast.Name) and arg.id in rew):
                        viol.append(Violation(self.rule3, node, st, f'seek target `{norm(arg) if arg is not None else "?"}` of the append handle is not a tell() taken earlier in the same iteration: '
                                              'the rewind could go below bytes that were committed before this call'))
                    if len(node.ast.args) > 1:
                        viol.append(Violation(self.rule3, node, st, 'seek with a whence argument on the pack handle'))
                if e[0] == 'H_TRUNCATE' and node.ast.args:
                    viol.append(Violation(self.rule3, node, st, 'truncate(size) with an explicit size on a pack handle (only truncate() at the rewound/current position is tail-safe)'))
        return [(consulted, guarded, fresh, rew)] + viol


def run(ctx, host=None):
    chk = host.sub('C13') if host is not None else Check('C13', ctx)
    prog, K, E = ctx.prog, ctx.kinds, ctx.effects
    R1 = chk.rule('C13.R1', 'pack files are opened for writing only by lock_pack, in append mode; written only through that handle', 2)
    R2 = chk.rule('C13.R2', 'target pack re-selected before every object with the handle\'s current position; different target => re-lock', 2)
    R2s = chk.rule('C13.R2s', '_get_pack_id_to_write_to: starts at the cached id or 0, advances by 1, stops at the first missing or non-full pack', 4)
    R3 = chk.rule('C13.R3', 'seek/truncate on a pack handle only rewinds to a tell() of the same iteration (tail-only)', 1)
    R4 = chk.rule('C13.R4', 'no unlink/rename/link/replace of a pack file outside repack_pack', 1)
    S = Summaries(ctx)
    pol = write_policy(depth=5)

    # ---------------------------------------------------------------- R1 / R4 (ownership scans)
    nopen = nwrite = 0
    r1bad = r4bad = False
    from .common import CallGraph, resolved_effect_sites
    cgraph = CallGraph(ctx, S)
    WANTED = {'OPEN', 'WRITE_PATH', 'TRUNCATE_PATH', 'TOUCH', 'COPY', 'MOVE', 'UNLINK', 'RENAME', 'REPLACE', 'LINK', 'H_WRITE'}
    for f0, n, e in resolved_effect_sites(ctx, S, cgraph, WANTED):
        # an effect in a private helper belongs to the functions that call it (climb until lock_pack / repack_pack or a public root)
        for f in [prog.fn(q) for q in sorted(cgraph.owners(f0.qualname, lambda q: q in ('container:Container.lock_pack', 'container:Container.repack_pack')))]:
            if True:
                if e[0] == 'OPEN' and 'packs' in areas(K, e[1]) and not is_lock_path(K, e[1]) and any(c in (e[2] or '') for c in 'wax+'):
                    nopen += 1
                    if f.qualname != 'container:Container.lock_pack' or e[2] != 'ab':
                        r1bad = True
                        chk.bad(R1, f.qualname, norm(n), f'a pack file is opened with mode {e[2]!r} outside lock_pack / not in pure append mode: existing pack bytes could be overwritten or truncated',
                                where=f'{f.module.relpath}:{n.lineno}')
                elif e[0] in ('WRITE_PATH', 'TRUNCATE_PATH', 'TOUCH', 'COPY', 'MOVE') and ('packs' in areas(K, e[1]) or (len(e) > 2 and isinstance(e[2], tuple) and 'packs' in areas(K, e[2]))):
                    r1bad = True
                    chk.bad(R1, f.qualname, norm(n), f'{e[0]} on a pack path', where=f'{f.module.relpath}:{n.lineno}')
                elif e[0] in ('UNLINK', 'RENAME', 'REPLACE', 'LINK') and any('packs' in areas(K, x) and not is_lock_path(K, x) for x in e[1:3] if isinstance(x, tuple) and x and x[0] in ('path', 'join')):
                    if f.qualname != 'container:Container.repack_pack':
                        r4bad = True
                        chk.bad(R4, f.qualname, norm(n), f'{e[0]} of a pack file outside repack_pack', where=f'{f.module.relpath}:{n.lineno}')
                    else:
                        chk.count(R4)
                elif e[0] == 'H_WRITE' and e[1][0] == 'handle' and 'packs' in areas(K, e[1][1]):
                    nwrite += 1
    chk.require(nopen >= 1, 'lock_pack: open(pack_file, "ab") not found')
    # exclusivity of the lock: the lock file is created with mode 'x' (fails if it exists) and the pack is opened inside that with-block
    lk = prog.fn('container:Container.lock_pack')
    lock_open = pack_open = None
    same_with_order = False
    for n in walk_local(lk.node):
        if isinstance(n, ast.With):
            for it_i, it in enumerate(n.items):
                c = it.context_expr
                if isinstance(c, ast.Call):
                    hk = K.kind(c, K.top_frame(lk))
                    hk = next((a for a in alts(hk) if a and a[0] == 'handle'), hk)
                    if hk[0] == 'handle' and is_lock_path(K, hk[1]):
                        lock_open = (n, hk[2], it_i)
                    elif hk[0] == 'handle' and 'packs' in areas(K, hk[1]):
                        pack_open = n
                        if lock_open and lock_open[0] is n and lock_open[2] < it_i:
                            same_with_order = True  # `with open(lock, 'x'), open(pack, 'ab') as h:` -- items are entered left to right
    nested = False
    if lock_open and pack_open:
        q = getattr(pack_open, '_parent', None)
        while q is not None:
            if q is lock_open[0]:
                nested = True
            q = getattr(q, '_parent', None)
    if lock_open and lock_open[1] == 'x' and (nested or same_with_order):
        chk.ok(R1, lk.qualname, "with open(lock_file, 'x'): with open(pack_file, 'ab')", detail='exclusive creation of the lock file encloses the append handle: one writer per pack')
    else:
        chk.bad(R1, lk.qualname, f"lock file mode {lock_open[1] if lock_open else None!r}", "the lock file is not created exclusively (mode 'x') around the append handle: two packers could append to the same pack "
                "and interleave their objects (every single-packer assumption of the other rules breaks)", where=f'{lk.module.relpath}:{lk.lineno}')
    if not r1bad:
        chk.ok(R1, 'container:Container.lock_pack', f'{nopen} write-open site(s) on pack paths', detail="only lock_pack, mode 'ab'")
    # writes go through the locked handle: in the writers' ICFGs every H_WRITE on a pack handle has the lock_pack open as its site
    for q in WRITERS + ('container:Container.repack_pack',):
        g = ctx.icfg(q, {}, pol, key='wp5')
        reach = g.reachable()
        sites = set()
        nw = 0
        for n in g.nodes:
            if n.id in reach:
                for e in E.of(n):
                    if e[0] == 'H_WRITE' and e[1][0] == 'handle' and 'packs' in areas(K, e[1][1]):
                        nw += 1
                        sites.add(e[1][3])
        lock = prog.fn('container:Container.lock_pack')
        lock_opens = {id(n) for n, cal, effs in S.calls(lock) for e in effs if e[0] == 'OPEN' and e[2] == 'ab'}
        # ... or by a private helper that only lock_pack calls
        for hf in prog.all_functions():
            if hf is not lock and cgraph.owners(hf.qualname, lambda q2: q2 == lock.qualname) == {lock.qualname}:
                lock_opens |= {id(n) for n, cal, effs in S.calls(hf) for e in effs if e[0] == 'OPEN' and e[2] == 'ab'}
        chk.require(nw >= 1, f'{q}: no write to a pack handle found')
        if sites <= lock_opens:
            chk.ok(R1, q, f'{nw} pack write site(s)', detail='all through the handle opened by lock_pack')
        else:
            chk.bad(R1, q, 'pack writes', 'a pack is written through a handle that was not opened by lock_pack (no exclusive lock, unknown mode)', where=f'{g.fn.module.relpath}:{g.fn.lineno}')
    if not r4bad:
        chk.ok(R4, 'container:Container.repack_pack', 'unlink/link of pack files', detail='only repack_pack removes or links pack files')

    # ---------------------------------------------------------------- R2 / R3 (write loops)
    nseek = 0
    for q in WRITERS:
        fn = prog.fn(q)
        combos = [{}] if not ctx.thorough else list(specialisations(fn, {}))
        if q.endswith('add_streamed_objects_to_pack') and not ctx.thorough:
            combos = list(specialisations(fn, {}, free={'do_fsync', 'do_commit', 'open_streams', 'compress'}))
        bad = False
        for consts in combos:
            g = ctx.icfg(q, consts, pol, key='wp5')
            m = TargetMachine(ctx, g)
            chk.require(m.heads, f'{q}: write loop not found')
            viols, st = solve(g, m)
            chk.crash_points += st['pairs']
            chk.specialisations += 1
            nseek += m.seeks
            for v in viols:
                bad = True
                chk.bad(v.rule, q, v.node.text(140), v.msg + f' [flags {consts}]', where=v.node.where, witness=v.witness)
        if not bad:
            chk.ok(R2, q, f'{len(combos)} flag combination(s)', detail='consult -> compare -> write in every iteration; known size = tell() not invalidated by write/seek/truncate', evals=len(combos))
        # lock argument provenance
        for n in walk_local(fn.node):
            if isinstance(n, ast.Call) and isinstance(n.func, ast.Attribute) and n.func.attr == 'lock_pack' and n.args:
                names = [x.id for x in ast.walk(n.args[0]) if isinstance(x, ast.Name) and x.id != 'str']
                okp = bool(names)
                for nm in names:
                    for a in walk_local(fn.node):
                        if isinstance(a, ast.Assign) and len(a.targets) == 1 and isinstance(a.targets[0], ast.Name) and a.targets[0].id == nm:
                            if not (isinstance(a.value, ast.Call) and norm(a.value.func).endswith('_get_pack_id_to_write_to')):
                                okp = False
                if okp:
                    chk.ok(R2, q, norm(n), detail='locked id comes from _get_pack_id_to_write_to()', nontrivial=False)
                else:
                    chk.bad(R2, q, norm(n), 'the pack that gets locked and written is not the one selected by _get_pack_id_to_write_to()', where=f'{fn.module.relpath}:{n.lineno}')
    if nseek >= 1 and not [f for f in chk.findings if f.rule == R3]:
        chk.ok(R3, WRITERS[1], f'{nseek} seek site visit(s)', detail='seek target is a tell() of the same iteration; truncate() without size')
    chk.require(nseek >= 1, 'no seek on a pack handle found (no_holes rewind vanished)')

    # ---------------------------------------------------------------- R2s (structure of the selector)
    sel = prog.fn(SELECT)
    assigns = [n for n in walk_local(sel.node) if isinstance(n, (ast.Assign, ast.AugAssign)) and isinstance(getattr(n, 'target', None) or n.targets[0], ast.Name)]
    ret = [n for n in walk_local(sel.node) if isinstance(n, ast.Return) and isinstance(n.value, ast.Name)]
    chk.require(ret, f'{SELECT}: `return <name>` not found')
    var = ret[-1].value.id
    inits = [n for n in assigns if isinstance(n, ast.Assign) and n.targets[0].id == var]
    incs = [n for n in assigns if isinstance(n, ast.AugAssign) and n.target.id == var]
    ok = True
    if len(inits) == 1:
        txt = norm(inits[0].value)
        ival = inits[0].value
        # a start value held in a local that is bound once (`first = self._current_pack_id or 0; pack_id = first`) is followed
        for _ in range(2):
            if isinstance(ival, ast.Name):
                one = [n for n in assigns if isinstance(n, ast.Assign) and n.targets[0].id == ival.id]
                if len(one) == 1 and not [n for n in assigns if isinstance(n, ast.AugAssign) and n.target.id == ival.id]:
                    ival = one[0].value
        vnames = {x.attr for x in ast.walk(ival) if isinstance(x, ast.Attribute)} | {x.id for x in ast.walk(ival) if isinstance(x, ast.Name)}
        consts = [x.value for x in ast.walk(ival) if isinstance(x, ast.Constant)]
        if vnames <= {'self', '_current_pack_id'} and all(c == 0 for c in consts) and not any(isinstance(x, ast.Call) for x in ast.walk(ival)):
            chk.ok(R2s, SELECT, norm(inits[0]), detail='search starts at the cached id or 0')
        else:
            ok = False
            chk.bad(R2s, SELECT, norm(inits[0]), 'the search for the pack to write to does not start at the cached id / 0: lower-numbered packs that are not full would be skipped '
                    'or packs not numbered consecutively', where=f'{sel.module.relpath}:{inits[0].lineno}')
    else:
        chk.bad(R2s, SELECT, f'{var} = ...', f'expected exactly one initial assignment of `{var}`, found {len(inits)}', where=f'{sel.module.relpath}:{sel.lineno}')
    if len(incs) == 1 and isinstance(incs[0].op, ast.Add) and fold(prog, incs[0].value, sel) == 1:
        chk.ok(R2s, SELECT, norm(incs[0]), detail='advances by exactly one')
    else:
        chk.bad(R2s, SELECT, f'{var} += 1', 'the pack id does not advance by exactly 1 (packs must be numbered consecutively)', where=f'{sel.module.relpath}:{sel.lineno}')
    # stop conditions
    stops = {'missing': False, 'notfull': False}
    for n in walk_local(sel.node):
        if isinstance(n, ast.If) and any(isinstance(x, ast.Break) for x in n.body):
            t = n.test
            if isinstance(t, ast.UnaryOp) and isinstance(t.op, ast.Not) and isinstance(t.operand, ast.Call) and norm(t.operand.func).endswith('.exists'):
                stops['missing'] = True
            if isinstance(t, ast.Compare) and len(t.ops) == 1:
                l, r, op = norm(t.left), norm(t.comparators[0]), t.ops[0]
                if ('pack_size_target' in r and isinstance(op, ast.Lt) and 'pack_size_target' not in l) or \
                        ('pack_size_target' in l and isinstance(op, ast.Gt) and 'pack_size_target' not in r):
                    stops['notfull'] = True
    for k2, v in stops.items():
        if v:
            chk.ok(R2s, SELECT, f'stop condition: {k2}', detail='first pack that does not exist / is strictly below the target size', nontrivial=False)
        else:
            chk.bad(R2s, SELECT, f'stop condition: {k2}', 'the loop no longer stops at the first pack that ' + ('does not exist' if k2 == 'missing' else 'is strictly below pack_size_target (a full pack would be written again, or a non-full one skipped)'),
                    where=f'{sel.module.relpath}:{sel.lineno}')
    # the cache remembers exactly the id that is returned (a larger value would skip a pack that is not full yet)
    cache = [n for n in walk_local(sel.node) if isinstance(n, ast.Assign) and isinstance(n.targets[0], ast.Attribute) and n.targets[0].attr == '_current_pack_id']
    if len(cache) == 1 and isinstance(cache[0].value, ast.Name) and cache[0].value.id == var and not isinstance(getattr(cache[0], '_parent', None), (ast.While, ast.For, ast.If)):
        chk.ok(R2s, SELECT, norm(cache[0]), detail='the cached starting point is the returned id itself')
    else:
        chk.bad(R2s, SELECT, norm(cache[0]) if cache else '_current_pack_id', 'the cached pack id is not exactly the id returned: the next search would start beyond a pack that is not full (or the cache is set conditionally)',
                where=f'{sel.module.relpath}:{(cache[0].lineno if cache else sel.lineno)}')
    # size source: the caller's known size of the locked pack wins over stat() (stat under-reports a file with buffered appends)
    kparam = sel.params[0] if sel.params else None
    szv = None
    for n in walk_local(sel.node):
        if isinstance(n, ast.If) and isinstance(n.test, ast.Compare) and len(n.test.ops) == 1 and 'pack_size_target' in norm(n.test):
            side = n.test.left if isinstance(n.test.left, ast.Name) else (n.test.comparators[0] if isinstance(n.test.comparators[0], ast.Name) else None)
            if side is not None:
                szv = side.id
    okks = False
    if kparam and szv:
        for n in walk_local(sel.node):
            if isinstance(n, ast.If) and kparam in {x.id for x in ast.walk(n.test) if isinstance(x, ast.Name)} and var in {x.id for x in ast.walk(n.test) if isinstance(x, ast.Name)}:
                tb = [a for a in n.body if isinstance(a, ast.Assign) and norm(a.targets[0]) == szv]
                fb = [a for a in n.orelse if isinstance(a, ast.Assign) and norm(a.targets[0]) == szv]
                if len(tb) == 1 and len(fb) == 1 and norm(tb[0].value) == f'{kparam}[{var}]' and 'stat()' in norm(fb[0].value) and any(isinstance(c, ast.In) for x in ast.walk(n.test) if isinstance(x, ast.Compare) for c in x.ops):
                    okks = True
        # alternative spelling: size = known.get(pack_id) ... fall back to stat when None
        for n in walk_local(sel.node):
            if isinstance(n, ast.Assign) and norm(n.targets[0]) == szv and norm(n.value).replace(' ', '') in (f'{kparam}.get({var})',):
                okks = True
    if okks:
        chk.ok(R2s, SELECT, f'{szv} = {kparam}[{var}] if known else stat()', detail='the known size of the (locked, possibly unflushed) pack is used when given')
    else:
        chk.bad(R2s, SELECT, 'size source', f'the size compared with pack_size_target is not `{kparam}[{var}]` when the caller knows it: stat() of the locked pack misses buffered appends, so the '
                'fill decision lags and a pack grows beyond its target before the next one is started', where=f'{sel.module.relpath}:{sel.lineno}')
    # the cached starting point of the selector is dropped when the container is cleared (else the new container starts at pack N instead of 0)
    ic = prog.fn('container:Container.init_container')
    clear_ifs = [n for n in walk_local(ic.node) if isinstance(n, ast.If) and norm(n.test) == 'clear']
    reset = any(isinstance(a, ast.Assign) and isinstance(a.value, ast.Constant) and a.value.value is None and any(isinstance(t, ast.Attribute) and t.attr == '_current_pack_id' for t in a.targets)
                for ci in clear_ifs for b in ci.body for a in ast.walk(b))
    if reset:
        chk.ok(R2s, ic.qualname, 'self._current_pack_id = None under `if clear:`', detail='a cleared container starts numbering its packs at 0 again', nontrivial=False)
    else:
        chk.bad(R2s, ic.qualname, '_current_pack_id not reset', 'clearing the container does not reset the cached pack id: packs of the new container are not numbered from 0, and a fresh handle later writes below them',
                where=f'{ic.module.relpath}:{ic.lineno}')
    # rules of other properties that are necessary conditions of this one too: rows that designate bytes beyond the end of the pack (commit before the
    # bytes left the buffer) make a later append land inside a referenced range (C03)
    if host is None:
        from ..report import host_modules
        host_modules(chk, ctx, ['C03'])

    return chk.finish(
        explanation=('Static ownership and typestate rules for the rsync-friendly layout: closed-world scan of every call that can open, write, truncate, rename, '
                     'link or unlink a path below packs/ (only lock_pack opens for writing, mode "ab"; only repack_pack removes/links); a per-iteration machine on the '
                     'two write loops (target pack re-selected before every object with a tell() that no write/seek/truncate invalidated, compared with the locked '
                     'id, different => re-lock; seek only to a tell() of the same iteration, truncate() without size); and the structure of the selector.'),
        rule_text='obligation = (rule, function/site, flag combination); non-trivial = decided by a path query or kind-resolved scan',
        assumptions=['append mode (O_APPEND) never overwrites existing bytes', 'one packer at a time (exclusive lock file)'],
        not_decided='byte-for-byte immutability across histories as values; that tell() equals the file size (trusted: O_APPEND + typestate C09.R3).')
