"""C05 -- a process crash at any point never loses or tears an object (DESIGN 5, C05).

Crash model in the abstraction: execution stops between any two ICFG nodes; user-space buffers (writes not followed by
flush/close) are lost; everything else persists.  The machines' transition guards are evaluated at every reachable
(node, state) pair of the normal-edge graph, for every path and loop iteration.
"""
from __future__ import annotations

import ast

from ..kinds import alts
from ..loader import norm, walk_local
from ..report import Check
from ..solver import Machine, Violation
from ..solver import run as solve
from .common import areas, in_area, origin, root_name, sess_edge, sess_effect, write_policy
from .machines import LooseMachine, PackMachine, PackSites, explore, loose_key_expr, report_violations
from .repack import RepackMachine


class DeleteMachine(Machine):
    """M-DELETE: loose/duplicate files of the requested keys are removed before the index rows; one commit, after the
    chunk loop."""

    def __init__(self, ctx, g, rule='C05.R5'):
        self.E, self.K = ctx.effects, ctx.kinds
        self.rule = rule
        self.top = g.top
        self.seen = set()

    def initial(self, g):
        return [(False, 0)]

    def transfer(self, node, st, g):
        deleted, commits = st
        viol = []
        for e in self.E.of(node):
            if e[0] == 'DB_DELETE':
                deleted = True
                self.seen.add('delete')
            elif e[0] == 'UNLINK' and (areas(self.K, e[1]) & {'loose', 'duplicates'}):
                self.seen.add('unlink')
                if deleted:
                    viol.append(Violation(self.rule, node, st, 'a loose/duplicate file is removed after index rows were already deleted: '
                                          'a crash in between can turn a packed object back into a loose one'))
            elif e[0] == 'DB_COMMIT':
                self.seen.add('commit')
                lp = node.ast
                inloop = False
                n = getattr(node.ast, '_parent', None)
                while n is not None and not isinstance(n, (ast.FunctionDef, ast.AsyncFunctionDef)):
                    if isinstance(n, (ast.For, ast.While)):
                        inloop = True
                    n = getattr(n, '_parent', None)
                if inloop and node.frame is self.top:
                    viol.append(Violation(self.rule, node, st, 'commit inside the chunk loop: a crash leaves a partially deleted request committed '
                                          'while the operation is documented as one final commit'))
                commits = min(commits + 1, 2)
        return [(deleted, commits)] + viol

    def at_exit(self, node, st, g):
        if node is g.exit and st[0] and st[1] == 0:
            return [Violation(self.rule, node, st, 'index rows deleted but never committed on this path')]
        return []


class CleanMachine(Machine):
    """M-CLEAN: the query whose rows justify unlinking loose files runs on a session refreshed after function entry."""

    def __init__(self, ctx, g, feeding_queries, unlink_nodes, rule='C05.R3'):
        self.E = ctx.effects
        self.K = ctx.kinds
        self.rule = rule
        self.feeding = feeding_queries
        self.unlinks = unlink_nodes

    def initial(self, g):
        return [('?', False)]

    def edge_state(self, edge, st, node, g):
        s2 = sess_edge(edge, st[0], self.K)
        return None if s2 is None else (s2, st[1])

    def transfer(self, node, st, g):
        fresh, stale = st
        viol = []
        for e in self.E.of(node):
            fresh = sess_effect(e, fresh)
            if e[0] == 'DB_QUERY' and node.id in self.feeding:
                if fresh != 'fresh':
                    stale = True
        if node.id in self.unlinks and stale:
            viol.append(Violation(self.rule, node, st, 'loose files are unlinked on the basis of an index query that ran on a session '
                                  'not refreshed since function entry (it may show uncommitted or outdated rows)'))
        return [(fresh, stale)] + viol


def run(ctx, host=None):
    chk = host.sub('C05') if host is not None else Check('C05', ctx)
    prog, K, E = ctx.prog, ctx.kinds, ctx.effects
    R1 = chk.rule('C05.R1', 'loose object: written in sandbox, flushed+closed, published by one atomic rename/replace', 0)
    R1o = chk.rule('C05.R1o', 'nobody opens for writing / writes a file under loose/ (ownership)', 1)
    R2 = chk.rule('C05.R2', 'pack: row committed only with its bytes flushed; loose unlinked only after its row is committed', 5)
    R3 = chk.rule('C05.R3', 'clean_storage: unlink decided on a query that ran after a session refresh', 1)
    R4 = chk.rule('C05.R4', 'repack: the file the committed index designates is always present and flushed', 1)
    R5 = chk.rule('C05.R5', 'delete: files first, then rows, one commit after the loop', 1)
    pol = write_policy(depth=5)

    # R1o: ownership scan over every function of the package
    from .common import loose_write_ownership
    loose_write_ownership(ctx, chk, R1o)

    # R1
    q = 'container:Container.add_streamed_object'
    found, m = explore(ctx, chk, q, {}, lambda g, c: LooseMachine(ctx, g, require_durable=False), pol, 'wp5')
    report_violations(chk, q, found)
    if not [f for f in chk.findings if f.rule == R1o]:
        chk.require(m.publishes >= 1, 'no publish (rename/replace sandbox -> loose) found in the loose write path')
    if not found and m.publishes:
        chk.ok(R1, q, 'ObjectWriter inlined', detail=f'{m.publishes} publish site(s): all with the handle flushed and closed')

    # R2
    from .common import pack_writing_entries
    entries = pack_writing_entries(ctx)
    chk.require(len(entries) >= 5, f'expected >= 5 pack-writing entry points, found {entries}')
    for q in entries:
        def mk(g, consts, _q=q):
            ce = ('do_commit' not in prog.fn(_q).params) or consts.get('do_commit') is True
            return PackMachine(ctx, g, require_durable=False, commit_expected=ce)
        fixed = {}
        if 'do_commit' in prog.fn(q).params and not ctx.thorough:
            fixed['do_commit'] = True
        found, m = explore(ctx, chk, q, fixed, mk, pol, 'wp5')
        report_violations(chk, q, found)
        chk.require(m.sites.insert_nodes and m.sites.stage_nodes, f'{q}: no INSERT/staging site found')
        if q.endswith('pack_all_loose'):
            chk.require(m.sites.tracked_unlinks, f'{q}: no tracked unlink of loose files found (clean_loose_per_pack path)')
        if not found:
            chk.ok(R2, q, f'{len(m.sites.stage_nodes)} staging / {len(m.sites.insert_nodes)} insert / {len(m.sites.tracked_unlinks)} tracked-unlink site(s)',
                   detail='COMMIT only with bytes flushed; UNLINK(loose) only after COMMIT; every staged row inserted')

    # R3
    q = 'container:Container.clean_storage'
    g = ctx.icfg(q, {}, pol, key='wp5')
    from .c04 import clean_sites
    unlinks, feeding = clean_sites(ctx, chk, g)
    m = CleanMachine(ctx, g, feeding, unlinks)
    viols, st = solve(g, m)
    chk.crash_points += st['pairs']
    chk.specialisations += 1
    for v in viols:
        chk.bad(R3, q, v.node.text(120), v.msg, where=v.node.where, witness=v.witness)
    if not viols:
        chk.ok(R3, q, f'{len(unlinks)} unlink site(s) fed by {len(feeding)} query site(s)', detail='every feeding query runs after the session refresh')

    # R4
    q = 'container:Container.repack_pack'
    found, m = explore(ctx, chk, q, {}, lambda g, c: RepackMachine(ctx, g, require_durable=False), pol, 'wp5')
    report_violations(chk, q, found)
    chk.require({'commit', 'unlink-old', 'link', 'unlink-tmp', 'update', 'write-tmp'} <= m.seen_effects, f'repack_pack: expected effects not found, saw {sorted(m.seen_effects)}')
    if not found:
        chk.ok(R4, q, 'repack state machine', detail=f'effects visited: {sorted(m.seen_effects)}')

    # R5
    q = 'container:Container.delete_objects'
    g = ctx.icfg(q, {}, pol, key='wp5')
    m = DeleteMachine(ctx, g)
    viols, st = solve(g, m)
    chk.crash_points += st['pairs']
    chk.specialisations += 1
    chk.require({'delete', 'unlink', 'commit'} <= m.seen, f'delete_objects: expected effects not found, saw {sorted(m.seen)}')
    for v in viols:
        chk.bad(R5, q, v.node.text(120), v.msg, where=v.node.where, witness=v.witness)
    if not viols:
        chk.ok(R5, q, 'delete ordering', detail='UNLINK(dup/loose) precede DELETE on all paths; single commit after the loop')

    from .common import transaction_premises
    R6 = chk.rule('C05.R6', 'transaction premises: explicit BEGIN, no autocommit, only PRAGMA journal_mode=wal', 1)
    transaction_premises(ctx, chk, R6)

    # after an interrupted repack the committed rows designate the scratch pack: a reader must serve them (or fail loudly), never filter them out
    from .common import accumulators_grow_only
    accumulators_grow_only(ctx, chk, R4, ['container:Container._get_objects_stream_meta_generator'])

    from .common import option_forwarding
    R7 = chk.rule('C05.R7', 'do_commit is forwarded unchanged by every wrapper (a dropped do_commit=False would commit in the middle of an import)', 1)
    nf = option_forwarding(ctx, chk, R7, ['do_commit'])
    chk.require(nf >= 2, f'expected >= 2 forwarding sites of do_commit, found {nf}')
    # the public default is to commit: a caller that does not mention do_commit gets its objects committed before the call returns
    ndef = 0
    for f in prog.all_functions():
        if isinstance(f.node, ast.Lambda) or f.cls is not K.container or 'do_commit' not in f.params:
            continue
        a = f.node.args
        pos = a.posonlyargs + a.args
        dflt = dict(zip([x.arg for x in pos][len(pos) - len(a.defaults):], a.defaults))
        dflt.update({x.arg: d for x, d in zip(a.kwonlyargs, a.kw_defaults) if d is not None})
        d = dflt.get('do_commit')
        ndef += 1
        if isinstance(d, ast.Constant) and d.value is True:
            chk.ok(R7, f.qualname, 'do_commit: bool = True', detail='commit unless the caller asks otherwise', nontrivial=False)
        else:
            chk.bad(R7, f.qualname, f'do_commit default `{norm(d) if d is not None else "<none>"}`', 'the default of do_commit is no longer True: a caller that relies on the default gets its objects '
                    'acknowledged (keys returned) but not committed -- invisible to other handles and lost when the handle is closed or the process dies', where=f'{f.module.relpath}:{f.lineno}')
    chk.require(ndef >= 3, f'expected >= 3 Container methods with a do_commit parameter, found {ndef}')

    # rules of other properties that are necessary conditions of this one too: crash safety assumes packs are never truncated or rewritten in place by later operations (C13)
    if host is None:
        from ..report import host_modules
        host_modules(chk, ctx, ['C13'])

    return chk.finish(
        explanation=('Static typestate analysis on inlined control-flow graphs with a generic-object construction: for every reachable '
                     '(node, state) pair -- i.e. every boundary between two I/O-relevant calls, on every path and loop iteration, per flag '
                     'specialisation -- the invariants "committed row => bytes flushed", "loose file removed => row committed", "published => '
                     'flushed and closed", and the repack/delete state invariants are enforced as transition guards.'),
        rule_text=('obligation = (rule, entry point, specialisation); crash_points = reachable (node, abstract state) pairs; non-trivial = '
                   'decided by a path query'),
        assumptions=['POSIX rename/replace/link atomicity', 'SQLite atomic commit', 'O_APPEND semantics', 'single packer (as the library requires)',
                     'generator bodies are treated as consumed eagerly at the call that receives them'],
        not_decided='the real kernel/SQLite state after a kill; byte-level completeness of files (only the ordering of effects).')
