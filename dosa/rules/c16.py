"""C16 -- bulk operations do not depend on batch size or internal lookup strategy (DESIGN 5, C16)."""
from __future__ import annotations

import ast

from ..effects import last_assignment, sql_statement
from ..loader import norm, walk_local
from ..report import Check
from ..resolve import UNKNOWN, fold

SITES = ['container:Container._get_objects_stream_meta_generator', 'container:Container.pack_all_loose', 'container:Container.clean_storage']


def lookup_terms(prog, fn):
    """Normalised terms of every `if len(S) <= THRESHOLD: IN-chunks else: sorted scan` lookup in fn."""
    out = []
    for n in walk_local(fn.node):
        if not (isinstance(n, ast.If) and isinstance(n.test, ast.Compare) and isinstance(n.test.left, ast.Call) and norm(n.test.left.func) == 'len' and n.orelse):
            continue
        S = norm(n.test.left.args[0]) if n.test.left.args else None
        t = {'line': n.lineno, 'set': S, 'op': type(n.test.ops[0]).__name__, 'threshold': norm(n.test.comparators[0]),
             'threshold_value': fold(prog, n.test.comparators[0], fn)}
        # small branch
        loops = [x for x in n.body if isinstance(x, ast.For)]
        if not loops or not (isinstance(loops[0].iter, ast.Call) and norm(loops[0].iter.func) == 'chunk_iterator'):
            continue
        ci = loops[0].iter
        t['chunk_set'] = norm(ci.args[0]) if ci.args else None
        sz = next((k.value for k in ci.keywords if k.arg == 'size'), ci.args[1] if len(ci.args) > 1 else None)
        t['chunk'] = norm(sz) if sz is not None else None
        t['chunk_value'] = fold(prog, sz, fn) if sz is not None else None
        chunkvar = norm(loops[0].target)
        ins = [c for c in ast.walk(loops[0]) if isinstance(c, ast.Call) and isinstance(c.func, ast.Attribute) and c.func.attr == 'in_']
        t['in_col'] = norm(ins[0].func.value).split('.')[-1] if ins else None
        t['in_arg_ok'] = bool(ins) and bool(ins[0].args) and norm(ins[0].args[0]) == chunkvar
        small_sel = None
        for c in ast.walk(loops[0]):
            if isinstance(c, ast.Call) and norm(c.func) == 'select':
                small_sel = [norm(a).split('.')[-1] for a in c.args]
        t['small_cols'] = small_sel
        small_acc = sorted({norm(c.func.value) for c in ast.walk(loops[0]) if isinstance(c, ast.Call) and isinstance(c.func, ast.Attribute) and c.func.attr == 'append'})
        t['small_acc'] = [a.split('[')[0] for a in small_acc]
        small_app = [c for c in ast.walk(loops[0]) if isinstance(c, ast.Call) and isinstance(c.func, ast.Attribute) and c.func.attr == 'append']
        t['small_item'] = _norm_item(small_app[0]) if small_app and small_app[0].args else None
        # large branch
        dws = [c for s in n.orelse for c in ast.walk(s) if isinstance(c, ast.Call) and norm(c.func) == 'detect_where_sorted']
        if not dws:
            t['large'] = None
            out.append(t)
            continue
        d = dws[0]
        left, right = d.args[0], d.args[1]
        lsrc = last_assignment(left.id, fn, d.lineno) if isinstance(left, ast.Name) else left
        info = sql_statement(prog, lsrc.args[0], fn, d.lineno) if isinstance(lsrc, ast.Call) and lsrc.args else None
        cols = None
        if info and info.get('text'):
            tx = info['text']
            u = tx.upper()
            cols = [c.strip() for c in tx[u.index('SELECT') + 6:u.index('FROM')].split(',')]
            t['large_order'] = tx[u.index('ORDER BY') + 8:].strip() if 'ORDER BY' in u else None
        elif info:
            cols = [c.split('.')[-1] for c in info['cols']]
            t['large_order'] = ','.join(o.split('.')[-1] for o in info['order_by']) or None
        t['large_cols'] = cols
        rsrc = last_assignment(right.id, fn, d.lineno) if isinstance(right, ast.Name) else right
        t['right'] = norm(rsrc) if rsrc is not None else None
        lk = next((k.value for k in d.keywords if k.arg == 'left_key'), None)
        idx = lk.body.slice.value if isinstance(lk, ast.Lambda) and isinstance(lk.body, ast.Subscript) and isinstance(lk.body.slice, ast.Constant) else None
        t['left_key_col'] = cols[idx] if cols and isinstance(idx, int) and idx < len(cols) else None
        floop = d
        while floop is not None and not isinstance(floop, ast.For):
            floop = getattr(floop, '_parent', None)
        keeps = [norm(x.test) for x in ast.walk(floop) if isinstance(x, ast.If)] if floop is not None else []
        if floop is not None and isinstance(floop.target, ast.Tuple) and len(floop.target.elts) == 2 and isinstance(floop.target.elts[1], ast.Name):
            import re
            wv = floop.target.elts[1].id  # the variable bound to the Location of each merged element
            keeps = [re.sub(r'\b%s\b' % re.escape(wv), 'where', k) for k in keeps]
        t['keep'] = keeps
        large_app = [c for c in ast.walk(floop) if isinstance(c, ast.Call) and isinstance(c.func, ast.Attribute) and c.func.attr == 'append'] if floop is not None else []
        t['large_acc'] = sorted({norm(c.func.value).split('[')[0] for c in large_app})
        t['large_item'] = _norm_item(large_app[0]) if large_app and large_app[0].args else None
        t['large'] = True
        out.append(t)
    return out


def _norm_item(app):
    """Text of the appended item with the row variable of the innermost enclosing for-loop replaced by ROW."""
    item = app.args[0]
    lp = app
    while lp is not None and not isinstance(lp, ast.For):
        lp = getattr(lp, '_parent', None)
    txt = norm(item)
    if lp is not None:
        tv = lp.target.elts[0] if isinstance(lp.target, ast.Tuple) else lp.target
        if isinstance(tv, ast.Name):
            import re
            txt = re.sub(r'\b%s\b' % re.escape(tv.id), 'ROW', txt)
    return txt


def run(ctx, host=None):
    chk = host.sub('C16') if host is not None else Check('C16', ctx)
    prog = ctx.prog
    R1 = chk.rule('C16.R1', 'the four two-strategy lookups agree: same set in both branches, IN-chunks <= 999, ordered scan + sorted right side, hashkey left_key, BOTH only, same accumulator', 4)
    R2 = chk.rule('C16.R2', 'dedup and missing handling: the funnel works on set(request); skip_if_missing guards only MISSING; has_objects maps over the original list', 3)
    R3 = chk.rule('C16.R3', 'paging loops: id > last_pk (strict), ORDER BY id, LIMIT n, last_pk from the last row, start -1, stop on the empty page', 2)
    R4 = chk.rule('C16.R4', 'merge helpers: sortedness/uniqueness guards on both sides; chunk_iterator shape; constants within SQLite limits', 5)

    # ---------------------------------------------------------------- R1
    cont = prog.cls('container:Container')
    nsite = 0
    from .common import accumulators_grow_only
    accumulators_grow_only(ctx, chk, R1, SITES)
    from .common import full_scans_unfiltered
    full_scans_unfiltered(ctx, chk, R1)
    seen_fns = set()
    for q in SITES:
        fn0 = prog.fn(q)
        # the lookups of an entry point: its own, and those of private helpers it calls directly (`self._helper(...)`): an extracted helper is the same code
        fns = [fn0]
        for c in walk_local(fn0.node):
            if isinstance(c, ast.Call) and isinstance(c.func, ast.Attribute) and norm(c.func.value) == 'self' and c.func.attr in cont.methods:
                h = cont.methods[c.func.attr]
                if h.qualname not in SITES and h not in fns and not h.is_overload:
                    fns.append(h)
        terms = []
        for fn_ in fns:
            if fn_.qualname in seen_fns:
                continue
            tt = lookup_terms(prog, fn_)
            if tt:
                seen_fns.add(fn_.qualname)
            terms += [dict(t, fn=fn_) for t in tt]
        expect = 2 if q.endswith('_generator') else 1
        chk.require(len(terms) >= expect or chk.findings, f'{q}: expected {expect} two-strategy lookup(s), found {len(terms)}')
        for t in terms:
            fn = t['fn']
            nsite += 1
            probs = []
            if t['op'] != 'LtE' or t['threshold'] != 'self._MAX_CHUNK_ITERATE_LENGTH':
                probs.append(f"threshold test is `len({t['set']}) {t['op']} {t['threshold']}`")
            if t['chunk_set'] != t['set']:
                probs.append(f"the IN branch chunks `{t['chunk_set']}` but the threshold is taken on `{t['set']}`")
            if not (isinstance(t['chunk_value'], int) and 0 < t['chunk_value'] <= 999):
                probs.append(f"IN chunk size {t['chunk']} = {t['chunk_value']} exceeds SQLite's default limit of 999 variables")
            if t['in_col'] != 'hashkey' or not t['in_arg_ok']:
                probs.append('the IN clause is not `hashkey IN (chunk)`')
            if not t.get('large'):
                probs.append('no sorted-scan branch (detect_where_sorted) found')
            else:
                if not (t.get('large_order') or '').strip().lower().startswith('hashkey'):
                    probs.append(f"the full scan is not ORDER BY hashkey ({t.get('large_order')!r}): detect_where_sorted needs sorted input")
                if t['right'] not in (f"sorted({t['set']})",):
                    probs.append(f"the right side of the merge is `{t['right']}`, not sorted({t['set']})")
                if t['left_key_col'] != 'hashkey':
                    probs.append(f"left_key selects column {t['left_key_col']!r}, not hashkey")
                if not any(k.replace(' ', '') in ('where==Location.BOTH',) for k in t['keep']):
                    probs.append(f"the scan does not keep exactly Location.BOTH ({t['keep']})")
                if t['small_cols'] != t['large_cols']:
                    probs.append(f"the two strategies select different columns: {t['small_cols']} vs {t['large_cols']}")
                if t['small_acc'] != t['large_acc'] or t['small_item'] != t['large_item']:
                    probs.append(f"the two strategies do not feed the same accumulator with the same item: {t['small_acc']}/{t['small_item']} vs {t['large_acc']}/{t['large_item']}")
            cname = f"lookup on `{t['set']}` (line {t['line']})"
            if probs:
                chk.bad(R1, q, cname, '; '.join(probs) + ': the result would depend on which strategy the request size triggers', where=f'{fn.module.relpath}:{t["line"]}')
            else:
                chk.ok(R1, q, cname, detail=f"IN chunks of {t['chunk_value']} vs ORDER BY hashkey scan, left_key=hashkey, BOTH only, accumulator {t['small_acc']}")
    chk.require(nsite >= 4 or chk.findings, f'expected 4 two-strategy lookups, found {nsite}')
    thr = fold(prog, cont.constants.get('_MAX_CHUNK_ITERATE_LENGTH'), None) if cont.constants.get('_MAX_CHUNK_ITERATE_LENGTH') is not None else None

    # ---------------------------------------------------------------- R2
    fun = prog.fn(SITES[0])
    p0 = fun.params[0]
    sets = [n for n in walk_local(fun.node) if isinstance(n, ast.Assign) and isinstance(n.value, ast.Call) and norm(n.value.func) == 'set' and n.value.args and norm(n.value.args[0]) == p0]
    other_uses = [x for x in walk_local(fun.node) if isinstance(x, ast.Name) and x.id == p0 and not any(x is y for s in sets for y in ast.walk(s))]
    if len(sets) == 1 and not other_uses:
        chk.ok(R2, fun.qualname, norm(sets[0]), detail='the request is de-duplicated once; nothing else reads the raw request')
        sname = sets[0].targets[0].id
        diff = [n for n in walk_local(fun.node) if isinstance(n, ast.For) and isinstance(n.iter, ast.Call) and norm(n.iter.func) == f'{sname}.difference']
        if diff and diff[0].iter.args:
            found = norm(diff[0].iter.args[0])
            ups = [c for c in walk_local(fun.node) if isinstance(c, ast.Call) and norm(c.func) == f'{found}.update']
            if ups:
                chk.ok(R2, fun.qualname, norm(diff[0].iter), detail='loose probes only for requested keys not found in the index: each distinct key is reported once')
            else:
                chk.bad(R2, fun.qualname, norm(diff[0].iter), f'`{found}` is never filled with the keys found in the index', where=f'{fun.module.relpath}:{diff[0].lineno}')
        else:
            chk.bad(R2, fun.qualname, 'loose probe loop', 'the loose probe no longer iterates over (requested - found in index): keys present in both forms would be reported twice', where=f'{fun.module.relpath}:{fun.lineno}')
    else:
        chk.bad(R2, fun.qualname, f'set({p0})', 'the request is not reduced to a set exactly once', where=f'{fun.module.relpath}:{fun.lineno}')
    skips = [n for n in walk_local(fun.node) if isinstance(n, (ast.If, ast.While, ast.IfExp)) and 'skip_if_missing' in norm(n.test)]
    from .funnel import yield_meta_type
    oks = len(skips) == 1 and isinstance(skips[0], ast.If)
    if oks:
        ys = [y for y in ast.walk(skips[0]) if isinstance(y, ast.Yield)]

        def _ytype(y):
            # type of the metadata dict assigned right before the yield (def-use, as in the funnel rules)
            for nm in [x.id for x in ast.walk(y.value) if isinstance(x, ast.Name)] if y.value is not None else []:
                v = last_assignment(nm, fun, y.lineno)
                if isinstance(v, ast.Dict):
                    for k, val in zip(v.keys, v.values):
                        if isinstance(k, ast.Constant) and k.value == 'type' and isinstance(val, ast.Attribute):
                            return val.attr
            return None
        allmissing = ys and all(_ytype(y) == 'MISSING' for y in ys)
        oks = allmissing and 'not skip_if_missing' in norm(skips[0].test)
    if oks:
        chk.ok(R2, fun.qualname, norm(skips[0].test), detail='skip_if_missing only suppresses the MISSING yields')
    else:
        chk.bad(R2, fun.qualname, 'skip_if_missing', 'skip_if_missing guards something other than exactly the MISSING yields', where=f'{fun.module.relpath}:{fun.lineno}')
    ho = prog.fn('container:Container.has_objects')
    ret = [n for n in walk_local(ho.node) if isinstance(n, ast.Return)][-1]
    rebound = [n for n in walk_local(ho.node) if isinstance(n, ast.Name) and isinstance(n.ctx, (ast.Store, ast.Del)) and n.id == ho.params[0]] \
        + [n for n in walk_local(ho.node) if isinstance(n, ast.Call) and isinstance(n.func, ast.Attribute) and norm(n.func.value) == ho.params[0]
           and n.func.attr in ('sort', 'remove', 'pop', 'clear', 'reverse', 'append', 'extend', 'insert')]
    gen0 = ret.value.generators[0] if isinstance(ret.value, ast.ListComp) else None
    if rebound:
        chk.bad(R2, ho.qualname, norm(rebound[0])[:80], f'has_objects rebinds or mutates its request list `{ho.params[0]}` before answering: the answers no longer line up with the list the caller passed '
                '(repeated keys, order)', where=f'{ho.module.relpath}:{rebound[0].lineno}')
    elif gen0 is not None and len(ret.value.generators) == 1 and not gen0.ifs and isinstance(gen0.target, ast.Name) and norm(gen0.iter) == ho.params[0] and isinstance(ret.value.elt, ast.Compare) \
            and len(ret.value.elt.ops) == 1 and isinstance(ret.value.elt.ops[0], ast.In) and norm(ret.value.elt.left) == gen0.target.id:
        chk.ok(R2, ho.qualname, norm(ret), detail='one answer per element of the original list, in order (repeats included)')
    else:
        chk.bad(R2, ho.qualname, norm(ret), 'has_objects no longer answers element-wise over the original list', where=f'{ho.module.relpath}:{ret.lineno}')

    # ---------------------------------------------------------------- R3
    npage = 0
    for f in prog.all_functions():
        if isinstance(f.node, ast.Lambda):
            continue
        for loop in [n for n in walk_local(f.node) if isinstance(n, ast.While)]:
            # a paging loop = a while loop that builds a SELECT whose WHERE mentions a local that the loop body itself updates
            assigned_in_loop = {t.id for s in ast.walk(loop) if isinstance(s, ast.Assign) for t in s.targets if isinstance(t, ast.Name)}
            stmts = []
            sel_of = {}
            for s in loop.body:
                if isinstance(s, ast.Assign) and isinstance(s.value, ast.Call):
                    # the SELECT may be bound to a local first (`stmt = select(...)`) or written inline (`rows = session.execute(select(...)).all()`)
                    for c_ in [s.value] + [x for x in ast.walk(s.value) if isinstance(x, ast.Call) and x is not s.value]:
                        inf0 = sql_statement(prog, c_, f, s.lineno)
                        if inf0 and inf0.get('op') == 'SELECT' and any({x.id for x in ast.walk(ast.parse(w, mode='eval')) if isinstance(x, ast.Name)} & assigned_in_loop for w in inf0['where']):
                            stmts.append(s)
                            sel_of[id(s)] = c_
                            break
            if not stmts:
                continue
            npage += 1
            info = sql_statement(prog, sel_of[id(stmts[0])], f, stmts[0].lineno)
            probs = []
            where = info['where'] if info else []
            pkvar = None
            okw = False
            for w in where:
                e = ast.parse(w, mode='eval').body
                if isinstance(e, ast.Compare) and isinstance(e.ops[0], ast.Gt) and norm(e.left).endswith('.id') and isinstance(e.comparators[0], ast.Name):
                    okw = True
                    pkvar = e.comparators[0].id
            if not okw:
                probs.append(f'the page filter is not `id > <last seen id>` (strict): {where}')
            elif len(where) != 1:
                probs.append(f'the page is bounded by a further filter besides `id > {pkvar}` ({where}): a window of primary-key values can be empty although later rows exist, so the loop stops early')
            if not info or [o.split('.')[-1] for o in info['order_by']] != ['id']:
                probs.append(f'pages are not ORDER BY id ({info["order_by"] if info else None})')
            if not info or not info['limit']:
                probs.append('no LIMIT')
            cols = [c.split('.')[-1] for c in info['cols']] if info else []
            resvar = None
            for s in loop.body:
                if isinstance(s, ast.Assign) and isinstance(s.value, ast.Call) and norm(s.value.func).endswith('.all') and isinstance(s.targets[0], ast.Name):
                    resvar = s.targets[0].id
            upd = [s for s in loop.body if isinstance(s, ast.Assign) and isinstance(s.targets[0], ast.Name) and s.targets[0].id == pkvar]
            idcol = cols.index('id') if 'id' in cols else None
            if not (upd and resvar and norm(upd[0].value) == f'{resvar}[-1][{idcol}]'):
                probs.append(f'`{pkvar}` is not advanced to the id of the LAST row of the page (`{norm(upd[0].value) if upd else None}`)')
            init = [s for s in walk_local(f.node) if isinstance(s, ast.Assign) and isinstance(s.targets[0], ast.Name) and s.targets[0].id == pkvar and s.lineno < loop.lineno]
            if not (init and fold(prog, init[-1].value, f) == -1):
                probs.append(f'`{pkvar}` does not start at -1')
            brk = [s for s in loop.body if isinstance(s, ast.If) and resvar and norm(s.test) == f'not {resvar}' and any(isinstance(x, ast.Break) for x in s.body)]
            if not brk:
                probs.append('the loop does not stop on the empty page')
            elif upd and loop.body.index(upd[0]) < loop.body.index(brk[0]) and True:
                probs.append('the last-row access happens before the empty-page test')
            # every row of the page is consumed
            rowloops = [s for s in loop.body if isinstance(s, ast.For) and resvar and norm(s.iter) == resvar]
            comps = [c for s in loop.body for x in ast.walk(s) if isinstance(x, (ast.ListComp, ast.SetComp, ast.DictComp, ast.GeneratorExp)) for c in x.generators[:1]
                     if resvar and norm(c.iter) == resvar and not c.ifs]
            whole = [x for s in loop.body for x in ast.walk(s) if isinstance(x, ast.Call) and isinstance(x.func, ast.Attribute) and x.func.attr in ('extend', 'update')
                     and resvar and any(norm(a) == resvar for a in x.args)]
            if not rowloops and not comps and not whole:
                probs.append('the rows of a page are not all consumed')
            if probs:
                chk.bad(R3, f.qualname, f'paging loop at line {loop.lineno}', '; '.join(probs) + ': rows at page boundaries would be skipped or repeated', where=f'{f.module.relpath}:{loop.lineno}')
            else:
                chk.ok(R3, f.qualname, f'paging loop at line {loop.lineno}', detail=f"WHERE id > {pkvar} ORDER BY id LIMIT {info['limit']}; {pkvar} = {resvar}[-1][{idcol}]; starts at -1; stops on empty page")
    chk.require(npage >= 2, f'expected 2 paging loops, found {npage}')

    # ---------------------------------------------------------------- R4
    d = prog.fn('utils:detect_where_sorted')
    guards = {}
    # the "current element" variable of each side = target of the top-level `X = next(<side iterator>)` (before the merge loop)
    LAST = {}
    for tr in [n for n in d.node.body if isinstance(n, ast.Try)]:
        nx = [s for s in tr.body if isinstance(s, ast.Assign) and isinstance(s.value, ast.Call) and norm(s.value.func) == 'next' and isinstance(s.targets[0], ast.Name)]
        if nx and nx[0].value.args:
            LAST['left' if 'left' in norm(nx[0].value.args[0]) else 'right'] = nx[0].targets[0].id
    chk.require(set(LAST) == {'left', 'right'}, 'detect_where_sorted: initial next() of both iterators not found')
    for tr in [n for n in walk_local(d.node) if isinstance(n, ast.Try)]:
        nx = [s for s in tr.body if isinstance(s, ast.Assign) and isinstance(s.value, ast.Call) and norm(s.value.func) == 'next']
        if not nx or not isinstance(nx[0].targets[0], ast.Name) or nx[0].targets[0].id in LAST.values():
            continue
        side = 'left' if 'left' in norm(nx[0].value.args[0]) else 'right'
        new = nx[0].targets[0].id
        ifs = [s for s in tr.body if isinstance(s, ast.If) and any(isinstance(x, ast.Raise) for x in s.body)]
        okg = False
        if ifs and isinstance(ifs[0].test, ast.Compare) and isinstance(ifs[0].test.ops[0], (ast.LtE, ast.GtE)):
            l, r = norm(ifs[0].test.left), norm(ifs[0].test.comparators[0])
            if isinstance(ifs[0].test.ops[0], ast.GtE):
                l, r = r, l  # `last >= new` is the mirrored spelling of `new <= last`
            okg = new in l and LAST[side] in r
            # assignment of last_<side> = new after the guard
            asg = [s for s in tr.body if isinstance(s, ast.Assign) and norm(s.targets[0]) == LAST[side] and norm(s.value) == new]
            okg = okg and asg and tr.body.index(asg[0]) > tr.body.index(ifs[0]) > tr.body.index(nx[0])
            if side == 'left':
                okg = okg and 'left_key(' in l and 'left_key(' in r
        guards[side] = okg
    for side in ('left', 'right'):
        if guards.get(side):
            chk.ok(R4, d.qualname, f'{side}: new <= last -> ValueError', detail='every non-initial element is checked (sorted and unique) before it is used')
        else:
            chk.bad(R4, d.qualname, f'{side} iterator guard', f'elements taken from the {side} iterator are no longer checked with `new <= last -> ValueError` before use: unsorted or repeated input is silently misclassified',
                    where=f'{d.module.relpath}:{d.lineno}')
    # comparisons between sides use left_key on the left
    cmps = [n for n in walk_local(d.node) if isinstance(n, ast.Compare) and LAST['left'] in {x.id for x in ast.walk(n) if isinstance(x, ast.Name)}
            and LAST['right'] in {x.id for x in ast.walk(n) if isinstance(x, ast.Name)}]
    badc = [c for c in cmps if f"left_key({LAST['left']})" not in norm(c)]
    if cmps and not badc:
        chk.ok(R4, d.qualname, f'{len(cmps)} cross comparisons', detail='always left_key(last_left) vs last_right', nontrivial=False)
    else:
        chk.bad(R4, d.qualname, norm(badc[0]) if badc else 'comparisons', 'a cross comparison does not apply left_key to the left element', where=f'{d.module.relpath}:{(badc[0].lineno if badc else d.lineno)}')
    # ---------------------------------------------------------------- R5: the merge itself, by finite-domain abstract interpretation
    R5 = chk.rule('C16.R5', 'detect_where_sorted: on every reachable abstract state one element is yielded per iteration, with the Location the order of the current elements demands, and exactly the yielded side(s) advance', 1)
    from .merge_ai import AIError, MergeAI
    try:
        ai = MergeAI(d)
        probs5 = ai.run()
    except AIError as exc:
        chk.require(False, f'C16.R5: {exc}')
    seen5 = set()
    for node5, msg5 in probs5:
        k5 = msg5
        if k5 in seen5:
            continue
        seen5.add(k5)
        chk.bad(R5, d.qualname, norm(node5)[:80] if not isinstance(node5, (ast.While, ast.FunctionDef)) else 'merge loop', msg5, where=f'{d.module.relpath}:{getattr(node5, "lineno", d.lineno)}')
    chk.require(ai.iterations >= 4 or probs5, f'C16.R5: the abstract interpreter explored only {ai.iterations} loop iterations')
    chk.crash_points += ai.states_seen
    if not probs5:
        chk.ok(R5, d.qualname, f'{len(ai.head_states)} abstract loop-head state(s), {ai.iterations} abstract iteration(s), {ai.states_seen} statement evaluations',
               detail='every element of either sorted unique sequence is classified exactly once and correctly (inductive step of the min-first merge holds in every reachable abstract state)', evals=ai.iterations)
    ci = prog.fn('utils:chunk_iterator')
    txt = norm(ci.node)
    if 'iter(lambda: tuple(itertools.islice(iterator, size)), ())' in txt and 'iterator = iter(iterator)' in txt:
        chk.ok(R4, ci.qualname, 'iter(lambda: tuple(islice(it, size)), ())', detail='chunks of at most `size`, stops at the empty tuple, single underlying iterator')
    else:
        chk.bad(R4, ci.qualname, 'chunk_iterator body', 'chunk_iterator no longer has the shape iter(lambda: tuple(islice(iter(x), size)), ())', where=f'{ci.module.relpath}:{ci.lineno}')
    ms = prog.fn('utils:merge_sorted')
    if 'detect_where_sorted(iterator1, iterator2)' in norm(ms.node) and any(isinstance(n, ast.Yield) for n in walk_local(ms.node)) and not any(isinstance(n, ast.If) for n in walk_local(ms.node)):
        chk.ok(R4, ms.qualname, 'yield every item of detect_where_sorted', detail='union of both sides, unfiltered', nontrivial=False)
    else:
        chk.bad(R4, ms.qualname, 'merge_sorted', 'merge_sorted no longer yields every element of the sorted merge', where=f'{ms.module.relpath}:{ms.lineno}')
    insql = fold(prog, cont.constants.get('_IN_SQL_MAX_LENGTH'), None) if cont.constants.get('_IN_SQL_MAX_LENGTH') is not None else None
    if isinstance(insql, int) and 0 < insql <= 999 and isinstance(thr, int) and thr >= insql:
        chk.ok(R4, cont.qualname, f'_IN_SQL_MAX_LENGTH={insql}, _MAX_CHUNK_ITERATE_LENGTH={thr}', detail='IN batch within SQLite\'s default 999-variable limit')
    else:
        chk.bad(R4, cont.qualname, f'_IN_SQL_MAX_LENGTH={insql}', 'the IN batch size exceeds SQLite\'s default limit of 999 host parameters', where=f'{cont.module.relpath}:{cont.node.lineno}')

    # ---------------------------------------------------------------- R6: import batching does not depend on how the budget splits the request
    R6 = chk.rule('C16.R6', 'import batching: every cached object reaches the destination whatever the batch split (in-loop flush resets the cache; the final flush is guarded by the cache itself; key lists in lockstep)', 2)
    from .c14 import import_mapping_and_flush
    import_mapping_and_flush(ctx, chk, R6)

    # single-key views are defined by delegation to the bulk machinery (no second implementation that could answer differently): shared call-graph rule
    from .c02 import key_views_funnel_only
    from .common import Summaries
    key_views_funnel_only(ctx, chk, R2, Summaries(ctx))
    # ---------------------------------------------------------------- R7 (one-shot iterables)
    R7 = chk.rule('C16.R7', 'no function of the package consumes a one-shot iterable (generator) more than once or resizes a collection while a loop iterates it: the result must not depend on being the first key / first batch', 2)
    from .common import one_shot_reuse
    nv = one_shot_reuse(ctx, chk, R7, [f for f in prog.all_functions() if not isinstance(f.node, ast.Lambda)], label='bulk operation')
    chk.require(nv >= 3, f'expected >= 3 locals bound to one-shot iterables in the package, found {nv}')
    from .common import mutation_during_iteration
    nl = mutation_during_iteration(ctx, chk, R7, [f for f in prog.all_functions() if not isinstance(f.node, ast.Lambda)])
    chk.require(nl >= 20, f'expected >= 20 for-loops over named collections in the package, found {nl}')

    # importing is one of the bulk operations of this property: its rules (C14) are hosted
    if host is None:
        from ..report import host_modules
        host_modules(chk, ctx, ['C14'])

    return chk.finish(
        explanation=('Sibling-agreement analysis of the four two-strategy lookups (each normalised to a term: set, threshold, chunk source and size, IN column, ordered scan, right '
                     'side, left_key column, kept location, selected columns, accumulator and item; all fields compared), de-duplication and missing handling of the read funnel, '
                     'the shape of both primary-key paging loops, and the sortedness guards / shapes of the merge helpers.'),
        rule_text='obligation = lookup site / paging loop / helper guard; non-trivial = term extraction and comparison',
        assumptions=['SQLITE_MAX_VARIABLE_NUMBER >= 999', 'SQLite ORDER BY hashkey agrees with Python string order for hex keys'],
        not_decided='that detect_where_sorted classifies every element of every pair of sorted sequences correctly (its control logic over now_left/advance_both is value-level).')
