"""Typestate machines shared by C04/C05/C06/C17 (DESIGN 5, C05/C06).

PackMachine    -- generic object k appended to a pack, staged, inserted, committed, (tracked and) unlinked loose.
LooseMachine   -- sandbox file written, flushed, synced, closed, published by rename/replace.
RepackMachine  -- explicit small state of repack_pack.
"""
from __future__ import annotations

import ast

from .. import AnalysisError
from ..kinds import alts, kstr
from ..loader import norm
from ..resolve import UNKNOWN, fold
from ..solver import Machine, Violation
from .common import areas, below_area, in_area, is_lock_path, is_tmp_pack, origin, root_name


def _enclosing_loop(node_ast):
    n = getattr(node_ast, '_parent', None)
    while n is not None:
        if isinstance(n, (ast.While, ast.For, ast.AsyncFor)):
            return n
        if isinstance(n, (ast.FunctionDef, ast.AsyncFunctionDef, ast.Lambda)):
            return None
        n = getattr(n, '_parent', None)
    return None


def is_pack_write_handle(K, h):
    if h is None or h[0] != 'handle':
        return False
    mode = h[2] or ''
    if not any(c in mode for c in 'awx+'):
        return False
    return in_area(K, h[1], 'packs') and not is_lock_path(K, h[1])


def is_pack_fd(K, fd):
    return fd is not None and fd[0] == 'fd' and in_area(K, fd[1], 'packs') and below_area(K, fd[1], 'packs')


def real_fullfsync():
    from ..resolve import PLATFORM
    if 'fcntl.F_FULLFSYNC' in PLATFORM:
        return PLATFORM['fcntl.F_FULLFSYNC'] or None
    try:
        import fcntl
        v = getattr(fcntl, 'F_FULLFSYNC', None)
        return v if v else None
    except ImportError:
        return None


def path_operand(call):
    """The path an unlink-like call works on: the first argument of `os.remove(p)` / `os.unlink(p)`, the receiver of `p.unlink()`."""
    if isinstance(call.func, ast.Attribute) and call.func.attr in ('unlink', 'rmdir', 'rename', 'replace', 'touch', 'write_bytes', 'write_text') and not \
            (isinstance(call.func.value, ast.Name) and call.func.value.id in ('os', 'shutil')):
        return call.func.value
    return call.args[0] if call.args else None


def loose_key_expr(K, arg, frame, depth=0):
    """For an expression denoting a loose path, return (key expr, frame) of the hash key it is built from."""
    if depth > 4:
        return None
    if isinstance(arg, ast.Call):
        cal = K.resolve_call(arg, frame)
        if cal.kind == 'internal':
            fi = cal.target
            if fi.params:
                name = fi.params[0]
                if arg.args:
                    return (arg.args[0], frame)
                for kw in arg.keywords:
                    if kw.arg == name:
                        return (kw.value, frame)
    if isinstance(arg, ast.Name):
        from ..effects import last_assignment
        v = last_assignment(arg.id, frame.fn, getattr(arg, 'lineno', 10 ** 9))
        if v is not None:
            return loose_key_expr(K, v, frame, depth + 1)
    return None


class PackSites:
    """Discovery of staging / tracking sites in an ICFG (names are discovered, never typed in)."""

    def __init__(self, ctx, g):
        K, E = ctx.kinds, ctx.effects
        self.stage_lists = set()  # (frame id, name)
        self.track_lists = set()
        self.insert_nodes = {}
        self.stage_nodes = {}
        self.reset_nodes = {}
        self.track_nodes = {}
        self.track_reset_nodes = {}
        self.tracked_unlinks = {}  # node id -> (frame id, name)
        self.loop_heads = {}  # node id -> frame id
        self.other_loose_unlinks = []
        reach = g.reachable(('n', 'e'))
        nodes = [n for n in g.nodes if n.id in reach]
        eff = {n.id: E.of(n) for n in nodes}
        self.eff = eff
        for n in nodes:
            for e in eff[n.id]:
                if e[0] == 'DB_INSERT' and e[2].get('params'):
                    p = e[2]['params']
                    if p.isidentifier():
                        self.stage_lists.add((n.frame.id, p))
                        self.insert_nodes[n.id] = (n.frame.id, p)
                elif e[0] == 'DB_UPDATE' and e[2].get('bulk') and e[2].get('params'):
                    p = e[2]['params']
                    if p.isidentifier():
                        self.stage_lists.add((n.frame.id, p))
                elif e[0] == 'UNLINK' and in_area(K, e[1], 'loose'):
                    ke = loose_key_expr(K, path_operand(n.ast), n.frame) if path_operand(n.ast) is not None else None
                    hit = None
                    if ke is not None:
                        for o in origin(K, ke[0], ke[1]):
                            if o[0] == 'elem':
                                r = root_name(o)
                                if r and r[0] == 'name':
                                    hit = (r[1].id, r[2])
                    if hit is not None:
                        self.tracked_unlinks[n.id] = hit
                        self.track_lists.add(hit)
                    else:
                        self.other_loose_unlinks.append(n)
        for n in nodes:
            if n.kind == 'call' and n.callee is not None and n.callee.kind == 'method' and isinstance(n.callee.recv, ast.Name):
                key = (n.frame.id, n.callee.recv.id)
                if n.callee.name in ('append', 'extend', 'add', 'insert'):
                    if key in self.stage_lists:
                        self.stage_nodes[n.id] = key
                        lp = _enclosing_loop(n.ast)
                        if lp is None:
                            raise AnalysisError(f'staging site {n.where} is not inside a loop: cannot pick a generic object')
                        for m in nodes:
                            if m.kind == 'loop' and m.ast is lp and m.frame is n.frame:
                                self.loop_heads[m.id] = n.frame.id
                    if key in self.track_lists:
                        self.track_nodes[n.id] = key
                elif n.callee.name in ('clear',):
                    if key in self.stage_lists:
                        self.reset_nodes[n.id] = key
                    if key in self.track_lists:
                        self.track_reset_nodes[n.id] = key
            elif n.kind == 'stmt' and isinstance(n.ast, (ast.Assign, ast.AnnAssign)):
                tgt = n.ast.targets[0] if isinstance(n.ast, ast.Assign) and len(n.ast.targets) == 1 else getattr(n.ast, 'target', None)
                if isinstance(tgt, ast.Name):
                    key = (n.frame.id, tgt.id)
                    if key in self.stage_lists:
                        self.reset_nodes[n.id] = key
                    if key in self.track_lists:
                        self.track_reset_nodes[n.id] = key
        # A tracked list (a collection whose elements get their loose file unlinked) may only be fed next to a staging
        # site: the same statement list must stage the row of that very object.  A feed anywhere else (e.g. keys found by
        # an earlier index query) means loose files are removed for objects this call did not write and commit.
        def _stmt_and_block(a):
            st = a
            while st is not None and not isinstance(st, ast.stmt):
                st = getattr(st, '_parent', None)
            return st, getattr(st, '_parent', None) if st is not None else None

        stage_blocks = {}
        for nid2, key in self.stage_nodes.items():
            n2 = g.nodes[nid2]
            st, blk = _stmt_and_block(n2.ast)
            stage_blocks.setdefault(n2.frame.id, set()).add(id(blk))
        self.foreign_feeds = {}  # track list -> [node]
        for nid2, key in self.track_nodes.items():
            n2 = g.nodes[nid2]
            st, blk = _stmt_and_block(n2.ast)
            if id(blk) not in stage_blocks.get(n2.frame.id, ()):
                self.foreign_feeds.setdefault(key, []).append(n2)
        for nid2, key in self.track_reset_nodes.items():
            n2 = g.nodes[nid2]
            if n2.kind == 'stmt' and isinstance(n2.ast, (ast.Assign, ast.AnnAssign)) and n2.ast.value is not None:
                v = n2.ast.value
                empty = (isinstance(v, (ast.List, ast.Set, ast.Tuple)) and not v.elts) or (isinstance(v, ast.Call) and not v.args and not v.keywords)
                if not empty:
                    self.foreign_feeds.setdefault(key, []).append(n2)


# state indices
CH, CUR, KF, R, BK, DK, T, B, D, INT = range(10)


class PackMachine(Machine):
    """See module docstring. State = (chosen, cur, kframe, R, Bk, Dk, T, B, D)."""

    def __init__(self, ctx, g, require_durable, rule_flush='C05.R2', rule_durable='C06.R3', rule_unlink='C05.R2',
                 exc=False, commit_expected=True, rule_exc='C17.R3'):
        self.ctx = ctx
        self.rule_exc = rule_exc
        self.K = ctx.kinds
        self.sites = PackSites(ctx, g)
        self.require_durable = require_durable
        self.rule_flush = rule_flush
        self.rule_durable = rule_durable
        self.rule_unlink = rule_unlink
        self.edge_kinds = ('n', 'e') if exc else ('n',)
        self.commit_expected = commit_expected
        self.fullfsync = real_fullfsync()
        self.rule = rule_flush

    def initial(self, g):
        return [(False, False, None, 'none', 'flushed', 'durable', False, 'flushed', 'durable', False)]

    def edge_state(self, edge, st, node, g):
        if not self.edge_ok(edge, st, node, g):
            return None
        if edge.kind == 'e' and st[CUR] and st[R] == 'none' and not st[INT] and node.kind in ('call', 'raise', 'enter'):
            # an exception interrupts the processing of the generic object before its row is staged
            s = list(st)
            s[INT] = True
            return tuple(s)
        return st

    def edge_ok(self, edge, st, node, g):
        c = edge.cond
        if c is not None and isinstance(c[0], ast.Name) and c[2] is False and st[R] == 'staged':
            if (c[1].id, c[0].id) in self.sites.stage_lists and c[1].id == st[KF]:
                return False
        if edge.tag == 'iter-done' and node.kind == 'loop':
            pass
        return True

    def transfer(self, node, st, g):
        S = self.sites
        nid = node.id
        if nid in S.loop_heads:
            fid = S.loop_heads[nid]
            base = list(st)
            base[CUR] = False
            base[INT] = False
            out = [tuple(base)]
            if not st[CH]:
                b2 = list(base)
                b2[CH], b2[CUR], b2[KF] = True, True, fid
                out.append(tuple(b2))
            return out
        s = list(st)
        viol = []
        if nid in S.stage_nodes and s[CUR] and S.stage_nodes[nid][0] == s[KF] and s[R] == 'none':
            s[R] = 'staged'
            if s[INT]:
                viol.append(Violation(self.rule_exc, node, st, 'an index row is staged for an object whose processing was interrupted by an '
                                      'exception that a handler swallowed (its pack bytes may be incomplete)'))
        if nid in S.reset_nodes and S.reset_nodes[nid][0] == s[KF] and s[R] == 'staged':
            s[R] = 'dropped'
        if nid in S.track_nodes and s[CUR]:
            s[T] = True
        if nid in S.track_reset_nodes and s[T] and s[R] != 'committed':
            s[T] = False
        for e in S.eff.get(nid, ()):
            name = e[0]
            if name == 'H_WRITE' and is_pack_write_handle(self.K, e[1]):
                s[B], s[D] = 'buffered', 'volatile'
                if s[CUR] and s[R] in ('none',):
                    s[BK], s[DK] = 'buffered', 'volatile'
            elif name in ('H_FLUSH', 'H_CLOSE') and is_pack_write_handle(self.K, e[1]):
                s[B] = 'flushed'
                if s[BK] == 'buffered':
                    s[BK] = 'flushed'
            elif (name == 'FSYNC' and is_pack_fd(self.K, e[1])) or (
                    name == 'FCNTL' and is_pack_fd(self.K, e[1]) and self.fullfsync is not None and e[2] == self.fullfsync):
                if e[1][1] is not None and not is_dir_fd(self.K, e[1]):
                    if s[B] == 'flushed':
                        s[D] = 'durable'
                    if s[BK] == 'flushed':
                        s[DK] = 'durable'
            elif name == 'DB_INSERT' and nid in S.insert_nodes:
                if S.insert_nodes[nid][0] == s[KF] and s[R] == 'staged':
                    s[R] = 'inserted'
            elif name == 'DB_COMMIT' and e[1][1] == 'op':
                if s[R] == 'inserted':
                    if s[BK] != 'flushed':
                        viol.append(Violation(self.rule_flush, node, st,
                                              'COMMIT of an index row whose pack bytes may still sit in the user-space buffer '
                                              '(no flush/close of the pack handle between the write and the commit)'))
                    elif self.require_durable and s[DK] != 'durable':
                        viol.append(Violation(self.rule_durable, node, st,
                                              'with do_fsync=True: COMMIT of an index row whose pack bytes were not fsynced '
                                              '(no flush + fsync of the pack file descriptor between the write and the commit)'))
                    s[R] = 'committed'
            elif name in ('SESSION_RESET', 'DB_ROLLBACK') and s[R] == 'inserted':
                if name == 'DB_ROLLBACK' or e[1] == 'op':
                    s[R] = 'rolledback'
            elif name == 'UNLINK' and nid in S.tracked_unlinks:
                ff = S.foreign_feeds.get(S.tracked_unlinks[nid])
                if ff:
                    viol.append(Violation(self.rule_unlink, node, st,
                                          f'loose files are unlinked for the keys of `{S.tracked_unlinks[nid][1]}`, which is also filled at {ff[0].where} '
                                          f'(`{ff[0].text(80)}`) away from any staging site: those objects were not written and committed by this call, '
                                          'so the decision rests on an earlier index query (a possibly stale snapshot) and the only copy of an object can be removed'))
                if s[T] and s[R] != 'committed':
                    viol.append(Violation(self.rule_unlink, node, st,
                                          f'loose file of an object unlinked while its index row is only "{s[R]}" '
                                          '(must be committed first)'))
        return [tuple(s)] + viol

    def at_exit(self, node, st, g):
        out = []
        if node is g.exit:
            if st[R] in ('staged', 'dropped'):
                out.append(Violation(self.rule_flush + 'e', node, st,
                                     f'a staged index row is never inserted (row state "{st[R]}" at normal exit)'))
            elif st[R] == 'rolledback':
                out.append(Violation(self.rule_flush + 'e', node, st, 'an inserted row is rolled back by a session reset before commit'))
            elif st[R] == 'inserted' and self.commit_expected:
                out.append(Violation(self.rule_flush + 'e', node, st, 'an inserted index row is never committed on this path'))
        return out


def is_dir_fd(K, fd):
    """fd of a directory (the pack folder itself), not of a pack file."""
    for a in alts(fd[1]):
        ar = K.area(a)
        if ar is not None and ar[0] == 'packs' and not ar[1]:
            return True
    return False


# ---------------------------------------------------------------------------------------------------------------

class LooseMachine(Machine):
    """State = (F, Dur): F in none/buffered/flushed/closed; Dur in volatile/durable."""

    def __init__(self, ctx, g, require_durable, rule_close='C05.R1', rule_durable='C06.R2', exc=False):
        self.ctx = ctx
        self.K = ctx.kinds
        self.E = ctx.effects
        self.require_durable = require_durable
        self.rule_close = rule_close
        self.rule_durable = rule_durable
        self.edge_kinds = ('n', 'e') if exc else ('n',)
        self.publishes = 0
        self.fullfsync = real_fullfsync()

    def initial(self, g):
        return [('none', 'volatile')]

    def transfer(self, node, st, g):
        K = self.K
        F, Dur = st
        viol = []
        for e in self.E.of(node):
            n = e[0]
            if n == 'OPEN' and in_area(K, e[1], 'sandbox') and any(c in (e[2] or '') for c in 'wax+'):
                F, Dur = 'flushed', 'volatile'
            elif n == 'H_WRITE' and e[1][0] == 'handle' and in_area(K, e[1][1], 'sandbox'):
                F, Dur = 'buffered', 'volatile'
            elif n == 'H_FLUSH' and e[1][0] == 'handle' and in_area(K, e[1][1], 'sandbox'):
                if F == 'buffered':
                    F = 'flushed'
            elif n == 'H_CLOSE' and e[1][0] == 'handle' and in_area(K, e[1][1], 'sandbox'):
                F = 'closed'
            elif (n == 'FSYNC' or (n == 'FCNTL' and self.fullfsync is not None and e[2] == self.fullfsync)) and e[1][0] == 'fd' \
                    and below_area(K, e[1][1], 'sandbox'):
                if F in ('flushed', 'closed'):
                    Dur = 'durable'
            elif n in ('RENAME', 'REPLACE', 'LINK', 'MOVE', 'COPY') and 'sandbox' in areas(K, e[1]) and (
                    areas(K, e[2]) & {'loose', 'duplicates'}):
                self.publishes += 1
                if n not in ('RENAME', 'REPLACE'):
                    viol.append(Violation(self.rule_close, node, st, f'loose object published with {n}, not an atomic rename/replace'))
                if F != 'closed':
                    viol.append(Violation(self.rule_close, node, st,
                                          f'sandbox file published into {sorted(areas(K, e[2]))} while its handle is "{F}" (must be flushed and closed first)'))
                elif self.require_durable and Dur != 'durable':
                    viol.append(Violation(self.rule_durable, node, st,
                                          'sandbox file published before its bytes were fsynced (no flush + fsync of its descriptor before the rename/replace)'))
        return [(F, Dur)] + viol


# ---------------------------------------------------------------------------------------------------------------

def explore(ctx, chk, qualname, fixed, make_machine, policy, pkey, full=None):
    """Run a machine on the entry point `qualname`.

    quick tier: one ICFG with the flags in `fixed` bound and every other boolean flag free (its tests are
    non-deterministic).  Because free flags can combine inconsistent outcomes of two tests of the same flag, a violation
    found that way is reported only if it is reproduced under at least one *consistent* full specialisation.
    thorough tier (or full=True): every combination of the boolean flags is analysed separately.
    Returns [(Violation, consts)].
    """
    from ..solver import run
    from .common import specialisations
    fn = ctx.prog.fn(qualname)
    full = ctx.thorough if full is None else full
    out = []
    seen = set()

    def one(consts):
        g = ctx.icfg(qualname, consts, policy, key=pkey)
        m = make_machine(g, consts)
        viols, st = run(g, m)
        chk.crash_points += st['pairs']
        chk.specialisations += 1
        return g, m, viols

    if not full:
        g, m, viols = one(dict(fixed))
        if viols:
            confirmed = []
            for consts in specialisations(fn, fixed):
                _, _, v2 = one(consts)
                for v in v2:
                    k = (v.rule, id(v.node.ast) if v.node is not None and v.node.ast is not None else v.msg, v.msg)
                    if k not in seen:
                        seen.add(k)
                        confirmed.append((v, consts))
            out = confirmed
        return out, m
    m = None
    for consts in specialisations(fn, fixed):
        g, m, viols = one(consts)
        for v in viols:
            k = (v.rule, id(v.node.ast) if v.node is not None and v.node.ast is not None else v.msg, v.msg)
            if k not in seen:
                seen.add(k)
                out.append((v, consts))
    return out, m


def report_violations(chk, qualname, found, derived_from=None):
    for v, consts in found:
        n = v.node
        construct = n.text(160) if n is not None and n.ast is not None else (n.label if n is not None else '')
        fnq = n.frame.fn.qualname if n is not None and n.frame is not None else qualname
        chk.bad(v.rule, fnq, construct, f'{v.msg} [entry {qualname}, flags {consts}]', where=n.where if n is not None else None,
                witness=v.witness, derived_from=derived_from)
