"""M-REPACK: explicit small state machine for Container.repack_pack (DESIGN 5, C05.R4 / C06.R4).

State = (idx, pending, P, tmp, tmpD, refs)
  idx      where the *committed* rows of the pack point: 'old' | 'tmp' | 'new'
  pending  uncommitted re-pointing: None | 'tmp' | 'new'
  P        the file under the pack's own name: 'orig' | 'absent' | 'linked'
  tmp      the temporary pack: 'absent' | 'buffered' | 'flushed'
  tmpD     'volatile' | 'durable'
  refs     knowledge about rows referencing the pack from the last emptiness test: '?' | 'none' | 'some'
"""
from __future__ import annotations

import ast

from ..effects import last_assignment
from ..kinds import alts
from ..solver import Machine, Violation
from .common import in_area, is_lock_path, is_tmp_pack
from .machines import real_fullfsync


class RepackMachine(Machine):
    def __init__(self, ctx, g, require_durable, rule='C05.R4', rule_durable='C06.R4', exc=False, require_rewrite=False):
        # require_rewrite (C11 only): a normal return must have rewritten or removed the pack, unless the path compared the pack file's
        # size (a stat of the pack's own file), i.e. it can know that the file holds no unreferenced bytes
        self.require_rewrite = require_rewrite
        self.sized_nodes = set()
        self.ctx = ctx
        self.K = ctx.kinds
        self.E = ctx.effects
        self.prog = ctx.prog
        self.require_durable = require_durable
        self.rule = rule
        self.rule_durable = rule_durable
        self.edge_kinds = ('n', 'e') if exc else ('n',)
        self.seen_effects = set()
        self.fullfsync = real_fullfsync()
        self.top = g.top

    def initial(self, g):
        # a fresh call ... or a call that follows a repack interrupted at any point (crash states of a previous run are entry states
        # of the next one): the committed index may still designate the temporary pack, which then exists
        base = ('old', None, 'orig', 'absent', 'volatile', '?')
        after_crash = [('tmp', None, P, 'flushed', 'durable', '?') for P in ('orig', 'absent', 'linked')]
        after_crash += [('old', None, 'orig', 'flushed', 'volatile', '?')]  # interrupted while copying: stale temporary pack, index untouched
        return [base] + after_crash

    def _tmp(self, pk):
        return is_tmp_pack(self.K, pk, self.prog)

    def _own(self, pk):
        return in_area(self.K, pk, 'packs') and not self._tmp(pk) and not is_lock_path(self.K, pk)

    def edge_state(self, edge, st, node, g):
        c = edge.cond
        if c is None:
            return st
        expr, fr, pol = c
        # `if not <rows>` / `if <rows>` / `assert not <rows>` where rows = query filtered on this pack's id, limited
        neg = False
        e = expr
        if isinstance(e, ast.UnaryOp) and isinstance(e.op, ast.Not):
            neg, e = True, e.operand
        # `<temporary pack path>.exists()`: only feasible when it agrees with the abstract state of the temporary pack
        if isinstance(e, ast.Call) and isinstance(e.func, ast.Attribute) and e.func.attr in ('exists', 'is_file') and fr is self.top:
            try:
                pk = self.K.kind(e.func.value, fr)
            except Exception:
                pk = None
            if pk is not None and pk[0] in ('path', 'join') and self._own(pk):
                exists = pol != neg
                if exists and st[2] == 'absent':
                    return None
                if not exists:
                    s = list(st)
                    s[2] = 'absent'  # the pack's own file is known not to exist on this path
                    return tuple(s)
                return st
            if pk is not None and pk[0] in ('path', 'join') and in_area(self.K, pk, 'packs') and self._tmp(pk):
                exists = pol != neg
                if exists and st[3] == 'absent':
                    return None
                if not exists and st[3] != 'absent':
                    return None
                return st
        if isinstance(e, ast.Name) and fr is self.top:
            v = last_assignment(e.id, fr.fn, getattr(expr, 'lineno', 10 ** 9))
            if v is not None and 'pack_id ==' in ast.unparse(v).replace('Obj.', '') and ('execute' in ast.unparse(v) or 'scalar' in ast.unparse(v)) \
                    and self._is_existence_query(v, fr):
                empty = (pol and neg) or (not pol and not neg)
                s = list(st)
                # an emptiness test that runs while a re-pointing is still uncommitted only reflects this session's
                # own uncommitted view, not what a crash would leave behind
                s[5] = ('none' if empty else 'some') if st[1] is None else '?'
                return tuple(s)
        return st

    def _is_existence_query(self, v, fr):
        """True iff the truthiness of `v` is equivalent to 'at least one row references the pack': the materialised rows of a
        SELECT (.all()/.first()/...), or a scalar COUNT / primary key.  An aggregate such as SUM(size), or a scalar of a column
        that can be 0/NULL, is falsy for packs that still hold (e.g. zero-length) objects."""
        from ..effects import sql_statement
        e = v
        how = None
        if isinstance(e, ast.Call) and isinstance(e.func, ast.Attribute) and e.func.attr in ('all', 'first', 'fetchall', 'fetchone', 'one_or_none', 'fetchmany'):
            how = 'rows'
            e = e.func.value
        if not (isinstance(e, ast.Call) and isinstance(e.func, ast.Attribute) and e.func.attr in ('execute', 'scalar', 'scalars') and e.args):
            return False
        if e.func.attr == 'scalar':
            how = 'scalar'
        elif how is None:
            return False  # a lazy result object is always truthy
        info = sql_statement(self.prog, e.args[0], fr.fn, getattr(v, 'lineno', 10 ** 9))
        if info is None or info.get('op') != 'SELECT':
            return False
        cols = [c.replace(' ', '') for c in info.get('cols', [])]
        if how == 'rows':
            return not any(c.startswith('func.') and not c.startswith('func.count') for c in cols) or False
        return cols in (['func.count()'], ['func.count(Obj.id)'], ['Obj.id'])

    @property
    def _path_sized(self):
        return bool(self.sized_nodes)

    def transfer(self, node, st, g):
        idx, pending, P, tmp, tmpD, refs = st
        viol = []
        K = self.K
        for e0 in self.E.of(node):
            if e0[0] == 'STAT' and self._own(e0[1]):
                self.sized_nodes.add(node.id)
        for e in self.E.of(node):
            n = e[0]
            if n == 'H_WRITE' and e[1][0] == 'handle' and self._tmp(e[1][1]):
                if pending is not None:
                    viol.append(Violation(self.rule, node, st, 'the temporary pack is still being written while a re-pointing of index rows is already staged in the session (UPDATE before the copy '
                                          'finished): if the copy fails later the uncommitted rows stay in the session and the next commit on this handle publishes rows that designate the temporary pack'))
                tmp, tmpD = 'buffered', 'volatile'
                self.seen_effects.add('write-tmp')
            elif n in ('H_FLUSH', 'H_CLOSE') and e[1][0] == 'handle' and self._tmp(e[1][1]) and 'a' in (e[1][2] or ''):
                if tmp == 'buffered':
                    tmp = 'flushed'
                elif tmp == 'absent':
                    tmp = 'flushed'
            elif n == 'OPEN' and self._tmp(e[1]) and any(c in (e[2] or '') for c in 'awx'):
                if tmp == 'absent':
                    tmp = 'flushed'
            elif (n == 'FSYNC' or (n == 'FCNTL' and self.fullfsync is not None and e[2] == self.fullfsync)) \
                    and e[1][0] == 'fd' and e[1][1] is not None and e[1][1][0] == 'path' and self._tmp(e[1][1]):
                if tmp == 'flushed':
                    tmpD = 'durable'
                self.seen_effects.add('fsync-tmp')
            elif n == 'DB_UPDATE' and e[1][1] == 'op':
                info = e[2]
                if info.get('bulk'):
                    pending = 'tmp'
                elif any('_REPACK_PACK_ID' in w for w in info.get('where', [])) and 'pack_id' in info.get('values', []):
                    pending = 'new'
                else:
                    pending = pending or 'tmp'
                self.seen_effects.add('update')
            elif n == 'DB_COMMIT' and e[1][1] == 'op':
                self.seen_effects.add('commit')
                if pending == 'tmp':
                    if tmp != 'flushed':
                        viol.append(Violation(self.rule, node, st, f'index re-pointed to the temporary pack and committed while that file is "{tmp}" (must be flushed/closed first)'))
                    elif self.require_durable and tmpD != 'durable':
                        viol.append(Violation(self.rule_durable, node, st, 'index re-pointed to the temporary pack and committed before the temporary pack was fsynced'))
                    idx, pending = 'tmp', None
                elif pending == 'new':
                    if P != 'linked':
                        viol.append(Violation(self.rule, node, st, f'index re-pointed back to the pack\'s own name and committed while that file is "{P}" (must be hard-linked first)'))
                    idx, pending = 'new', None
            elif n == 'UNLINK' and self._tmp(e[1]):
                self.seen_effects.add('unlink-tmp')
                if idx == 'tmp' or pending == 'tmp':
                    viol.append(Violation(self.rule, node, st, 'temporary pack removed while the committed index still points to it'))
                tmp = 'absent'
            elif n == 'UNLINK' and self._own(e[1]):
                self.seen_effects.add('unlink-old')
                if idx == 'old' and refs != 'none':
                    viol.append(Violation(self.rule, node, st, 'old pack file removed while committed index rows may still point into it (before the commit that re-points them, and without an emptiness test)'))
                elif idx == 'new':
                    viol.append(Violation(self.rule, node, st, 'pack file removed after the index was re-pointed to it'))
                P = 'absent'
            elif n in ('LINK', 'RENAME', 'REPLACE', 'MOVE', 'COPY') and self._tmp(e[1]) and self._own(e[2]):
                self.seen_effects.add('link')
                if n in ('RENAME', 'REPLACE', 'MOVE') and (idx == 'tmp' or pending == 'tmp'):
                    viol.append(Violation(self.rule, node, st, f'temporary pack {n.lower()}d away while the index still points to it'))
                if tmp != 'flushed':
                    viol.append(Violation(self.rule, node, st, f'temporary pack linked back while it is "{tmp}"'))
                P = 'linked'
        return [(idx, pending, P, tmp, tmpD, refs)] + viol

    def at_exit(self, node, st, g):
        idx, pending, P, tmp, tmpD, refs = st
        out = []
        if node is g.exit:
            if self.require_rewrite and idx == 'old' and P == 'orig' and not self._path_sized:
                out.append(Violation(self.rule, node, st, 'repack_pack returns normally without having rewritten (or removed) the pack: bytes that no index row references, e.g. those of deleted '
                                     'objects, stay in the pack file'))
            if idx == 'tmp':
                out.append(Violation(self.rule, node, st, 'repack returns normally with the index still pointing to the temporary pack'))
            if pending is not None:
                out.append(Violation(self.rule, node, st, f'repack returns normally with an uncommitted re-pointing ({pending})'))
            if idx == 'new' and tmp != 'absent':
                out.append(Violation(self.rule, node, st, 'repack returns normally leaving the temporary pack behind'))
        return out
