"""C07 -- every returned stream behaves like an in-memory file over the object (DESIGN 5, C07).

Decides API-contract shape clauses of the stream classes; equality with io.BytesIO for all programs is not decided.
"""
from __future__ import annotations

import ast

from ..cfg import Policy
from ..loader import norm, walk_local
from ..report import Check
from ..solver import Machine, Violation
from ..solver import run as solve
from .common import strip_not

POR = 'utils:PackedObjectReader'
ZL = 'utils:ZlibLikeBaseStreamDecompresser'


def names_in(e):
    out = set()
    for x in ast.walk(e):
        if isinstance(x, ast.Name):
            out.add(x.id)
        elif isinstance(x, ast.Attribute):
            out.add(x.attr)
    return out


class _Unknown(Exception):
    pass


def _ev(e, env, length_attr):
    """Evaluate a side-effect-free integer/boolean guard expression of the AST under env = {target: int, '<len>': int}."""
    if isinstance(e, ast.Constant) and isinstance(e.value, (int, bool)):
        return e.value
    if isinstance(e, ast.Name):
        if e.id in env:
            return env[e.id]
        raise _Unknown
    if isinstance(e, ast.Attribute) and e.attr == length_attr and isinstance(e.value, ast.Name) and e.value.id == 'self':
        return env['<len>']
    if isinstance(e, ast.UnaryOp):
        v = _ev(e.operand, env, length_attr)
        if isinstance(e.op, ast.Not):
            return not v
        if isinstance(e.op, ast.USub):
            return -v
        raise _Unknown
    if isinstance(e, ast.BinOp) and isinstance(e.op, (ast.Add, ast.Sub)):
        a, b = _ev(e.left, env, length_attr), _ev(e.right, env, length_attr)
        return a + b if isinstance(e.op, ast.Add) else a - b
    if isinstance(e, ast.BoolOp):
        vals = [_ev(v, env, length_attr) for v in e.values]
        return all(vals) if isinstance(e.op, ast.And) else any(vals)
    if isinstance(e, ast.Compare):
        left = _ev(e.left, env, length_attr)
        for op, r in zip(e.ops, e.comparators):
            right = _ev(r, env, length_attr)
            ok = {ast.Lt: left < right, ast.LtE: left <= right, ast.Gt: left > right, ast.GtE: left >= right, ast.Eq: left == right, ast.NotEq: left != right}.get(type(op))
            if ok is None:
                raise _Unknown
            if not ok:
                return False
            left = right
        return True
    raise _Unknown


def _guard_meaning(test, outcome, var, length_attr):
    """(lower, upper): does taking the edge `test == outcome` imply var >= 0 / var <= length, for every small (var, length)?  None if the test is not a
    pure predicate over the target and the length."""
    if var not in names_in(test):
        return None
    pairs = []
    try:
        for L in (0, 1, 2, 5):
            for t in range(-3, 9):
                if bool(_ev(test, {var: t, '<len>': L}, length_attr)) == bool(outcome):
                    pairs.append((t, L))
    except _Unknown:
        return None
    if not pairs:
        return (True, True, frozenset())  # infeasible edge
    return (all(t >= 0 for t, L in pairs), all(t <= L for t, L in pairs), frozenset(pairs))


_FULL = frozenset((t, L) for L in (0, 1, 2, 5) for t in range(-3, 9))
_INRANGE = frozenset((t, L) for t, L in _FULL if 0 <= t <= L)


def _interp_read(fn_node, size_param, length_attr, size, L, P):
    """Run PackedObjectReader.read abstractly for one (size, length, position): straight-line code, if/else, assignments to locals, returns.  Returns the list of
    sizes passed to reads of the underlying handle, or None if a construct is not understood."""
    env = {size_param: size}
    reads = []

    class Stop(Exception):
        pass

    def ev(e):
        if isinstance(e, ast.Constant):
            return e.value
        if isinstance(e, ast.Name):
            if e.id in env:
                return env[e.id]
            raise _Unknown
        if isinstance(e, ast.Attribute) and isinstance(e.value, ast.Name) and e.value.id == 'self':
            if e.attr == length_attr:
                return L
            if e.attr == '_pos':
                return P
            raise _Unknown
        if isinstance(e, ast.UnaryOp):
            v = ev(e.operand)
            return (not v) if isinstance(e.op, ast.Not) else (-v if isinstance(e.op, ast.USub) else _raise())
        if isinstance(e, ast.BinOp) and isinstance(e.op, (ast.Add, ast.Sub)):
            a, b = ev(e.left), ev(e.right)
            return a + b if isinstance(e.op, ast.Add) else a - b
        if isinstance(e, ast.BoolOp):
            if isinstance(e.op, ast.And):
                for v in e.values:
                    r = ev(v)
                    if not r:
                        return r
                return r
            for v in e.values:
                r = ev(v)
                if r:
                    return r
            return r
        if isinstance(e, ast.Compare):
            left = ev(e.left)
            for op, rr in zip(e.ops, e.comparators):
                right = ev(rr)
                if isinstance(op, ast.Is):
                    ok = left is right
                elif isinstance(op, ast.IsNot):
                    ok = left is not right
                else:
                    if left is None or right is None:
                        if isinstance(op, ast.Eq):
                            ok = left == right
                        elif isinstance(op, ast.NotEq):
                            ok = left != right
                        else:
                            raise _Unknown
                    else:
                        ok = {ast.Lt: left < right, ast.LtE: left <= right, ast.Gt: left > right, ast.GtE: left >= right, ast.Eq: left == right, ast.NotEq: left != right}.get(type(op))
                    if ok is None:
                        raise _Unknown
                if not ok:
                    return False
                left = right
            return True
        if isinstance(e, ast.IfExp):
            return ev(e.body) if ev(e.test) else ev(e.orelse)
        if isinstance(e, ast.Call):
            f = norm(e.func)
            if f in ('min', 'max') and not e.keywords:
                vals = [ev(a) for a in e.args]
                return min(vals) if f == 'min' else max(vals)
            if isinstance(e.func, ast.Attribute) and e.func.attr == 'read' and '_fhandle' in names_in(e.func.value):
                reads.append(ev(e.args[0]) if e.args else None)
                return '<bytes>'
            if isinstance(e.func, ast.Attribute) and e.func.attr in ('_update_pos', 'tell') and 'self' in names_in(e.func.value):
                return None
            raise _Unknown
        raise _Unknown

    def _raise():
        raise _Unknown

    def run(stmts):
        for st in stmts:
            if isinstance(st, ast.Expr):
                if isinstance(st.value, ast.Constant):
                    continue
                ev(st.value)
            elif isinstance(st, (ast.Assign, ast.AnnAssign)) and st.value is not None:
                tg = st.targets[0] if isinstance(st, ast.Assign) and len(st.targets) == 1 else getattr(st, 'target', None)
                v = ev(st.value)
                if isinstance(tg, ast.Name):
                    env[tg.id] = v
                else:
                    raise _Unknown
            elif isinstance(st, ast.If):
                run(st.body if ev(st.test) else st.orelse)
            elif isinstance(st, ast.Return):
                if st.value is not None:
                    ev(st.value)
                raise Stop
            elif isinstance(st, (ast.Assert, ast.Pass)):
                continue
            else:
                raise _Unknown
    try:
        run(fn_node.body)
    except Stop:
        pass
    except _Unknown:
        return None
    return reads


class SeekMachine(Machine):
    """PackedObjectReader.seek for one constant `whence`: the variable used to compute the new position of the
    underlying handle is bounds-checked against 0 and the object length after its last assignment, it was normalised
    with tell() (whence=1) / the length (whence=2), and it (or a tell() after the move) is what is returned.
    State = (lower, upper, adj, moved)."""

    def __init__(self, ctx, g, whence, var, length_attr, rule1, rule2):
        self.E = ctx.effects
        self.whence = whence
        self.var = var
        self.length_attr = length_attr
        self.rule1, self.rule2 = rule1, rule2
        self.top = g.top
        self.moves = 0
        self.returns = 0
        self.feas = {}
        self.move_feasible = set()

    def initial(self, g):
        return [(False, False, 'none', False, _FULL)]

    def edge_state(self, edge, st, node, g):
        c = edge.cond
        if c is None or c[1] is not self.top:
            return st
        e, pol = strip_not(c[0], c[2])
        lo, up, adj, moved, feas = st
        # finite-domain reading of the guard: which (target, length) pairs can take this edge?  Any spelling of the bound (`t > L`, `t >= L + 1`,
        # `not 0 <= t <= L`, ...) gives the same answer.
        sem = _guard_meaning(c[0], c[2], self.var, self.length_attr)
        if sem is not None:
            return (lo or sem[0], up or sem[1], adj, moved) + (st[4] & sem[2],)
        if isinstance(e, ast.Compare) and len(e.ops) == 1:
            l, r, op = e.left, e.comparators[0], e.ops[0]
            ln, rn = names_in(l), names_in(r)
            # `var < 0` false  /  `var >= 0` true  /  `0 > var` false ...
            def is_var(x):
                return isinstance(x, ast.Name) and x.id == self.var
            def is_zero(x):
                return isinstance(x, ast.Constant) and x.value == 0
            def is_len(x):
                return self.length_attr in names_in(x) and self.var not in names_in(x)
            if is_var(l) and is_zero(r):
                if (isinstance(op, ast.Lt) and not pol) or (isinstance(op, ast.GtE) and pol):
                    lo = True
            if is_zero(l) and is_var(r):
                if (isinstance(op, ast.Gt) and not pol) or (isinstance(op, ast.LtE) and pol):
                    lo = True
            if is_var(l) and is_len(r):
                if (isinstance(op, ast.Gt) and not pol) or (isinstance(op, ast.LtE) and pol):
                    up = True
            if is_len(l) and is_var(r):
                if (isinstance(op, ast.Lt) and not pol) or (isinstance(op, ast.GtE) and pol):
                    up = True
        return (lo, up, adj, moved, feas)

    def transfer(self, node, st, g):
        lo, up, adj, moved, feas = st
        viol = []
        if node.frame is self.top and node.kind == 'stmt' and isinstance(node.ast, (ast.Assign, ast.AugAssign)):
            tgt = node.ast.targets[0] if isinstance(node.ast, ast.Assign) and len(node.ast.targets) == 1 else getattr(node.ast, 'target', None)
            if isinstance(tgt, ast.Name) and tgt.id == self.var:
                lo = up = False
                feas = _FULL
                v = node.ast.value
                nm = names_in(v)
                if isinstance(v, ast.Call) and norm(v.func) in ('min', 'max'):
                    pass
                if 'tell' in nm:
                    adj = 'tell'
                elif self.length_attr in nm:
                    adj = 'length'
                elif isinstance(v, ast.Call) and norm(v.func) == 'max' and any(isinstance(a, ast.Constant) and a.value == 0 for a in v.args):
                    lo = True
                # clamps: var = max(0, min(var, length))
                txt = norm(v)
                if 'max(' in txt and 'min(' in txt and self.length_attr in nm:
                    lo = up = True
        if node.frame is self.top and node.kind == 'call' and any(e[0] == 'H_SEEK' for e in self.E.of(node)) or (
                node.frame is self.top and node.kind == 'call' and isinstance(node.ast.func, ast.Attribute) and node.ast.func.attr == 'seek'
                and '_fhandle' in names_in(node.ast.func.value)):
            self.moves += 1
            moved = True
            self.move_feasible |= feas
            if not (lo and up):
                missing = [w for w, f in (('>= 0', lo), ('<= length', up)) if not f]
                viol.append(Violation(self.rule1, node, st, f'whence={self.whence}: the underlying pack handle is moved although the target was not checked ({" and ".join(missing)}) '
                                      'after its last assignment: an out-of-range seek leaves the reader positioned outside its object (reads then return foreign bytes or fail)'))
        if node.frame is self.top and node.kind == 'return' and moved:
            self.returns += 1
            v = node.ast.value
            ok = False
            if isinstance(v, ast.Name) and v.id == self.var:
                want = {0: 'none', 1: 'tell', 2: 'length'}[self.whence]
                ok = adj == want or (self.whence == 0 and adj == 'none')
                if not ok:
                    viol.append(Violation(self.rule2, node, st, f'whence={self.whence}: seek returns `{self.var}` which was normalised with "{adj}" (expected "{want}"): the returned value '
                                          'is not the new absolute position'))
            elif isinstance(v, ast.Call) and 'tell' in names_in(v.func):
                ok = True
            elif v is not None:
                nm = names_in(v)
                if self.whence == 2 and self.length_attr not in nm and 'tell' not in nm and '_pos' not in nm:
                    viol.append(Violation(self.rule2, node, st, f'whence=2: the value returned by seek (`{norm(v)}`) does not depend on the object length: it cannot be the absolute position'))
            else:
                viol.append(Violation(self.rule2, node, st, 'seek returns None instead of the new absolute position'))
        return [(lo, up, adj, moved, feas)] + viol


def rewind_reset(ctx, chk, R6):
    """Sibling agreement between __init__ and the rewind block of the decompresser (shared with C01 and C10)."""
    prog = ctx.prog
    zcls = prog.cls(ZL)
    si = prog.fn(ZL + '._seek_internal')
    flag = '_use_uncompressed_stream'
    # ---------------------------------------------------------------- R6: rewind resets the whole decompression state

    def attr_assigns(fn, stmts, depth=1):
        out = {}
        for st in stmts:
            for n in ast.walk(st):
                if isinstance(n, (ast.Assign, ast.AnnAssign)):
                    tgts = n.targets if isinstance(n, ast.Assign) else [n.target]
                    vals = [n.value] * len(tgts)
                    if isinstance(n, ast.Assign) and len(tgts) == 1 and isinstance(tgts[0], ast.Tuple) and isinstance(n.value, ast.Tuple):
                        tgts, vals = tgts[0].elts, n.value.elts
                    for t, v in zip(tgts, vals):
                        if isinstance(t, ast.Attribute) and isinstance(t.value, ast.Name) and t.value.id == 'self' and v is not None:
                            out[t.attr] = v
                elif isinstance(n, ast.Call) and depth > 0 and isinstance(n.func, ast.Attribute) and isinstance(n.func.value, ast.Name) and n.func.value.id == 'self':
                    h = prog.find_method(zcls, n.func.attr)
                    if h is not None and h.name not in ('seek', 'read', '_seek_internal', '_read_compressed', 'tell'):
                        out.update(attr_assigns(h, h.node.body, depth - 1))
        return out
    zinit = prog.fn(ZL + '.__init__')
    init_as = attr_assigns(zinit, zinit.node.body)
    iparams = set(zinit.params)
    state = {a: v for a, v in init_as.items() if not (names_in(v) & iparams) and a != flag}
    chk.require(len(state) >= 3, f'{ZL}.__init__: expected at least 3 decompression-state attributes, found {sorted(state)}')
    reset_blocks = []
    for n in walk_local(si.node):
        if isinstance(n, ast.If):
            for blk in (n.body, n.orelse):
                if any(isinstance(c, ast.Call) and isinstance(c.func, ast.Attribute) and c.func.attr == 'seek' and '_compressed_stream' in names_in(c.func.value)
                       and c.args and isinstance(c.args[0], ast.Constant) and c.args[0].value == 0 for st in blk for c in ast.walk(st)):
                    reset_blocks.append(blk)
    chk.require(reset_blocks, f'{si.qualname}: the rewind block (compressed_stream.seek(0)) was not found')
    for blk in reset_blocks:
        got = attr_assigns(si, blk)
        missing = [a for a in state if a not in got]
        differ = [a for a in state if a in got and norm(got[a]) != norm(state[a])]
        if missing or differ:
            chk.bad(R6, si.qualname, f'rewind block at line {blk[0].lineno}', f'rewinding the compressed stream does not reset {sorted(missing + differ)} to its initial value: bytes inflated for the old '
                    'position are served after the rewind (wrong content / more bytes than the object has)', where=f'{si.module.relpath}:{blk[0].lineno}')
        else:
            chk.ok(R6, si.qualname, f'rewind block at line {blk[0].lineno}', detail=f'resets {sorted(state)} exactly as __init__ does')



def first_guard_rejects_whence(fn, prog=None):
    """True iff the first executable statement of `fn` raises when whence is not one of 0,1,2."""
    body = [s for s in fn.node.body if not (isinstance(s, ast.Expr) and isinstance(s.value, ast.Constant))]
    for st in body[:6]:
        if isinstance(st, ast.If) and any(isinstance(x, ast.Raise) for x in st.body):
            t = st.test
            if isinstance(t, ast.Compare) and 'whence' in names_in(t.left) and isinstance(t.ops[0], ast.NotIn):
                vals = [c.value for c in ast.walk(t.comparators[0]) if isinstance(c, ast.Constant)]
                if sorted(vals) == [0, 1, 2]:
                    return True
                # a named constant (class attribute, os.SEEK_*): fold it
                if prog is not None:
                    from ..resolve import UNKNOWN as _U, fold as _fold
                    v = _fold(prog, t.comparators[0], fn, {})
                    if v is not _U and isinstance(v, (list, tuple, set, frozenset)) and sorted(v) == [0, 1, 2]:
                        return True
        # only inert statements (assignments of call-free expressions, diagnostics, assertions without calls) may precede the guard
        if _inert(st):
            continue
        return False
    return False


def _inert(st):
    if isinstance(st, ast.Expr) and isinstance(st.value, ast.Call):
        f = norm(st.value.func)
        return f.split('.')[0] in ('logging', 'LOGGER', 'logger', 'log', 'warnings') or '.getLogger(' in f
    if isinstance(st, (ast.Assign, ast.AnnAssign)):
        tg = st.targets if isinstance(st, ast.Assign) else [st.target]
        return all(isinstance(t, ast.Name) for t in tg) and not any(isinstance(x, ast.Call) for x in ast.walk(st))
    if isinstance(st, (ast.Assert, ast.Pass)):
        return not any(isinstance(x, ast.Call) for x in ast.walk(st))
    return False


def decompresser_buffer_discipline(ctx, chk, rule):
    """In the decompresser every inflated byte goes through the internal buffer: results of `<decompressor>.decompress(...)` are only ever
    appended to the buffer, and what a read returns is the head of the buffer, an empty constant, or a join of the results of sized reads on
    self.  (Otherwise bytes already inflated and waiting in the buffer are skipped: data is lost from the middle of the object.)"""
    prog = ctx.prog
    zcls = prog.cls(ZL)
    rc = zcls.methods.get('_read_compressed')
    chk.require(rc is not None, f'{ZL}._read_compressed not found')
    init = zcls.methods.get('__init__')
    buf = None
    for n in walk_local(init.node):
        if isinstance(n, ast.Assign) and isinstance(n.targets[0], ast.Attribute) and isinstance(n.value, ast.Constant) and n.value.value == b'':
            buf = n.targets[0].attr
    chk.require(buf is not None, 'decompresser __init__: internal buffer attribute (initialised to b\'\') not found')
    inflates = [c for c in walk_local(rc.node) if isinstance(c, ast.Call) and isinstance(c.func, ast.Attribute) and c.func.attr == 'decompress']
    chk.require(inflates, '_read_compressed: decompress() call not found')
    problems = []
    for c in inflates:
        par = getattr(c, '_parent', None)
        tgt = None
        if isinstance(par, ast.Assign) and isinstance(par.targets[0], ast.Name):
            tgt = par.targets[0].id
        elif isinstance(par, ast.AugAssign) and isinstance(par.target, ast.Attribute) and par.target.attr == buf:
            continue
        if tgt is None:
            problems.append((c, 'the result of decompress() is not stored'))
            continue
        uses = [x for x in walk_local(rc.node) if isinstance(x, ast.Name) and x.id == tgt and isinstance(x.ctx, ast.Load)]
        okuse = bool(uses)
        for u in uses:
            up = getattr(u, '_parent', None)
            if isinstance(up, ast.AugAssign) and isinstance(up.op, ast.Add) and isinstance(up.target, ast.Attribute) and up.target.attr == buf and up.value is u:
                continue
            if isinstance(up, ast.BinOp) and isinstance(up.op, ast.Add) and isinstance(getattr(up, '_parent', None), ast.Assign) \
                    and isinstance(up._parent.targets[0], ast.Attribute) and up._parent.targets[0].attr == buf and buf in names_in(up):
                continue
            okuse = False
        if not okuse:
            problems.append((c, f'`{tgt}` (inflated bytes) is used otherwise than being appended to self.{buf}'))
    for r in [n for n in walk_local(rc.node) if isinstance(n, ast.Return) and n.value is not None]:
        v = r.value
        if isinstance(v, ast.Constant) and v.value == b'':
            continue
        if isinstance(v, ast.Name):
            src = [a for a in walk_local(rc.node) if isinstance(a, ast.Assign) and v.id in names_in(a.targets[0]) and a.lineno <= r.lineno]
            if src and all(buf in names_in(a.value) for a in src):
                continue
            if src and all(isinstance(a.value, (ast.List, ast.Constant)) for a in src):
                continue
            problems.append((r, f'`{v.id}` is returned but is not cut from the head of self.{buf}'))
            continue
        if isinstance(v, ast.Call) and isinstance(v.func, ast.Attribute) and v.func.attr == 'join':
            lst = v.args[0] if v.args else None
            if isinstance(lst, ast.Name):
                apps = [c for c in walk_local(rc.node) if isinstance(c, ast.Call) and isinstance(c.func, ast.Attribute) and c.func.attr == 'append' and norm(c.func.value) == lst.id]
                okj = bool(apps)
                for a in apps:
                    arg = a.args[0] if a.args else None
                    def encl_loop(x):
                        q = getattr(x, '_parent', None)
                        while q is not None and not isinstance(q, (ast.While, ast.For, ast.FunctionDef)):
                            q = getattr(q, '_parent', None)
                        return q
                    srcs = [x for x in walk_local(rc.node) if isinstance(x, ast.Assign) and isinstance(arg, ast.Name) and arg.id in names_in(x.targets[0]) and encl_loop(x) is encl_loop(a)]
                    if not (srcs and all(isinstance(x.value, ast.Call) and isinstance(x.value.func, ast.Attribute) and x.value.func.attr in ('read', '_read_compressed')
                                         and norm(x.value.func.value) == 'self' and x.value.args for x in srcs)):
                        okj = False
                if okj:
                    continue
            problems.append((r, 'the joined pieces are not results of sized reads on self'))
            continue
        if isinstance(v, ast.Subscript) and buf in names_in(v.value):
            continue
        problems.append((r, f'`{norm(v)[:60]}` is returned but is not taken from self.{buf}'))
    if problems:
        n0, why = problems[0]
        chk.bad(rule, rc.qualname, norm(n0)[:100], f'inflated bytes bypass the internal buffer ({why}): bytes already inflated by an earlier sized read and still waiting in the buffer are skipped, '
                'so a read() after a read(n) loses data from the middle of the object', where=f'{rc.module.relpath}:{n0.lineno}')
    else:
        chk.ok(rule, rc.qualname, f'{len(inflates)} decompress() call(s)', detail=f'all inflated bytes are appended to self.{buf}; every return hands out the head of the buffer, b\'\' or a join of sized reads')


def _remaining_like(e, f):
    """e is (or is a local bound once from) an expression over the object's length and position attributes: the bytes that remain."""
    if isinstance(e, ast.Name):
        asg = [n for n in walk_local(f.node) if isinstance(n, ast.Assign) and len(n.targets) == 1 and isinstance(n.targets[0], ast.Name) and n.targets[0].id == e.id]
        return len(asg) == 1 and _remaining_like(asg[0].value, f)
    ns = names_in(e)
    return isinstance(e, ast.BinOp) and isinstance(e.op, ast.Sub) and any('length' in x for x in ns) and any('pos' in x for x in ns)


def read_size_exactness(ctx, chk, rule):
    prog = ctx.prog
    names = ['utils:PackedObjectReader.read', ZL + '.read', ZL + '._read_compressed', 'utils:LazyLooseStream.read', 'utils:CallbackStreamWrapper.read', 'utils:ZeroStream.read']
    for q in names:
        chk.require(prog.has_fn(q), f'{q} not found')
        f = prog.fn(q)
        chk.require(len(f.params) >= 1, f'{q}: no size parameter')
        p = f.params[0]
        bad = None
        for n in walk_local(f.node):
            if isinstance(n, ast.Name) and n.id == p and isinstance(n.ctx, (ast.Store, ast.Del)):
                st = n
                while not isinstance(st, ast.stmt):
                    st = st._parent
                val = getattr(st, 'value', None)
                if not (isinstance(st, ast.Assign) and val is not None and (_remaining_like(val, f) or (isinstance(val, ast.Call) and norm(val.func) == 'min' and
                                                                                                            all(norm(a) == p or _remaining_like(a, f) for a in val.args)))):
                    bad = (n, f'the requested size `{p}` is re-bound to `{norm(val) if val is not None else "?"}`, which is not the bytes remaining in the object: read({p}) then returns fewer bytes than asked for '
                           'although the object has not ended (io.BytesIO and the other storage forms of the same object return exactly n)')
            if isinstance(n, ast.Call) and norm(n.func) in ('min',) and any(norm(a) == p for a in n.args):
                others = [a for a in n.args if norm(a) != p]
                if not all(_remaining_like(a, f) for a in others):
                    bad = (n, f'`{norm(n)}` caps the requested size by something other than the bytes remaining in the object: a read of more than that returns short although the object has not ended')
            if isinstance(n, ast.Call) and isinstance(n.func, ast.Attribute) and n.func.attr in ('read', '_read_compressed') and n.args and p in names_in(n.args[0]) and norm(n.args[0]) != p \
                    and not (isinstance(n.args[0], ast.Call) and norm(n.args[0].func) == 'min'):
                bad = (n, f'the size passed on to the underlying read, `{norm(n.args[0])}`, is not the requested `{p}`')
        if q.endswith('_read_compressed'):
            loops = [n for n in walk_local(f.node) if isinstance(n, ast.While) and isinstance(n.test, ast.Compare) and len(n.test.ops) == 1 and isinstance(n.test.ops[0], ast.Lt)
                     and norm(n.test.comparators[0]) == p and norm(n.test.left).startswith('len(')]
            if len(loops) != 1:
                bad = bad or (f.node, f'the inflate loop `while len(buffer) < {p}` was not found: nothing makes the call go on until {p} bytes are available')
            else:
                for b in ast.walk(loops[0]):
                    if isinstance(b, ast.Break):
                        guards = [a for a in _ancestors_until(b, loops[0]) if isinstance(a, ast.If)]
                        if not any('eof' in norm(g.test) for g in guards):
                            bad = bad or (b, 'the inflate loop is left by a `break` that is not guarded by the end of the compressed stream: a short read although data remains')
        if bad:
            chk.bad(rule, q, norm(bad[0])[:90] if not isinstance(bad[0], ast.FunctionDef) else q, bad[1], where=f'{f.module.relpath}:{getattr(bad[0], "lineno", f.lineno)}')
        else:
            chk.ok(rule, q, f'size parameter `{p}`', detail='never re-bound; min() only with the remaining bytes; delegated unchanged; inflate loop runs until enough bytes or end of stream')


def seek_atomicity(ctx, chk, rule):
    prog = ctx.prog
    names = ['utils:LazyLooseStream.seek', 'utils:PackedObjectReader.seek', 'utils:CallbackStreamWrapper.seek', ZL + '.seek', ZL + '._seek_internal']
    UNDER = ('_stream', '_fhandle', '_compressed_stream', '_lazy_uncompressed_stream')
    for q in names:
        chk.require(prog.has_fn(q), f'{q} not found')
        f = prog.fn(q)
        g = ctx.icfg(q, {}, Policy(depth=0), key='d0')
        moves = [n for n in g.nodes if n.kind == 'call' and isinstance(n.ast, ast.Call) and isinstance(n.ast.func, ast.Attribute) and n.ast.func.attr == 'seek'
                 and any(u in names_in(n.ast.func.value) for u in UNDER)]
        bad = None
        for m in moves:
            seen, todo = {m.id}, [m]
            while todo and bad is None:
                x = todo.pop()
                for e in x.succ:
                    if e.kind != 'n' or e.dst.id in seen:
                        continue
                    seen.add(e.dst.id)
                    if e.dst.kind == 'raise' and isinstance(e.dst.ast, ast.Raise):
                        bad = (m, e.dst)
                        break
                    todo.append(e.dst)
        if bad is not None:
            chk.bad(rule, q, f'{norm(bad[0].ast)[:50]} ... {norm(bad[1].ast)[:50]}', f'`{norm(bad[0].ast)[:60]}` moves the underlying stream and a `raise` (line {bad[1].ast.lineno}) can still follow: a seek that is '
                    'rejected (e.g. out of range) leaves the stream at the probe position -- the caller that catches the error sees tell() and read() at the wrong place (io.BytesIO leaves the position unchanged)',
                    where=f'{f.module.relpath}:{bad[0].ast.lineno}')
        else:
            chk.ok(rule, q, f'{len(moves)} move(s) of the underlying stream', detail='no raise reachable after a move')
    # the switch to the uncompressed copy: the buffered state is dropped only after the step that can fail (open_stream) succeeded
    zs = prog.fn(ZL + '.seek')
    opens = [n for n in walk_local(zs.node) if isinstance(n, ast.Call) and isinstance(n.func, ast.Attribute) and n.func.attr == 'open_stream']
    for o in opens:
        st = o
        while not isinstance(st, ast.stmt):
            st = st._parent
        blk_owner = st._parent
        for field in ('body', 'orelse', 'finalbody'):
            blk = getattr(blk_owner, field, None)
            if isinstance(blk, list) and st in blk:
                early = [x for x in blk[:blk.index(st)] if isinstance(x, (ast.Assign, ast.AugAssign)) and any(isinstance(t, ast.Attribute) and norm(t.value) == 'self'
                                                                                                              for t in (x.targets if isinstance(x, ast.Assign) else [x.target]))]
                if early:
                    chk.bad(rule, zs.qualname, norm(early[0])[:80], f'`{norm(early[0])[:60]}` changes the decompresser\'s state before `open_stream()`, which can fail (the loose copy has to be written): after '
                            'a failed seek the stream has lost buffered bytes although its reported position did not change', where=f'{zs.module.relpath}:{early[0].lineno}')
                else:
                    chk.ok(rule, zs.qualname, 'state untouched before open_stream()', detail='', nontrivial=False)


def _ancestors_until(n, stop):
    n = getattr(n, '_parent', None)
    while n is not None and n is not stop:
        yield n
        n = getattr(n, '_parent', None)


def last_assignment_in(f, name, before):
    from ..effects import last_assignment
    return last_assignment(name, f, before)


def run(ctx, host=None):
    chk = host.sub('C07') if host is not None else Check('C07', ctx)
    prog, K, E = ctx.prog, ctx.kinds, ctx.effects
    R1 = chk.rule('C07.R1', 'PackedObjectReader.seek: bounds checks (>= 0, <= length) dominate the move of the pack handle, per whence value', 3)
    R2 = chk.rule('C07.R2', 'seek returns the new absolute position (per whence value; decompresser returns its position)', 4)
    R3 = chk.rule('C07.R3', 'PackedObjectReader.read never reads beyond the object; position refreshed after every move/read', 3)
    R4 = chk.rule('C07.R4', 'invalid whence is rejected before any effect in every seek implementation', 2)
    R5 = chk.rule('C07.R5', 'decompresser: negative target rejected before any state change; proxy switch is one-way and tested first by read/tell/seek', 5)
    pol = Policy(depth=1, only={POR + '.tell', POR + '._update_pos'})

    # ---------------------------------------------------------------- R1/R2 on PackedObjectReader.seek
    seek = prog.fn(POR + '.seek')
    params = seek.params
    chk.require(len(params) >= 2, 'PackedObjectReader.seek(target, whence) signature changed')
    var, wh = params[0], params[1]
    init = prog.fn(POR + '.__init__')
    length_attr = None
    for n in walk_local(init.node):
        if isinstance(n, ast.Assign) and isinstance(n.targets[0], ast.Attribute) and isinstance(n.value, ast.Name) and n.value.id == 'length':
            length_attr = n.targets[0].attr
    chk.require(length_attr is not None, 'PackedObjectReader.__init__: attribute holding the object length not found')
    for w in (0, 1, 2):
        g = ctx.icfg(seek.qualname, {wh: w}, pol, key='c07')
        m = SeekMachine(ctx, g, w, var, length_attr, 'C07.R1', 'C07.R2')
        viols, st = solve(g, m)
        chk.crash_points += st['pairs']
        chk.specialisations += 1
        chk.require(m.moves >= 1, f'PackedObjectReader.seek(whence={w}): no move of the underlying handle found')
        chk.require(m.returns >= 1, f'PackedObjectReader.seek(whence={w}): no return after the move found')
        for v in viols:
            chk.bad(v.rule, seek.qualname, f'whence={w}: ' + v.node.text(100), v.msg, where=v.node.where, witness=v.witness)
        lost = sorted(_INRANGE - m.move_feasible)
        if lost and m.moves:
            chk.bad(R1, seek.qualname, f'whence={w}: guards before the move', f'whence={w}: an in-range target is rejected: with (target, length) = {lost[0]} no path reaches the move of the handle '
                    '(io.BytesIO accepts every position from 0 up to and including the length, e.g. seek(0, 2))', where=f'{seek.module.relpath}:{seek.lineno}')
        elif not [v for v in viols if v.rule == 'C07.R1']:
            chk.ok(R1, seek.qualname, f'whence={w}', detail='lower and upper bound checked after the last assignment of the target, before the handle moves; every in-range target reaches the move')
        if not [v for v in viols if v.rule == 'C07.R2']:
            chk.ok(R2, seek.qualname, f'whence={w}', detail='returned value is the normalised absolute target')

    # decompresser return values
    si = prog.fn(ZL + '._seek_internal')
    rets = [n for n in walk_local(si.node) if isinstance(n, ast.Return)]
    badret = [r for r in rets if not (isinstance(r.value, ast.Constant) and r.value.value == 0 or (r.value is not None and (names_in(r.value) & {'_pos', 'seek', 'tell'})))]
    if badret:
        for r in badret:
            chk.bad(R2, si.qualname, norm(r), 'the decompresser\'s seek returns something that is neither its position nor the proxied seek result', where=f'{si.module.relpath}:{r.lineno}')
    else:
        chk.ok(R2, si.qualname, f'{len(rets)} return sites', detail='return self._pos / proxied seek / 0 after reset')

    # ---------------------------------------------------------------- R3
    rd = prog.fn(POR + '.read')
    reads = [n for n in walk_local(rd.node) if isinstance(n, ast.Call) and isinstance(n.func, ast.Attribute) and n.func.attr == 'read' and '_fhandle' in names_in(n.func.value)]
    chk.require(len(reads) >= 1, 'PackedObjectReader.read: no read of the underlying handle')
    # remaining = length - pos
    rem = None
    for n in walk_local(rd.node):
        if isinstance(n, ast.Assign) and isinstance(n.targets[0], ast.Name) and isinstance(n.value, ast.BinOp) and isinstance(n.value.op, ast.Sub) \
                and length_attr in names_in(n.value.left) and '_pos' in names_in(n.value.right):
            rem = n.targets[0].id
    # semantic reading first: interpret the method for small (size, length, position) and compare the size handed to the underlying read with
    # `remaining if size is None or size < 0 else min(size, remaining)`; only if a construct is not understood fall back to the shape rules below
    szp0 = rd.params[0] if rd.params else 'size'
    sem_ok, sem_cex = True, None
    for L_ in (0, 1, 4):
        for P_ in range(0, L_ + 1):
            for sz in (None, -3, -1, 0, 1, 2, 3, 7):
                got = _interp_read(rd.node, szp0, length_attr, sz, L_, P_)
                remaining = L_ - P_
                want_n = remaining if (sz is None or sz < 0) else min(sz, remaining)
                if got is None:
                    sem_ok = None
                    break
                if got != [want_n]:
                    sem_ok, sem_cex = False, (sz, L_, P_, got, want_n)
                    break
            if sem_ok is not True:
                break
        if sem_ok is not True:
            break
    if sem_ok is True:
        chk.ok(R3, rd.qualname, f'read({szp0}) for {szp0} in (None, <0, 0, small, > remaining)', detail='the underlying handle is read exactly once, with `remaining` for None / negative sizes and min(size, remaining) otherwise')
        chk.ok(R3, rd.qualname, 'read-all selection', detail='by evaluation over small sizes, lengths and positions')
    elif sem_ok is False:
        sz, L_, P_, got, want_n = sem_cex
        chk.bad(R3, rd.qualname, f'read({sz}) with length={L_}, position={P_}', f'the underlying pack handle is read with size(s) {got} where {want_n} byte(s) must be requested: bytes of the neighbouring object can be returned, '
                'read(0) must return an empty bytes object, a positive size must never read everything', where=f'{rd.module.relpath}:{rd.lineno}')
    for r in (reads if sem_ok is None else []):
        a = r.args[0] if r.args else None
        ok = False
        if isinstance(a, ast.Name):
            if a.id == rem:
                ok = True
            else:
                for n in walk_local(rd.node):
                    if isinstance(n, ast.Assign) and isinstance(n.targets[0], ast.Name) and n.targets[0].id == a.id:
                        v = n.value
                        ok = isinstance(v, ast.Call) and norm(v.func) == 'min' and any(isinstance(x, ast.Name) and x.id == rem for x in v.args)
        elif isinstance(a, ast.Call) and norm(a.func) == 'min' and any(isinstance(x, ast.Name) and x.id == rem for x in a.args):
            ok = True
        if ok and rem:
            chk.ok(R3, rd.qualname, norm(r), detail=f'size bounded by `{rem}` = length - position')
        else:
            chk.bad(R3, rd.qualname, norm(r), 'the underlying pack handle is read with a size that is not bounded by (length - position): bytes of the neighbouring object can be returned',
                    where=f'{rd.module.relpath}:{r.lineno}')
    # _update_pos after every read/seek of the handle in read/seek/__init__
    for f in (rd, seek, init):
        body_calls = [n for n in walk_local(f.node) if isinstance(n, ast.Call) and isinstance(n.func, ast.Attribute)]
        moves = [n for n in body_calls if n.func.attr in ('read', 'seek') and '_fhandle' in names_in(n.func.value)]
        ups = sorted([n for n in body_calls if n.func.attr == '_update_pos'], key=lambda x: x.lineno)
        for mv in moves:
            nxt = [u for u in ups if u.lineno > mv.lineno]
            inter = [x for x in moves if mv.lineno < x.lineno < (nxt[0].lineno if nxt else 10 ** 9)]
            rets_between = [x for x in walk_local(f.node) if isinstance(x, ast.Return) and mv.lineno <= x.lineno < (nxt[0].lineno if nxt else 10 ** 9)]
            if nxt and not rets_between:
                chk.ok(R3, f.qualname, f'{norm(mv)[:60]} -> _update_pos()', detail='position refreshed before returning', nontrivial=False)
            else:
                chk.bad(R3, f.qualname, norm(mv)[:100], 'the cached position is not refreshed (_update_pos) after moving the underlying handle: the next read computes a wrong remaining length',
                        where=f'{f.module.relpath}:{mv.lineno}')

    # read(size): the read-everything branch is selected exactly by "size is None or size < 0" (read(0) must return b'' like any file object)
    szp = rd.params[0] if rd.params else 'size'
    allb = [n for n in walk_local(rd.node) if isinstance(n, ast.If) and any(isinstance(c, ast.Call) and isinstance(c.func, ast.Attribute) and c.func.attr == 'read'
                                                                             and c.args and isinstance(c.args[0], ast.Name) and c.args[0].id == rem for s2 in n.body for c in ast.walk(s2))]
    okall = False
    if len(allb) == 1:
        t = allb[0].test
        parts = t.values if isinstance(t, ast.BoolOp) and isinstance(t.op, ast.Or) else [t]
        okall = True
        neg_seen = False
        for pt in parts:
            tx = norm(pt).replace(' ', '')
            if tx in (f'{szp}isNone',):
                continue
            if tx in (f'{szp}<0', f'0>{szp}', f'{szp}<=-1', f'-1>={szp}'):
                neg_seen = True
                continue
            okall = False
        okall = okall and neg_seen
    if sem_ok is not None:
        pass
    elif okall:
        chk.ok(R3, rd.qualname, norm(allb[0].test), detail='all remaining bytes are returned only for size None / negative; read(0) takes the bounded branch and returns b\'\'')
    else:
        chk.bad(R3, rd.qualname, norm(allb[0].test) if allb else 'read-all branch', 'the branch that returns all remaining bytes is not selected exactly by `size is None or size < 0`: e.g. read(0) '
                'must return an empty bytes object as for any file, and a positive size must never read everything', where=f'{rd.module.relpath}:{(allb[0].lineno if allb else rd.lineno)}')

    # ---------------------------------------------------------------- R7: one coordinate mapping (object position <-> pack-file position)
    R7 = chk.rule('C07.R7', 'PackedObjectReader converts between object and pack-file coordinates only as handle.tell() - offset and offset + target', 3)
    off_attr = None
    for n in walk_local(init.node):
        if isinstance(n, ast.Assign) and isinstance(n.targets[0], ast.Attribute) and isinstance(n.value, ast.Name) and n.value.id == 'offset':
            off_attr = n.targets[0].attr
    chk.require(off_attr is not None, 'PackedObjectReader.__init__: attribute holding the object offset not found')
    por = prog.cls(POR)

    def is_off(e):
        return isinstance(e, ast.Attribute) and e.attr == off_attr and norm(e.value) == 'self'
    for mname, f in sorted(por.methods.items()):
        for n in walk_local(f.node):
            if isinstance(n, ast.Call) and isinstance(n.func, ast.Attribute) and '_fhandle' in names_in(n.func.value):
                if n.func.attr == 'tell':
                    par = getattr(n, '_parent', None)
                    if isinstance(par, ast.BinOp) and isinstance(par.op, ast.Sub) and par.left is n and is_off(par.right):
                        chk.ok(R7, f.qualname, norm(par), detail='pack position -> object position', nontrivial=False)
                    else:
                        chk.bad(R7, f.qualname, norm(par if par is not None else n)[:100], 'the position of the pack handle is used without subtracting the object\'s offset: positions reported / stored '
                                'for the object are then pack-file positions', where=f'{f.module.relpath}:{n.lineno}')
                elif n.func.attr == 'seek':
                    a = n.args[0] if n.args else None
                    if isinstance(a, ast.Name):
                        a2 = last_assignment_in(f, a.id, n.lineno)
                        a = a2 if a2 is not None else a
                    okm = is_off(a) or (isinstance(a, ast.BinOp) and isinstance(a.op, ast.Add) and ((is_off(a.left) and isinstance(a.right, ast.Name)) or (is_off(a.right) and isinstance(a.left, ast.Name))))
                    if okm and len(n.args) == 1:
                        chk.ok(R7, f.qualname, norm(n) + ' with ' + norm(a), detail='object position -> pack position = offset + target', nontrivial=False)
                    else:
                        chk.bad(R7, f.qualname, norm(n) + ' with ' + (norm(a) if a is not None else '?'), 'the pack handle is moved to something other than `offset + <object position>` '
                                '(absolute seek): the stream would be positioned on other bytes than the ones requested', where=f'{f.module.relpath}:{n.lineno}')

    # tell() answers in object coordinates: either the conversion itself, or an attribute that is only ever assigned the conversion
    tl = por.methods.get('tell')
    chk.require(tl is not None, 'PackedObjectReader.tell not found')
    for r in [n for n in walk_local(tl.node) if isinstance(n, ast.Return)]:
        v = r.value
        okt = isinstance(v, ast.BinOp) and isinstance(v.op, ast.Sub) and is_off(v.right) and 'tell' in names_in(v.left)
        if not okt and isinstance(v, ast.Attribute) and norm(v.value) == 'self':
            asg = [(f2, n) for f2 in por.methods.values() for n in walk_local(f2.node) if isinstance(n, (ast.Assign, ast.AugAssign))
                   for t in (n.targets if isinstance(n, ast.Assign) else [n.target]) if isinstance(t, ast.Attribute) and t.attr == v.attr and norm(t.value) == 'self']
            okt = bool(asg) and all((f2.name == '__init__') or (isinstance(n, ast.Assign) and isinstance(n.value, ast.BinOp) and isinstance(n.value.op, ast.Sub) and is_off(n.value.right)
                                                                and 'tell' in names_in(n.value.left)) for f2, n in asg)
        if okt:
            chk.ok(R7, tl.qualname, norm(r), detail='object position (converted from the pack position)', nontrivial=False)
        else:
            chk.bad(R7, tl.qualname, norm(r), 'tell() returns something that is not the pack position minus the object offset', where=f'{tl.module.relpath}:{r.lineno}')

    # ---------------------------------------------------------------- R4
    for q in (POR + '.seek', ZL + '.seek'):
        f = prog.fn(q)
        if first_guard_rejects_whence(f, prog):
            chk.ok(R4, q, 'if whence not in [0, 1, 2]: raise', detail='first statement', nontrivial=False)
        else:
            chk.bad(R4, q, 'whence guard', 'an invalid `whence` is no longer rejected before the first effect of seek()', where=f'{f.module.relpath}:{f.lineno}')

    # ---------------------------------------------------------------- R5
    # negative target: raise dominates every state change in _seek_internal (non-proxy part)
    stmts = si.node.body
    neg_line = None
    for n in walk_local(si.node):
        if isinstance(n, ast.If) and any(isinstance(x, ast.Raise) for x in n.body) and isinstance(n.test, ast.Compare) \
                and isinstance(n.test.ops[0], ast.Lt) and isinstance(n.test.comparators[0], ast.Constant) and n.test.comparators[0].value == 0:
            neg_line = n.lineno
    state_changes = [n for n in walk_local(si.node) if isinstance(n, ast.Assign) and isinstance(n.targets[0], ast.Attribute) and n.targets[0].attr in ('_pos', '_internal_buffer', '_decompressor')]
    comp_seeks = [n for n in walk_local(si.node) if isinstance(n, ast.Call) and isinstance(n.func, ast.Attribute) and n.func.attr in ('seek', 'read') and ('_compressed_stream' in names_in(n.func.value) or norm(n.func.value) == 'self')]
    if neg_line is not None and all(n.lineno > neg_line for n in state_changes + comp_seeks):
        chk.ok(R5, si.qualname, 'if target < 0: raise', detail='precedes every state change and every move of the compressed stream')
    else:
        chk.bad(R5, si.qualname, 'negative-target guard', 'a negative seek target is no longer rejected before the decompresser changes its state: the position is corrupted by a rejected seek',
                where=f'{si.module.relpath}:{si.lineno}')
    # forward loop terminates on empty read
    loops = [n for n in walk_local(si.node) if isinstance(n, ast.While)]
    okloop = any(any(isinstance(x, ast.If) and isinstance(x.test, ast.UnaryOp) and any(isinstance(b, ast.Break) for b in x.body) for x in ast.walk(l)) for l in loops)
    if okloop:
        chk.ok(R5, si.qualname, 'forward-seek loop', detail='breaks on an empty read (clamps at end of stream)')
    else:
        chk.bad(R5, si.qualname, 'forward-seek loop', 'the forward-seek loop no longer stops on an empty read: seeking past the end never terminates', where=f'{si.module.relpath}:{si.lineno}')
    # proxy flag
    flag = '_use_uncompressed_stream'
    zcls = prog.cls(ZL)
    sets_true, sets_false = [], []
    for mname, mf in zcls.methods.items():
        for n in walk_local(mf.node):
            if isinstance(n, (ast.Assign, ast.AnnAssign)):
                tgt = n.targets[0] if isinstance(n, ast.Assign) else n.target
                if isinstance(tgt, ast.Attribute) and tgt.attr == flag and isinstance(n.value, ast.Constant):
                    (sets_true if n.value.value is True else sets_false).append((mname, n))
    bad5 = [x for x in sets_false if x[0] != '__init__']
    if bad5:
        for mname, n in bad5:
            chk.bad(R5, f'{ZL}.{mname}', norm(n), 'the proxy flag is reset after the switch to the uncompressed copy: the compressed stream position is stale', where=f'{zcls.module.relpath}:{n.lineno}')
    else:
        chk.ok(R5, ZL, f'{flag}: set True at {len(sets_true)} site(s), False only in __init__', detail='one-way switch')
    for mname, n in sets_true:
        mf = zcls.methods[mname]
        pre = [c for c in walk_local(mf.node) if isinstance(c, ast.Call) and isinstance(c.func, ast.Attribute) and c.lineno < n.lineno]
        # both calls must sit in the very block that sets the flag (same guard): a position carried over only under a further condition leaves the
        # uncompressed copy at offset 0 on the other paths
        blk = getattr(n, '_parent', None)
        sibs = [x for f_ in ('body', 'orelse', 'finalbody') for x in (getattr(blk, f_, None) or [])] if blk is not None else []
        pre_here = [c for st_ in sibs if getattr(st_, 'lineno', 0) < n.lineno and isinstance(st_, ast.Expr) and isinstance(st_.value, ast.Call) and isinstance(st_.value.func, ast.Attribute) for c in [st_.value]]
        opened = any(c.func.attr == 'open_stream' for c in pre_here)
        seeked = any(c.func.attr == 'seek' and '_lazy_uncompressed_stream' in names_in(c.func.value) and c.args and '_pos' in names_in(c.args[0]) for c in pre_here)
        if opened and seeked:
            chk.ok(R5, f'{ZL}.{mname}', norm(n), detail='after open_stream() and seek(self._pos, 0)')
        else:
            chk.bad(R5, f'{ZL}.{mname}', norm(n), 'the switch to the uncompressed copy is not preceded by open_stream() and seek(self._pos, 0): the position jumps', where=f'{zcls.module.relpath}:{n.lineno}')
    for mname in ('read', 'tell', '_seek_internal'):
        mf = zcls.methods.get(mname)
        chk.require(mf is not None, f'{ZL}.{mname} not found')
        body = [s for s in mf.node.body if not (isinstance(s, ast.Expr) and isinstance(s.value, ast.Constant))]
        first_if = next((s for s in body if isinstance(s, ast.If)), None)
        pre = body[:body.index(first_if)] if first_if is not None else body
        pure_pre = all(_inert(s) for s in pre)
        if first_if is not None and flag in names_in(first_if.test) and pure_pre:
            chk.ok(R5, f'{ZL}.{mname}', f'if self.{flag}:', detail='tested before anything else', nontrivial=False)
        else:
            chk.bad(R5, f'{ZL}.{mname}', 'proxy test', f'{mname}() no longer tests the proxy flag first: after the switch it would use the stale compressed stream', where=f'{zcls.module.relpath}:{mf.lineno}')

    # the public seek() hands its arguments to _seek_internal unchanged: every conversion of (target, whence) happens behind the proxy test of
    # _seek_internal (own position `_pos` is stale once the stream reads from the uncompressed copy)
    zseek = zcls.methods.get('seek')
    chk.require(zseek is not None, f'{ZL}.seek not found')
    zp = [p_ for p_ in zseek.params if p_ != 'self'][:2]
    rebinds = [n for n in walk_local(zseek.node) if isinstance(n, (ast.Assign, ast.AugAssign, ast.AnnAssign)) and
               any(isinstance(t, ast.Name) and t.id in zp for tt in ([n.target] if not isinstance(n, ast.Assign) else n.targets) for t in ast.walk(tt))]
    deleg = [c for c in walk_local(zseek.node) if isinstance(c, ast.Call) and isinstance(c.func, ast.Attribute) and c.func.attr == '_seek_internal']
    okdel = len(deleg) == 1 and [norm(a) for a in deleg[0].args] + [norm(k.value) for k in deleg[0].keywords] == zp and not rebinds
    proxy_ret = True
    for mname in ('read', 'tell', '_seek_internal'):
        mf = zcls.methods.get(mname)
        body = [s_ for s_ in mf.node.body if not (isinstance(s_, ast.Expr) and isinstance(s_.value, ast.Constant))]
        first_if = next((s_ for s_ in body if isinstance(s_, ast.If)), None)
        if first_if is None or not (first_if.body and isinstance(first_if.body[-1], ast.Return)):
            proxy_ret = False
    if okdel and proxy_ret:
        chk.ok(R5, zseek.qualname, norm(deleg[0]), detail='seek() delegates its (target, whence) unchanged; read/tell/_seek_internal return from the proxy branch before touching their own position')
    else:
        what = rebinds[0] if rebinds else (deleg[0] if deleg else zseek.node)
        chk.bad(R5, zseek.qualname, norm(what)[:100], 'seek() rewrites its target/whence (or the proxy branch of read/tell/_seek_internal does not return) before the proxy test: once the stream reads from the '
                'uncompressed copy the decompresser\'s own position is stale, so a relative seek computed from it lands at a wrong offset', where=f'{zseek.module.relpath}:{getattr(what, "lineno", zseek.lineno)}')

    # every decompresser the read funnel hands out gets the lazy loose copy (siblings agree): without it a seek from the end is impossible for that
    # object, although the same object read through the other lookup pass supports it
    R9 = chk.rule('C07.R9', 'every stream decompresser constructed by the read funnel is given the lazy loose stream of its object (both lookup passes agree)', 1)
    from .funnel import FUNNEL
    fun = prog.fn(FUNNEL)
    ctor = [c for c in walk_local(fun.node) if isinstance(c, ast.Call) and isinstance(c.func, ast.Call) and norm(c.func.func).endswith('_get_stream_decompresser')]
    chk.require(len(ctor) >= 2, f'funnel: expected 2 decompresser construction sites, found {len(ctor)}')
    nolazy = [c for c in ctor if not any(k.arg == 'lazy_uncompressed_stream' for k in c.keywords) and len(c.args) < 2]
    for c in nolazy:
        chk.bad(R9, FUNNEL, norm(c)[:100], 'this compressed object is handed out without its lazy loose copy: seek(offset, 2) raises NotImplementedError for it although the sibling lookup pass supports it',
                where=f'{fun.module.relpath}:{c.lineno}')
    if not nolazy:
        chk.ok(R9, FUNNEL, f'{len(ctor)} construction site(s)', detail='all pass lazy_uncompressed_stream')

    # ---------------------------------------------------------------- R8: decompresser position bookkeeping and seek loop shape
    R8 = chk.rule('C07.R8', 'decompresser: position advanced by exactly the bytes handed out; forward seek reads at most up to the target; a backward target rewinds first', 3)
    rc = zcls.methods.get('_read_compressed')
    chk.require(rc is not None, f'{ZL}._read_compressed not found')
    # the bytes returned from the buffer: `X, buf = buf[:size], buf[size:]` (or two assignments), then pos += len(X), then return X
    rets = [n for n in walk_local(rc.node) if isinstance(n, ast.Return) and isinstance(n.value, ast.Name)]
    okpos = bool(rets)
    for r in rets:
        x = r.value.id
        blk = getattr(r, '_parent', None)
        body = getattr(blk, 'body', [])
        if r not in body:
            okpos = False
            continue
        before = body[:body.index(r)]
        adv = [st for st in before if isinstance(st, ast.AugAssign) and isinstance(st.op, ast.Add) and isinstance(st.target, ast.Attribute) and st.target.attr == '_pos'
               and norm(st.value) == f'len({x})']
        setpos = [st for st in before if isinstance(st, (ast.Assign, ast.AugAssign)) and any(isinstance(t, ast.Attribute) and t.attr == '_pos' for t in ([st.target] if isinstance(st, ast.AugAssign) else st.targets))]
        src = [st for st in before if isinstance(st, ast.Assign) and x in names_in(st.targets[0])]
        # the split of the buffer: head is returned, tail stays, cut at the same index
        split_ok = False
        for st in src:
            tg, val = st.targets[0], st.value
            if isinstance(tg, ast.Tuple) and isinstance(val, ast.Tuple) and len(tg.elts) == 2 and len(val.elts) == 2:
                h, t = val.elts
                if isinstance(h, ast.Subscript) and isinstance(t, ast.Subscript) and isinstance(h.slice, ast.Slice) and isinstance(t.slice, ast.Slice) \
                        and h.slice.lower is None and t.slice.upper is None and h.slice.upper is not None and t.slice.lower is not None and norm(h.slice.upper) == norm(t.slice.lower) \
                        and norm(h.value) == norm(t.value) == norm(tg.elts[1]) and norm(tg.elts[0]) == x:
                    split_ok = True
        if not split_ok:
            # two-statement spelling: x = B[:k] ; B = B[k:]
            heads = [st for st in before if isinstance(st, ast.Assign) and norm(st.targets[0]) == x and isinstance(st.value, ast.Subscript) and isinstance(st.value.slice, ast.Slice)
                     and st.value.slice.lower is None and st.value.slice.upper is not None]
            for hst in heads:
                B, k = norm(hst.value.value), norm(hst.value.slice.upper)
                tails = [st for st in before if isinstance(st, ast.Assign) and norm(st.targets[0]) == B and isinstance(st.value, ast.Subscript) and isinstance(st.value.slice, ast.Slice)
                         and st.value.slice.upper is None and st.value.slice.lower is not None and norm(st.value.slice.lower) == k and norm(st.value.value) == B]
                if len(tails) == 1 and before.index(tails[0]) > before.index(hst):
                    split_ok = True
        if not (len(adv) == 1 and len(setpos) == 1 and split_ok):
            okpos = False
    if okpos:
        chk.ok(R8, rc.qualname, 'self._pos += len(<returned head of the buffer>)', detail='the buffer is cut at one index into (returned, kept) and the position advances by the returned length only')
    else:
        chk.bad(R8, rc.qualname, 'position bookkeeping', 'the decompresser position is not advanced by exactly the length of the bytes handed out (or the buffer is not cut at one index into returned / kept parts): '
                'tell() and every later seek drift away from the data actually consumed', where=f'{rc.module.relpath}:{rc.lineno}')
    # forward seek loop: while tell() < target: read(min(c, target - tell()))
    tparam = si.params[0]
    fl = [l for l in loops if isinstance(l.test, ast.Compare) and isinstance(l.test.ops[0], ast.Lt) and norm(l.test.comparators[0]) == tparam and 'tell' in norm(l.test.left)]
    okfl = len(fl) == 1
    if okfl:
        rds = [c for c in ast.walk(fl[0]) if isinstance(c, ast.Call) and isinstance(c.func, ast.Attribute) and c.func.attr == 'read']
        okfl = bool(rds)
        for c in rds:
            a = c.args[0] if c.args else None
            bound = None
            if isinstance(a, ast.Call) and norm(a.func) == 'min':
                bound = [x for x in a.args if isinstance(x, ast.BinOp) and isinstance(x.op, ast.Sub) and norm(x.left) == tparam and 'tell' in norm(x.right)]
            elif isinstance(a, ast.BinOp) and isinstance(a.op, ast.Sub) and norm(a.left) == tparam and 'tell' in norm(a.right):
                bound = [a]
            if not bound:
                okfl = False
    if okfl:
        chk.ok(R8, si.qualname, norm(fl[0].test) + ': read(min(.., target - tell()))', detail='the forward seek never reads past the requested position')
    else:
        chk.bad(R8, si.qualname, 'forward-seek loop', 'the forward-seek loop reads chunks that are not bounded by (target - current position): the stream ends up beyond the requested position',
                where=f'{si.module.relpath}:{(fl[0].lineno if fl else si.lineno)}')
    # backward: `if target < tell(): <rewind>` before the forward loop
    bw = [n for n in si.node.body if isinstance(n, ast.If) and isinstance(n.test, ast.Compare) and isinstance(n.test.ops[0], ast.Lt) and norm(n.test.left) == tparam and 'tell' in norm(n.test.comparators[0])]
    okbw = len(bw) == 1 and fl and bw[0].lineno < fl[0].lineno and any(isinstance(c, ast.Call) and isinstance(c.func, ast.Attribute) and c.func.attr in ('seek', '_seek_internal') and c.args
                                                                       and isinstance(c.args[0], ast.Constant) and c.args[0].value == 0 for c in ast.walk(bw[0]))
    if okbw:
        chk.ok(R8, si.qualname, norm(bw[0].test) + ': seek(0)', detail='a target behind the current position restarts from 0 before reading forward')
    else:
        chk.bad(R8, si.qualname, 'backward seek', 'a target behind the current position no longer rewinds to 0 before the forward loop: the seek silently stays at the old position', where=f'{si.module.relpath}:{si.lineno}')

    decompresser_buffer_discipline(ctx, chk, R8)

    R10 = chk.rule('C07.R10', 'read(n) hands out n bytes unless the object ends first: the requested size is passed on unchanged and is only ever capped by the bytes remaining in the object', 5)
    read_size_exactness(ctx, chk, R10)

    R11 = chk.rule('C07.R11', 'the re-loosened copy a stream switches to is complete whenever it exists: files under loose/ appear only by atomic rename of a finished sandbox file', 1)
    from .common import loose_write_ownership
    loose_write_ownership(ctx, chk, R11, 'the lazy loose stream (and every seek that falls back to it) trusts any file it finds under the key: a copy that is still being written, or was left '
                          'half-written by an interruption, is then served as the object -- truncated reads, wrong seek(0, 2)')

    R12 = chk.rule('C07.R12', 'a rejected seek leaves the stream where it was: no `raise` is reachable after the underlying stream has been moved (no probing seek); state is not cleared before the step that can fail', 4)
    seek_atomicity(ctx, chk, R12)

    R6 = chk.rule('C07.R6', 'decompresser rewind (re-inflate from 0) resets every piece of decompression state that __init__ initialises', 1)
    rewind_reset(ctx, chk, R6)

    return chk.finish(
        explanation=('Static checks of the stream classes\' API contract shape: per-whence typestate on PackedObjectReader.seek (bounds checks valid for the variable that '
                     'determines the new handle position, normalisation with tell()/length, returned value), bounded read sizes and position refresh, whence '
                     'rejection before effects, and the decompresser\'s guards and one-way proxy switch (sibling agreement of read/tell/seek).'),
        rule_text='obligation = (rule, method, whence value / site); non-trivial = path query or def-use check',
        assumptions=['the loose stream is a regular Python file object (its own seek/read semantics are trusted)'],
        not_decided='equality with io.BytesIO for all programs and contents (values); zlib arithmetic in _read_compressed.')
