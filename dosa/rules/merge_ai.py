"""Finite-domain abstract interpretation of utils.detect_where_sorted (C16.R5).

The function touches the elements of its two input sequences only through comparisons (checked by C16.R4: comparison-only
dataflow), so its control behaviour depends on a finite abstraction:

    * every boolean local (exhausted flags, "which side is current", "advance both", ...)      -> True / False
    * the order relation between the two *current* elements  key(last_left) ? last_right       -> '<' | '=' | '>' | unknown
      (unknown after either side advanced; fixed on first test and kept consistent until the next advance)
    * the outcome of next(<iterator>)                                                           -> an element | StopIteration

The interpreter explores the control-flow of the source over that domain from the function entry to a fixed point (all
reachable abstract states at the head of the merge loop; the domain is finite, so this terminates and covers every pair of
input sequences).  Nothing of the repository is executed: statements are interpreted over the abstract domain only.

Obligations checked on every reachable iteration of the merge loop (the inductive step of "min-first merge"):
    O1  exactly one element is yielded per iteration, before anything is advanced
    O2  the yielded pair is the one the specification demands for the abstract state:
          right exhausted -> (left element, LEFTONLY);  left exhausted -> (right element, RIGHTONLY);
          '<' -> (left, LEFTONLY);  '=' -> (left, BOTH);  '>' -> (right, RIGHTONLY)
        and a side that is exhausted is never yielded (no stale element)
    O3  exactly the yielded side(s) are advanced afterwards (left for LEFTONLY, right for RIGHTONLY, both for BOTH)
    O4  the loop is left only when both sides are exhausted and every element has been yielded (no current element pending)
With sorted unique inputs (guarded: C16.R4) O1-O4 give by induction: every element of either sequence is classified exactly once
and correctly.
"""
from __future__ import annotations

import ast

from ..loader import norm, walk_local

MAXSTATES = 20000


class AIError(Exception):
    pass


class St:
    """Abstract state (hashable)."""
    __slots__ = ('b', 'cmp', 'pend', 'y', 'adv')

    def __init__(self, b, cmp, pend, y, adv):
        self.b = b          # frozenset of (name, bool)
        self.cmp = cmp      # '<' '=' '>' or None
        self.pend = pend    # (left_pending, right_pending): a current element exists and was not yielded yet
        self.y = y          # tuple of yields in this iteration: ((side, loc), ...)
        self.adv = adv      # frozenset of sides advanced in this iteration

    def key(self):
        return (self.b, self.cmp, self.pend, self.y, self.adv)

    def __hash__(self):
        return hash(self.key())

    def __eq__(self, o):
        return self.key() == o.key()

    def get(self, name):
        for n, v in self.b:
            if n == name:
                return v
        return None

    def set(self, name, val):
        return St(frozenset({(n, v) for n, v in self.b if n != name} | {(name, val)}), self.cmp, self.pend, self.y, self.adv)

    def rep(self, **kw):
        d = {'b': self.b, 'cmp': self.cmp, 'pend': self.pend, 'y': self.y, 'adv': self.adv}
        d.update(kw)
        return St(**d)


class MergeAI:
    def __init__(self, fn):
        self.fn = fn
        node = fn.node
        params = [a.arg for a in node.args.args]
        if len(params) < 2:
            raise AIError('detect_where_sorted: expected (left_iterator, right_iterator, ...)')
        self.itl, self.itr = params[0], params[1]
        # current-element variables = targets of the top-level `X = next(<iterator>)`
        self.cur = {}
        for tr in [n for n in node.body if isinstance(n, ast.Try)]:
            for s in tr.body:
                if isinstance(s, ast.Assign) and isinstance(s.value, ast.Call) and norm(s.value.func) == 'next' and s.value.args and isinstance(s.targets[0], ast.Name):
                    side = 'left' if norm(s.value.args[0]) == self.itl else ('right' if norm(s.value.args[0]) == self.itr else None)
                    if side:
                        self.cur[side] = s.targets[0].id
        if set(self.cur) != {'left', 'right'}:
            raise AIError('detect_where_sorted: initial next() of both iterators not found')
        # exhausted flags = names set True in the StopIteration handler of a try whose body advances that side, and tested by the merge loop's condition
        loops0 = [n for n in node.body if isinstance(n, ast.While)]
        in_test = {x.id for l0 in loops0 for x in ast.walk(l0.test) if isinstance(x, ast.Name)}
        self.exh = {}
        for tr in [n for n in walk_local(node) if isinstance(n, ast.Try)]:
            side = None
            for s in tr.body:
                for c in ast.walk(s):
                    if isinstance(c, ast.Call) and norm(c.func) == 'next' and c.args:
                        side = 'left' if norm(c.args[0]) == self.itl else ('right' if norm(c.args[0]) == self.itr else side)
            for h in tr.handlers:
                if h.type is not None and 'StopIteration' in norm(h.type):
                    for s in h.body:
                        if isinstance(s, ast.Assign) and isinstance(s.value, ast.Constant) and s.value.value is True and isinstance(s.targets[0], ast.Name) and side \
                                and s.targets[0].id in in_test:
                            self.exh.setdefault(side, s.targets[0].id)
        if set(self.exh) != {'left', 'right'}:
            raise AIError('detect_where_sorted: exhausted flags not found')
        loops = [n for n in node.body if isinstance(n, ast.While)]
        if len(loops) != 1:
            raise AIError('detect_where_sorted: expected one top-level merge loop')
        self.loop = loops[0]
        self.problems = []
        self.fetched = {}
        self.iterations = 0
        self.states_seen = 0
        self.head_states = set()

    # ------------------------------------------------------------------ expressions
    def _is_cur(self, e, side):
        """e is the comparison key of the current element of `side`"""
        if side == 'right':
            return isinstance(e, ast.Name) and e.id == self.cur['right']
        if isinstance(e, ast.Name) and e.id == self.cur['left']:
            return True
        return isinstance(e, ast.Call) and norm(e.func) == 'left_key' and len(e.args) == 1 and isinstance(e.args[0], ast.Name) and e.args[0].id == self.cur['left']

    def ev(self, e, st):
        """Evaluate a condition: returns [(bool, state')] (forks on unknowns)."""
        if isinstance(e, ast.Constant) and isinstance(e.value, bool):
            return [(e.value, st)]
        if isinstance(e, ast.Name):
            v = st.get(e.id)
            if v is None:
                return [(True, st.set(e.id, True)), (False, st.set(e.id, False))] if e.id in self.boolnames else [(True, st), (False, st)]
            return [(v, st)]
        if isinstance(e, ast.UnaryOp) and isinstance(e.op, ast.Not):
            return [(not v, s2) for v, s2 in self.ev(e.operand, st)]
        if isinstance(e, ast.BoolOp):
            isand = isinstance(e.op, ast.And)
            outs = [(isand, st)]
            for sub in e.values:
                new = []
                for acc, s1 in outs:
                    if acc != isand:      # short-circuited
                        new.append((acc, s1))
                        continue
                    for v, s2 in self.ev(sub, s1):
                        new.append((v, s2))
                outs = new
            return outs
        if isinstance(e, ast.Compare) and len(e.ops) == 1:
            l, r, op = e.left, e.comparators[0], e.ops[0]
            rel = None
            if self._is_cur(l, 'left') and self._is_cur(r, 'right'):
                rel = {ast.Eq: '=', ast.Lt: '<', ast.Gt: '>', ast.LtE: '<=', ast.GtE: '>=', ast.NotEq: '!='}.get(type(op))
            elif self._is_cur(l, 'right') and self._is_cur(r, 'left'):
                rel = {ast.Eq: '=', ast.Lt: '>', ast.Gt: '<', ast.LtE: '>=', ast.GtE: '<=', ast.NotEq: '!='}.get(type(op))
            if rel is not None:
                sat = {'=': {'='}, '<': {'<'}, '>': {'>'}, '<=': {'<', '='}, '>=': {'>', '='}, '!=': {'<', '>'}}[rel]
                # comparing current elements is only meaningful when both exist
                if st.get(self.exh['left']) or st.get(self.exh['right']):
                    self.problems.append((e, 'the current elements of the two sides are compared although one side is exhausted (its "current" element is stale)'))
                outs = []
                for c in (('<', '=', '>') if st.cmp is None else (st.cmp,)):
                    outs.append((c in sat, st.rep(cmp=c)))
                return outs
            # sortedness guards `new <= last` etc.: nondeterministic (a True outcome leads to the raise); the fetched element counts as checked
            names = {x.id for x in ast.walk(e) if isinstance(x, ast.Name)}
            st2 = st
            for v in list(names):
                sd = self.fetched.get(v)
                if sd and st.get('@unchk:' + v) and self.cur[sd] in names and isinstance(op, (ast.LtE, ast.GtE, ast.Lt, ast.Gt)):
                    st2 = st2.set('@unchk:' + v, False)
            return [(True, st2), (False, st2)]
        if isinstance(e, ast.Call):
            return [(True, st), (False, st)]
        return [(True, st), (False, st)]

    # ------------------------------------------------------------------ statements
    def block(self, stmts, states):
        """states: list of (St, flow) with flow in 'n' (normal) ; returns list of (St, flow) with flow in n / break / continue / return / raise / stop"""
        cur = [(s, 'n') for s in states]
        for st_ in stmts:
            nxt = []
            for s, fl in cur:
                if fl != 'n':
                    nxt.append((s, fl))
                    continue
                nxt.extend(self.stmt(st_, s))
            cur = nxt
            if len(cur) > MAXSTATES:
                raise AIError('state explosion in the abstract interpreter')
        return cur

    def stmt(self, n, st):
        self.states_seen += 1
        if isinstance(n, (ast.Pass, ast.Import, ast.ImportFrom)):
            return [(st, 'n')]
        if isinstance(n, ast.Expr):
            v = n.value
            if isinstance(v, ast.Yield):
                return [(self.do_yield(v, st), 'n')]
            if isinstance(v, ast.Constant):
                return [(st, 'n')]
            return [(st, 'n')]
        if isinstance(n, (ast.Assign, ast.AnnAssign)):
            tgt = n.targets[0] if isinstance(n, ast.Assign) and len(n.targets) == 1 else getattr(n, 'target', None)
            val = n.value
            if isinstance(val, ast.Yield):
                return [(self.do_yield(val, st), 'n')]
            if isinstance(tgt, ast.Name) and val is not None:
                if isinstance(val, ast.Call) and norm(val.func) == 'next' and val.args:
                    side = 'left' if norm(val.args[0]) == self.itl else ('right' if norm(val.args[0]) == self.itr else None)
                    if side is None:
                        return [(st, 'n')]
                    # two outcomes: an element (bound to tgt) or StopIteration (handled by the enclosing try)
                    if st.get(self.exh[side]):
                        return [(st, 'stop:' + side)]
                    if tgt.id in self.cur.values():
                        if st.get('@started:' + side):
                            self.problems.append((n, f'a further {side} element becomes the current one straight from next() without the sortedness/uniqueness check against its predecessor'))
                        return [(self.advance(st, side, direct=True).set('@started:' + side, True), 'n'), (st, 'stop:' + side)]
                    self.fetched[tgt.id] = side
                    return [(st.set('@unchk:' + tgt.id, True), 'n'), (st, 'stop:' + side)]
                if tgt.id in self.cur.values() and isinstance(val, ast.Name):
                    # last_<side> = new   (the element fetched by the preceding next() of the same side)
                    side = 'left' if tgt.id == self.cur['left'] else 'right'
                    if self.fetched.get(val.id) != side:
                        self.problems.append((n, f'the current {side} element is overwritten with `{val.id}`, which was not fetched from the {side} iterator'))
                    if st.get('@unchk:' + val.id):
                        self.problems.append((n, f'`{val.id}` becomes the current {side} element without having been compared with its predecessor (`new <= last -> ValueError`): '
                                                 'unsorted or repeated input is silently misclassified'))
                    return [(self.advance(st, side).set('@unchk:' + val.id, False).set('@started:' + side, True), 'n')]
                if tgt.id in self.boolnames:
                    outs = []
                    for v, s2 in self.ev(val, st):
                        outs.append((s2.set(tgt.id, v), 'n'))
                    return outs
            return [(st, 'n')]
        if isinstance(n, ast.If):
            outs = []
            for v, s2 in self.ev(n.test, st):
                outs.extend(self.block(n.body if v else n.orelse, [s2]))
            return outs
        if isinstance(n, ast.Raise):
            return [(st, 'raise')]
        if isinstance(n, ast.Return):
            return [(st, 'return')]
        if isinstance(n, ast.Break):
            return [(st, 'break')]
        if isinstance(n, ast.Continue):
            return [(st, 'continue')]
        if isinstance(n, ast.Try):
            outs = []
            for s2, fl in self.block(n.body, [st]):
                if fl.startswith('stop:'):
                    handled = False
                    for h in n.handlers:
                        if h.type is None or 'StopIteration' in norm(h.type) or norm(h.type) in ('Exception', 'BaseException'):
                            outs.extend(self.block(h.body, [s2]))
                            handled = True
                            break
                    if not handled:
                        outs.append((s2, fl))
                else:
                    outs.append((s2, fl))
            if n.finalbody:
                fin = []
                for s2, fl in outs:
                    for s3, fl3 in self.block(n.finalbody, [s2]):
                        fin.append((s3, fl if fl3 == 'n' else fl3))
                outs = fin
            return outs
        if isinstance(n, ast.While):
            return self.loop_fix(n, st)
        if isinstance(n, ast.For) and isinstance(n.iter, ast.Name) and n.iter.id in (self.itl, self.itr) and isinstance(n.target, ast.Name):
            # for <v> in <side iterator>: body   ==   repeatedly  v = next(it)  until StopIteration
            side = 'left' if n.iter.id == self.itl else 'right'
            seen, work, exits = set(), [st], []
            fetch = ast.copy_location(ast.Assign(targets=[ast.Name(id=n.target.id, ctx=ast.Store())],
                                                 value=ast.Call(func=ast.Name(id='next', ctx=ast.Load()), args=[ast.Name(id=n.iter.id, ctx=ast.Load())], keywords=[])), n)
            while work:
                s0 = work.pop()
                if s0 in seen:
                    continue
                seen.add(s0)
                if len(seen) > MAXSTATES:
                    raise AIError('state explosion in a for loop over an input iterator')
                for s1, fl in self.stmt(fetch, s0):
                    if fl.startswith('stop:'):
                        exits.extend(self.block(n.orelse, [s1]) if n.orelse else [(s1, 'n')])
                        continue
                    for s2, fl2 in self.block(n.body, [s1.rep(adv=frozenset(), y=()).set('@drained', True)]):
                        s2 = s2.rep(y=(), adv=frozenset())
                        if fl2 in ('n', 'continue'):
                            work.append(s2)
                        elif fl2 == 'break':
                            exits.append((s2, 'n'))
                        else:
                            exits.append((s2, fl2))
            return exits
        if isinstance(n, ast.Assert):
            return [(st, 'n')]
        if isinstance(n, (ast.FunctionDef, ast.AsyncFunctionDef)):
            return [(st, 'n')]
        raise AIError(f'statement kind {type(n).__name__} at line {n.lineno} is not modelled by the abstract interpreter')

    def advance(self, st, side, direct=False):
        """The current element of `side` is replaced by the next one."""
        i = 0 if side == 'left' else 1
        pend = list(st.pend)
        if pend[i] and self.in_loop:
            self.problems.append((self.loop, f'the current {side} element is replaced before it was yielded: that element is never classified'))
        pend[i] = True
        return st.rep(cmp=None, pend=tuple(pend), adv=st.adv | {side})

    def do_yield(self, y, st):
        v = y.value
        side = loc = None
        if isinstance(v, ast.Tuple) and len(v.elts) == 2:
            el, lc = v.elts
            if isinstance(el, ast.Name) and el.id in self.cur.values():
                side = 'left' if el.id == self.cur['left'] else 'right'
            if isinstance(lc, ast.Attribute):
                loc = lc.attr
        if side is None or loc is None:
            self.problems.append((y, f'yield `{norm(v)[:60]}` is not (current element, Location.X)'))
            return st
        pend = list(st.pend)
        i = 0 if side == 'left' else 1
        if not pend[i]:
            self.problems.append((y, f'the {side} element is yielded although it was already classified (or that side has no current element): an element is reported twice'))
        pend[i] = False
        if loc == 'BOTH':
            j = 1 - i
            if not pend[j]:
                self.problems.append((y, 'BOTH is reported although the other side has no unclassified current element'))
            pend[j] = False
        if st.adv and self.in_loop:
            self.problems.append((y, 'an element is yielded after an iterator was already advanced in this iteration'))
        # O2: specification
        le, re = st.get(self.exh['left']), st.get(self.exh['right'])
        want = None
        if le and re:
            want = None
        elif re:
            want = ('left', 'LEFTONLY')
        elif le:
            want = ('right', 'RIGHTONLY')
        elif st.cmp is None:
            self.problems.append((y, 'an element is yielded on a path that did not compare the two current elements although both sides still have one: its classification cannot be right for every input'))
            want = (side, loc)
        else:
            want = {'<': ('left', 'LEFTONLY'), '=': ('left', 'BOTH'), '>': ('right', 'RIGHTONLY')}[st.cmp]
        if want is not None and (side, loc) != want:
            self.problems.append((y, f'in the abstract state (left exhausted={le}, right exhausted={re}, key(left) {st.cmp or "?"} right) the code yields ({side} element, {loc}) '
                                     f'but the merge must yield ({want[0]} element, {want[1]})'))
        return st.rep(pend=tuple(pend), y=st.y + ((side, loc),))

    # ------------------------------------------------------------------ the merge loop
    def loop_fix(self, loop, st0):
        self.in_loop = True
        seen = set()
        work = [st0.rep(y=(), adv=frozenset())]
        exits = []
        while work:
            st = work.pop()
            if st in seen:
                continue
            seen.add(st)
            self.head_states.add(st)
            if len(seen) > MAXSTATES:
                raise AIError('state explosion at the loop head')
            for v, s1 in self.ev(loop.test, st):
                if not v:
                    exits.append((s1, 'n'))
                    # O4
                    le, re = s1.get(self.exh['left']), s1.get(self.exh['right'])
                    if not (le and re) or s1.pend[0] or s1.pend[1]:
                        self.problems.append((loop, f'the merge loop can end with unclassified elements (left exhausted={le}, right exhausted={re}, pending current elements={s1.pend})'))
                    continue
                self.iterations += 1
                for s2, fl in self.block(loop.body, [s1.rep(y=(), adv=frozenset())]):
                    if fl in ('raise',) or fl.startswith('stop:'):
                        if fl.startswith('stop:'):
                            self.problems.append((loop, 'StopIteration can escape from the merge loop'))
                        continue
                    if fl == 'return':
                        exits.append((s2, 'return'))
                        if s2.pend[0] or s2.pend[1]:
                            self.problems.append((loop, 'the generator returns from inside the loop with an unclassified current element'))
                        continue
                    # end of one iteration (normal / continue) or break
                    if s2.get('@drained'):
                        pass  # an inner loop drained one side: classification is tracked element by element (pending/yielded bookkeeping)
                    elif len(s2.y) != 1:
                        self.problems.append((loop, f'an iteration of the merge loop yields {len(s2.y)} element(s) instead of exactly one (abstract state at its start: '
                                                    f'left exhausted={s1.get(self.exh["left"])}, right exhausted={s1.get(self.exh["right"])})'))
                    else:
                        side, loc = s2.y[0]
                        want_adv = {'LEFTONLY': {'left'}, 'RIGHTONLY': {'right'}, 'BOTH': {'left', 'right'}}.get(loc, set())
                        # an advance attempt that hit StopIteration also counts: the side is consumed (flag set)
                        consumed = set(s2.adv)
                        for sd in ('left', 'right'):
                            if s2.get(self.exh[sd]) and not s1.get(self.exh[sd]):
                                consumed.add(sd)
                        if consumed != want_adv:
                            self.problems.append((loop, f'after yielding ({side} element, {loc}) the iteration advances {sorted(consumed) or "nothing"} instead of {sorted(want_adv)}: '
                                                        'an element is skipped or classified twice'))
                    if fl == 'break':
                        exits.append((s2, 'n'))
                    else:
                        work.append(s2.rep(y=(), adv=frozenset()).set('@drained', False))
        self.in_loop = False
        return exits

    def run(self):
        node = self.fn.node
        # boolean locals: names assigned a bool constant / not-expression somewhere
        self.boolnames = set()
        for n in walk_local(node):
            if isinstance(n, ast.Assign) and isinstance(n.targets[0], ast.Name):
                v = n.value
                if (isinstance(v, ast.Constant) and isinstance(v.value, bool)) or isinstance(v, (ast.BoolOp, ast.UnaryOp, ast.Compare)) or (isinstance(v, ast.Name) and v.id in self.boolnames):
                    self.boolnames.add(n.targets[0].id)
        changed = True
        while changed:
            changed = False
            for n in walk_local(node):
                if isinstance(n, ast.Assign) and isinstance(n.targets[0], ast.Name) and isinstance(n.value, ast.Name) and n.value.id in self.boolnames and n.targets[0].id not in self.boolnames:
                    self.boolnames.add(n.targets[0].id)
                    changed = True
        self.in_loop = False
        st0 = St(frozenset(), None, (False, False), (), frozenset())
        outs = self.block(node.body, [st0])
        for s, fl in outs:
            if fl.startswith('stop:'):
                self.problems.append((node, 'StopIteration can escape from the generator'))
            if fl in ('n', 'return') and (s.pend[0] or s.pend[1]):
                self.problems.append((node, f'the generator can finish with an unclassified current element (pending={s.pend})'))
        return self.problems
